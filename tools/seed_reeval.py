#!/usr/bin/env python3
"""maintenance helper: re-run every claimed check against every confirmed seeded change and regenerate seeded/INDEX.md"""
import json, os, subprocess, tempfile, shutil, sys
V = "/verif"
man = json.load(open(V + "/MANIFEST.json"))
rows = []
only = sys.argv[1:]
from concurrent.futures import ThreadPoolExecutor


def evaluate(name):
    d = os.path.join(V, "seeded", name)
    mp = os.path.join(d, "meta.json")
    if not os.path.exists(mp):
        return None
    meta = json.load(open(mp))
    if meta.get("confirmed") and (not only or name in only or meta["property"] in only):
        scratch = tempfile.mkdtemp(prefix="reeval-")
        subprocess.run("rsync -a --exclude target --exclude .git /repo/ %s/" % scratch, shell=True, check=True)
        if subprocess.run("cd %s && patch -p1 -s < %s/patch.diff" % (scratch, d), shell=True).returncode != 0:
            shutil.rmtree(scratch, ignore_errors=True)
            print(name, "PATCH DOES NOT APPLY to the current tree (port it; keep the original as patch.as_submitted.diff)", flush=True)
            return meta
        fired = {}
        try:
            for c in man["checks"]:
                cid = c["property_id"]
                if os.environ.get("ONLY_CHECKS") and cid not in os.environ["ONLY_CHECKS"].split(","):
                    continue
                evd = tempfile.mkdtemp()
                p = subprocess.run(c["quick_cmd"], shell=True, cwd=V, env=dict(os.environ, VERIF_EVIDENCE_DIR=evd, VERIF_REPO=scratch), stdout=subprocess.PIPE, text=True)
                if p.returncode != 0:
                    try:
                        fired[cid] = json.load(open(os.path.join(evd, cid + ".json")))["coverage"].get("new_violations", [])[:6]
                    except Exception:
                        fired[cid] = ["?"]
                shutil.rmtree(evd, ignore_errors=True)
        finally:
            shutil.rmtree(scratch, ignore_errors=True)
        if "checks_that_report_it_first_run" not in meta:
            meta["checks_that_report_it_first_run"] = meta.get("checks_that_report_it", {})
            meta["reported_by_claimed_check_first_run"] = meta.get("reported_by_claimed_check", False)
        if os.environ.get("ONLY_CHECKS"):
            only_c = os.environ["ONLY_CHECKS"].split(",")
            merged = {k: v for k, v in meta.get("checks_that_report_it", {}).items() if k not in only_c}
            merged.update(fired)
            fired = dict(sorted(merged.items()))
        meta["checks_that_report_it"] = fired
        meta["reported_by_claimed_check"] = meta["property"] in fired
        json.dump(meta, open(mp, "w"), indent=1)
        print(name, sorted(fired), flush=True)
    return meta


with ThreadPoolExecutor(int(os.environ.get("REEVAL_JOBS", "4"))) as ex:
    rows = [m for m in ex.map(evaluate, sorted(os.listdir(V + "/seeded"))) if m]
with open(V + "/seeded/INDEX.md", "w") as fh:
    fh.write("# Changes written by independent sub-agents\n\nEach sub-agent was given only the text of one property and a scratch worktree of /repo; it wrote a change that breaks the "
             "property, compiles and passes the 604 existing tests, plus a demonstration that fails with the change and passes without it. Every entry was "
             "confirmed in a fresh scratch worktree (`tools/seed.py`), then applied to /repo, all quick checks were run with the evidence redirected, "
             "and the patch was undone.\n\n| change | property | needs, to manifest | reported on first run by | reported now by | note |\n|---|---|---|---|---|---|\n")
    for m in rows:
        first = m.get("checks_that_report_it_first_run", m.get("checks_that_report_it", {}))
        now = m.get("checks_that_report_it", {})
        def fmt(d, own):
            if not d:
                return "nothing"
            return ", ".join(("**%s**" % k if k == own else k) + " (" + v[0].split(":")[0] + ")" if v else k for k, v in sorted(d.items()))
        fh.write("| %s | %s | %s | %s | %s | %s |\n" % (m["name"], m["property"], m["needs_to_manifest"].replace("|", "/"), fmt(first, m["property"]), fmt(now, m["property"]), m.get("note", "")))
print("reported by own check:", sum(1 for m in rows if m.get("reported_by_claimed_check")), "of", len(rows))
