"""UTF-8 boundary provenance of `str` slice offsets on the parse path (used by C01, clause "no panic").

Slicing a `str` at a byte offset that is not a character boundary panics.  The parse path slices strings at a handful of places; for each,
the offset expression (resolved through the MIR def-use chains) must be built only from values that are boundaries by construction:

    0 | str::len(s) | the Some(i) of str::find/rfind | the difference of two str::as_ptr values (every &str starts on a boundary)
    | boundary - char::len_utf8(c) | boundary + char::len_utf8(c)
    | find(<ASCII pattern>) + 1                         (one byte past a match of a one-byte pattern)
    | an ASCII counter: a variable that starts at 0 and is only ever incremented by 1 under a test proving that the byte it indexes,
      in the string being sliced, is ASCII (the predicate is folded over all 256 byte values)

Anything else (a literal byte count, an unrelated length, arithmetic on character counts) is reported with the expression.
"""
from .common import *
from engine import fold
from engine.facts import is_local, op_const, const_value, op_place

SLICE_RANGES = ("std::ops::RangeFrom", "std::ops::RangeTo", "std::ops::Range", "std::ops::RangeInclusive", "std::ops::RangeToInclusive")


def _ascii_pattern(e):
    if e[0] == "const" and isinstance(e[1], tuple) and e[1][0] == "char":
        return e[1][1] < 128
    if e[0] == "agg" and e[1] == "array":
        return all(_ascii_pattern(x) for x in e[2])
    if e[0] == "ref":
        return _ascii_pattern(e[1])
    if e[0] == "const" and isinstance(e[1], str):
        return len(e[1]) == 1 and ord(e[1]) < 128
    return False


def _is_find(e):
    return e[0] == "place" and e[1][0] == "call" and e[1][1] in ("str::find", "str::rfind") and e[2] == [("downcast", "Some"), ("field", "0")]


def _same_str(a, b):
    def norm(e):
        for _ in range(6):
            e = cfg.strip_reborrow(e)
            if e[0] == "ref":
                e = e[1]
            elif e[0] == "place" and e[2] and e[2][-1] == "deref":
                e = ("place", e[1], e[2][:-1])
                if not e[2]:
                    e = e[1]
            else:
                break
        return e
    return norm(a) == norm(b)


class Boundary:
    def __init__(self, F, f, recv):
        self.F, self.f, self.recv = F, f, recv
        self.assumed = set()
        self.fo = fold.Folder(F)

    def ok(self, e, depth=0):
        """(bool, reason)"""
        f = self.f
        if depth > 12:
            return False, "expression too deep"
        if e[0] == "const":
            return (e[1] == 0), "the literal offset %r" % (e[1],)
        if e[0] == "call" and e[1] == "str::len":
            return True, "str::len"
        if _is_find(e):
            return True, "find"
        if e[0] == "place" and e[2] == [("field", "0")] and e[1][0] == "bin" and e[1][1] in ("SubWithOverflow", "AddWithOverflow", "Sub", "Add"):
            op, a, b = e[1][1], e[1][2], e[1][3]
            pa = a[0] == "cast" and a[2][0] == "call" and a[2][1] == "str::as_ptr"
            pb = b[0] == "cast" and b[2][0] == "call" and b[2][1] == "str::as_ptr"
            if op.startswith("Sub") and pa and pb:
                return True, "pointer difference of two &str"
            if b[0] == "call" and b[1] == "char::len_utf8":
                r, why = self.ok(a, depth + 1)
                return r, why if not r else "boundary +/- len_utf8"
            if op.startswith("Add") and b == ("const", 1) and _is_find(a) and _ascii_pattern(a[1][2][1]):
                return True, "one past a match of a one-byte pattern"
            if op.startswith("Add") and a[0] == "call" and a[1] == "char::len_utf8":
                return self.ok(b, depth + 1)
            return False, "arithmetic %s on %s and %s" % (op, cfg.expr_str(a)[:60], cfg.expr_str(b)[:60])
        if e[0] == "phi":
            return self.counter(e[1], depth)
        if e[0] == "cast" and e[1] == "usize":
            return self.ok(e[2], depth + 1)
        # the offset char_indices reports for a character of the sliced string
        if e[0] == "place" and [x for x in e[2] if x != "deref"] == [("downcast", "Some"), ("field", "0"), ("field", "0")] and e[1][0] == "call" \
                and e[1][1].endswith("CharIndices as std::iter::Iterator>::next") and self._char_indices_of_recv(e[1][2][0]):
            return True, "an offset reported by char_indices"
        # the number of leading bytes that pass an ASCII-only test: bytes().take_while(P).count()
        if e[0] == "call" and e[1].endswith("Iterator::count") and e[2] and e[2][0][0] == "call" and e[2][0][1].endswith("Iterator::take_while") \
                and self._bytes_of_recv(e[2][0][2][0]) and self._ascii_only(e[2][0][2][1]):
            return True, "the length of a leading run of ASCII bytes"
        # the position of the first byte that passes an ASCII-only test, or the length: bytes().position(P).unwrap_or(len)
        if e[0] == "call" and e[1].endswith("Option::unwrap_or") and len(e[2]) == 2 and e[2][0][0] == "call" and e[2][0][1].endswith("Iterator::position") \
                and self._bytes_of_recv(e[2][0][2][0]) and self._ascii_only(e[2][0][2][1]):
            return self.ok(e[2][1], depth + 1)
        # the position char_indices().find(..) reports, or the length when nothing is found (map_or / map_or_else with a closure that
        # returns the offset component)
        from engine import panics as _panics
        if _panics.FACTS is None:
            _panics.FACTS = self.F
        try:
            if _panics.char_boundary_offset(f, e, self.recv):
                return True, "the offset of a character found by char_indices, or the length"
        except Exception:
            pass
        return False, "offset %s" % cfg.expr_str(e)[:100]

    def _strip(self, e):
        for _ in range(8):
            if e[0] == "ref":
                e = e[1]
            elif e[0] == "place" and all(x == "deref" for x in e[2]):
                e = e[1]
            else:
                break
        return e

    def _expand(self, e):
        """look through a local that holds a copy of a reference (`let s = self.buffer;`)"""
        x = e
        for _ in range(4):
            y = x
            while y[0] == "ref":
                y = y[1]
            if y[0] == "place" and y[1][0] == "local" and all(p == "deref" for p in y[2]):
                x = cfg.expr_local(self.f, y[1][1], 8)
            elif y[0] == "local":
                x = cfg.expr_local(self.f, y[1], 8)
            else:
                break
        return x

    def _char_indices_of_recv(self, e):
        e = self._strip(e)
        if e[0] == "call" and e[1].endswith("IntoIterator>::into_iter"):
            e = self._strip(e[2][0])
        return e[0] == "call" and e[1] == "str::char_indices" and (_same_str(e[2][0], self.recv) or _same_str(self._expand(e[2][0]), self.recv))

    def _bytes_of_recv(self, e):
        e = self._strip(e)
        if e[0] == "call" and e[1].endswith("IntoIterator>::into_iter"):
            e = self._strip(e[2][0])
        if e[0] == "call" and e[1] == "str::bytes":
            return _same_str(e[2][0], self.recv)
        if e[0] == "call" and e[1] in ("[T]::iter", "core::slice::<impl [T]>::iter"):
            b = self._strip(e[2][0])
            return b[0] == "call" and b[1] == "str::as_bytes" and _same_str(b[2][0], self.recv)
        return False

    def _ascii_only(self, clo):
        """the one-argument test (a closure over a byte) accepts ASCII bytes only - folded over all 256 values"""
        if clo[0] != "closure" or clo[1] not in self.F.fns or clo[2]:
            return False
        g = self.F.fns[clo[1]]
        ty = g.locals[2]["ty"] if len(g.locals) > 2 else ""
        if ty.lstrip("&") != "u8":
            return False
        try:
            acc = set()
            for c in range(256):
                v = c
                for _ in range(len(ty) - len(ty.lstrip("&"))):
                    v = ("ref", v)
                if self.fo.call(g.key, [("zst",), v]):
                    acc.add(c)
        except (fold.Unsupported, fold.Diverged):
            return False
        return all(c < 128 for c in acc)

    def counter(self, l, depth):
        f = self.f
        if l in self.assumed:
            return True, "inductive"
        self.assumed.add(l)
        defs = cfg.defs_of_local(f, l)
        for d in defs:
            if d[0] == "call":
                ck = (d[2]["f"].get("fn") or {}).get("key", "")
                if ck == "str::len" and _same_str(self._expand(cfg.expr_operand(f, d[2]["args"][0], 8)), self.recv):
                    continue
            if d[0] != "stmt":
                return False, "variable %s is assigned from a call" % (f.local_name(l) or l)
            bb, st = d[1], d[3]
            rv = st["rv"]
            if rv["k"] != "use":
                return False, "variable %s is assigned %s" % (f.local_name(l) or l, rv["k"])
            e = cfg.expr_operand(f, rv["a"], 6)
            if e == ("const", 0):
                continue
            inc = e[0] == "place" and e[2] == [("field", "0")] and e[1][0] == "bin" and e[1][1] == "AddWithOverflow" and e[1][2] in (("phi", l), ("local", l))
            if inc and e[1][3] == ("const", 1):
                if self.ascii_guard(bb, l):
                    continue
                return False, "variable %s is incremented by one without a test that the byte it indexes is ASCII" % (f.local_name(l) or l)
            if inc and e[1][3][0] == "call" and e[1][3][1] == "char::len_utf8":
                continue
            r, why = self.ok(cfg.expr_operand(f, rv["a"], 12), depth + 1)
            if not r:
                return False, "variable %s: %s" % (f.local_name(l) or l, why)
        return True, "ASCII counter"

    def ascii_guard(self, bb, l):
        """some switch dominating bb tests P(bytes[l] as char) (or a comparison with an ASCII constant) on the sliced string, bb lies on
        the side where the byte is proven ASCII"""
        f = self.f
        for d in f.dominators().get(bb, ()):
            t = f.blocks[d]["term"]
            if t["k"] != "switch" or t["dty"] != "bool" or t["vals"] != [0]:
                continue
            e = cfg.expr_operand(f, t["discr"], 8)
            tt, ft = t["otherwise"], t["targets"][0]
            while e[0] == "un" and e[1] == "Not":
                e = e[2]
                tt, ft = ft, tt
            if e[0] != "call" or e[1] not in self.F.fns or len(e[2]) != 1:
                continue
            a = e[2][0]
            if not (a[0] == "cast" and a[1] == "char"):
                continue
            b = a[2]
            # bytes[l] where bytes = str::as_bytes(<sliced string>)
            if not (b[0] == "place" and b[2] and b[2][-1] in (("index", l), ("index", ("phi", l)), ("index", ("local", l)))):
                idx_ok = False
                if b[0] == "place" and b[2] and isinstance(b[2][-1], tuple) and b[2][-1][0] == "index":
                    il = b[2][-1][1]
                    if isinstance(il, int):
                        o = cfg.expr_local(f, il, 3)
                        idx_ok = o in (("phi", l), ("local", l))
                if not idx_ok:
                    continue
            base = b[1]
            if not (base[0] == "call" and base[1] == "str::as_bytes" and _same_str(base[2][0], self.recv)):
                continue
            try:
                table = {v for v in range(256) if self.fo.call(e[1], [v])}
            except (fold.Unsupported, fold.Diverged):
                continue
            if not table or max(table) >= 128:
                continue
            if cfg.dominated_by_edge(f, bb, d, tt) and tt != ft:
                return True
        # the same with the test written inline (`bytes[i].is_ascii_alphanumeric() || bytes[i] == b'_'`): one round of the loop tabulated
        # over the byte at the cursor (E8); the increment is reached only for ASCII bytes
        try:
            from . import bulkops
            from engine import e7
            loops = [(h, body) for h, body in f.natural_loops() if bb in body]
            if loops:
                head, body = min(loops, key=lambda hb: len(hb[1]))
                rec = bulkops.UnitRec(self.F, f)
                rec.domains = {("unit",): list(range(256))}
                outside = {b for b in range(len(f.blocks)) if b not in body}
                ps = [p for p in e7.paths(f, head, rec, stop_at=outside | {bb}, limit=3000) if p["why"] == "stop" and p["end"] == bb]
                if ps and rec.level == "byte" and all(("unit",) in p["guards"] and p["guards"][("unit",)].pos is not None
                                                     and max(p["guards"][("unit",)].pos, default=0) < 128 for p in ps):
                    return True
        except Exception:
            pass
        return False


def check(rep, F, fns, rule="utf8-boundary"):
    n = 0
    for k in sorted(fns):
        f = F.fns.get(k)
        if f is None:
            continue
        for bb, t, ck, fr in f.calls():
            if ck != "std::ops::Index::index" or not fr or fr["substs"][:1] != ["str"] and fr["substs"][:1] != ["std::string::String"]:
                continue
            rng = fr["substs"][1] if len(fr["substs"]) > 1 else ""
            if not rng.startswith(SLICE_RANGES):
                continue
            n += 1
            recv = cfg.expr_operand(f, t["args"][0], 10)
            e = cfg.expr_operand(f, t["args"][1], 14)
            B = Boundary(F, f, recv)
            bad = []
            if e[0] == "adt" and e[1].startswith("std::ops::Range"):
                for o in e[3]:
                    r, why = B.ok(o)
                    if not r:
                        bad.append(why)
            else:
                bad.append("range value %s" % cfg.expr_str(e)[:80])
            rep.check(not bad, rule, "%s#%s" % (short(k), rng.split("::")[-1].split("<")[0]),
                      "a str is sliced at a byte offset that is not a character boundary by construction (panics on multi-byte characters): " + "; ".join(bad),
                      site=site(f, t["sp"]), detail={"offset": cfg.expr_str(e)[:300]})
    return n
