// C16: all %TAG directives of a document are in force together; a handle may be declared once.
use saphyr_parser::{Event, Parser};
fn tags(src: &str) -> Result<Vec<String>, String> {
    let mut out = vec![];
    for r in Parser::new_from_str(src) {
        match r {
            Ok((Event::Scalar(_, _, _, Some(tag)), _)) => out.push(format!("{}{}", tag.handle, tag.suffix)),
            Ok(_) => {}
            Err(e) => return Err(e.info().to_string()),
        }
    }
    Ok(out)
}
fn main() {
    let mut bad = 0;
    let two = "%TAG !a! tag:a.example,2000:\n%TAG !b! tag:b.example,2000:\n---\n- !a!x 1\n- !b!y 2\n";
    let r = tags(two);
    println!("two directives: {r:?}");
    if r != Ok(vec!["tag:a.example,2000:x".into(), "tag:b.example,2000:y".into()]) { bad += 1; }
    let dup = "%TAG !a! tag:a.example,2000:\n%TAG !a! tag:other.example,2000:\n---\n!a!x 1\n";
    let r = tags(dup);
    println!("duplicate handle: {r:?}");
    if r.is_ok() { bad += 1; }
    let yaml_after = "%TAG !a! tag:a.example,2000:\n%YAML 1.2\n---\n!a!x 1\n";
    let r = tags(yaml_after);
    println!("%YAML after %TAG: {r:?}");
    if r != Ok(vec!["tag:a.example,2000:x".into()]) { bad += 1; }
    if bad > 0 { println!("WRONG ({bad})"); std::process::exit(1) } else { println!("RIGHT") }
}
