"""C14 — line-break style does not change the parse.

Clause decided: CR, LF and CR LF are indistinguishable to the scanner except for pair recognition, and are normalised.
 (a) symmetry: every comparison or switch on a character in the parser crate sends '\\n' and '\\r' to the same outcome; the folded character
     predicates contain both or neither; the only asymmetric sites are the two pair recognisers (skip_linebreak, skip_break) whose shape is
     checked: the asymmetric arm consumes the CR with the non-line-advancing skip and falls through to the one skip_nl;
 (b) skip_nl (the only place a line is counted) is called only from those two helpers;
 (c) look-ahead: skip_break/read_break/skip_linebreak are entered with at least two characters buffered in every context (E1);
 (d) normalisation: every constant break pushed into scalar text is '\\n'; no constant '\\r' is ever pushed.
That no *other* consuming step is ever reached with a break at the cursor, and that non-constant pushes exclude breaks, needs the
character-class domain and is not decided here.
"""
from .common import *
from engine import tables, fold, e1
from engine.facts import is_local, op_const, const_value, op_place
from . import C01

PID = "C14"
S = SCANNER + "::"
LF, CR = 10, 13


def new_report(tier):
    return make_report(PID, tier, "proof", [
        "a character the scanner never compares with, switches on or classifies differently cannot change its control flow",
    ], "inventory of every LF/CR constant in the MIR of the parser crate (comparisons, switch arms, call arguments, pushed constants), constant "
       "folding of the character predicates over the alphabet, shape check of the two CR LF recognisers, E1 entry bounds of the break helpers. "
       "Equality of events/messages/positions between the three variants of an input is behavioural and not decided.")


def _mentions_field(e, name):
    if not isinstance(e, tuple) or not e:
        return False
    if e[0] == "place":
        if any(isinstance(x, tuple) and x[0] == "field" and x[1] == name for x in e[2]):
            return True
        return _mentions_field(e[1], name)
    if e[0] in ("bin",):
        return _mentions_field(e[2], name) or _mentions_field(e[3], name)
    if e[0] in ("un", "cast"):
        return _mentions_field(e[2], name)
    if e[0] == "ref":
        return _mentions_field(e[1], name)
    if e[0] == "call":
        return any(_mentions_field(a, name) for a in e[2])
    return False


def _mentions_index(e):
    return _mentions_field(e, "index")


def brk(c):
    v = const_value(c) if c else None
    if isinstance(v, tuple) and v[0] == "char" and v[1] in (LF, CR):
        return v[1]
    if isinstance(v, int) and not isinstance(v, bool) and v in (LF, CR) and c.get("ty") == "u8":
        return v
    return None


def run(tier):
    rep = new_report(tier)
    F = facts.load()
    fo = fold.Folder(F)
    cmp_sites = {}    # fn -> {LF: n, CR: n}
    arg_sites = {}
    push_consts = []
    n_switch = 0
    # only code that runs while parsing is concerned (a Display impl that spells '\n' and '\r' differently is not a parse)
    from . import C01 as _C01m
    _onpath = _C01m.parse_path_functions(F)

    def _parses(kk):
        root = kk
        while root in F.fns and F.fns[root].kind == "Closure":
            root = F.fns[root].d.get("closure_of")
        return kk in _onpath or root in _onpath
    for k, f in sorted(F.fns.items()):
        if f.crate != "saphyr_parser" or "::test" in k or not _parses(k):
            continue
        for bi, b in enumerate(f.blocks):
            if b["cleanup"]:
                continue
            for s in b["stmts"]:
                if s["k"] == "assign" and s["rv"]["k"] == "bin" and s["rv"]["op"] in ("Eq", "Ne", "Lt", "Le", "Gt", "Ge"):
                    for o in (s["rv"]["a"], s["rv"]["b"]):
                        r = brk(o.get("const"))
                        if r:
                            cmp_sites.setdefault(k, {LF: 0, CR: 0})[r] += 1
            t = b["term"]
            if t["k"] == "call":
                fr = t["f"].get("fn")
                ck = fr["key"] if fr else None
                for a in t["args"]:
                    r = brk(a.get("const"))
                    if r:
                        if ck == "std::string::String::push":
                            push_consts.append((k, r, t["sp"]))
                        else:
                            arg_sites.setdefault((k, ck), {LF: 0, CR: 0})[r] += 1
            if t["k"] == "switch" and t["dty"] in ("char", "u8"):
                m = dict(zip(t["vals"], t["targets"]))
                if LF in m or CR in m:
                    n_switch += 1
                    rep.check(m.get(LF, t["otherwise"]) == m.get(CR, t["otherwise"]), "switch-symmetry", short(k),
                              "a match on a character sends '\\n' and '\\r' to different arms", site=site(f, t["sp"]))
    # comparisons: inside pure predicates -> folded table must contain both or neither; elsewhere only the pair recognisers
    RECOGNISERS = {S + "skip_break"}
    for k, cnt in sorted(cmp_sites.items()):
        f = F.fns[k]
        if f.file.endswith("char_traits.rs"):
            tab = fold.predicate_table(F, k)
            rep.check((LF in tab) == (CR in tab), "predicate-symmetry", short(k), "a character predicate holds for one of '\\n', '\\r' but not the other", site=f.span)
        else:
            rep.check(k in RECOGNISERS, "comparison-symmetry", short(k),
                      "'\\n' or '\\r' is compared individually outside the CR LF recogniser: the two break characters can take different paths", site=f.span,
                      detail={"LF": cnt[LF], "CR": cnt[CR]})
    for (k, ck), cnt in sorted(arg_sites.items()):
        rep.check(k == S + "skip_linebreak" and ck == INPUT + "::next_2_are" and cnt == {LF: 1, CR: 1}, "comparison-symmetry", "%s->%s" % (short(k), short(ck or "?")),
                  "a break character is passed as a constant to a test outside skip_linebreak's CR LF recogniser", site=F.fns[k].span, detail=cnt)
    # every predicate of char_traits: both or neither (also those built from others)
    npred = 0
    for k, f in sorted(F.fns.items()):
        if f.file.endswith("parser/src/char_traits.rs") and f.d.get("output") == "bool":
            npred += 1
            try:
                tab = fold.predicate_table(F, k)
            except fold.Unsupported as ex:
                rep.incomplete("cannot fold %s: %s" % (k, ex), f.span)
                continue
            rep.check((LF in tab) == (CR in tab), "predicate-symmetry", short(k), "a character predicate distinguishes '\\n' from '\\r'", site=f.span)
    rep.floor("character predicates folded", npred, 12)
    rep.floor("matches on a character that mention a break", n_switch, 1)
    # shape of the two recognisers
    sb = F.fn(S + "skip_break")
    calls = [ck for _, _, ck, _ in sb.calls() if ck and ck.startswith(S)]
    nl = [bb for bb, t, ck, fr in sb.calls() if ck == S + "skip_nl"]
    blank = [bb for bb, t, ck, fr in sb.calls() if ck == S + "skip_blank"]
    oks = len(nl) == 1 and len(blank) == 1 and sorted(set(calls)) == [S + "skip_blank", S + "skip_nl"]
    if oks:
        # every return passes skip_nl; skip_blank only precedes it
        esc = cfg.flag_reach(sb, 0, cfg.return_blocks(sb), avoid=set(nl))
        oks = esc is None and nl[0] in cfg.blocks_reachable_from(sb, blank) and blank[0] not in cfg.blocks_reachable_from(sb, nl)
        # the pair test compares the first character with CR and the second with LF
        e = [cfg.expr_str(cfg.expr_operand(sb, b["term"]["discr"], 6)) for b in sb.blocks if not b["cleanup"] and b["term"]["k"] == "switch"]
        oks = oks and any("('char', 13)" in x and "peek(" in x for x in e) and any("('char', 10)" in x and "peek_nth(" in x for x in e)
    rep.check(oks, "pair-recogniser-shape", "skip_break", "skip_break is no longer: if CR LF consume the CR without counting a line, then one skip_nl on every path", site=sb.span)
    sl = F.fn(S + "skip_linebreak")
    nl = [bb for bb, t, ck, fr in sl.calls() if ck == S + "skip_nl"]
    blank = [bb for bb, t, ck, fr in sl.calls() if ck == S + "skip_blank"]
    n2 = [(bb, t) for bb, t, ck, fr in sl.calls() if ck == INPUT + "::next_2_are"]
    okl = len(nl) == 2 and len(blank) == 1 and len(n2) == 1
    if okl:
        a = [const_value(op_const(x) or {}) for x in n2[0][1]["args"][1:]]
        okl = a == [("char", CR), ("char", LF)]
        # on the pair edge: skip_blank then skip_nl; on the single-break edge: skip_nl only; otherwise nothing is consumed
        nxt = sl.blocks[n2[0][0]]["term"]["t"]
        m, other = cfg.switch_edge_blocks(sl, nxt) if sl.blocks[nxt]["term"]["k"] == "switch" else ({}, None)
        if other is not None and 0 in m:
            r_pair = cfg.blocks_reachable_from(sl, [other], avoid=[m[0]])
            okl = okl and blank[0] in r_pair and any(x in r_pair for x in nl)
            r_else = cfg.blocks_reachable_from(sl, [m[0]])
            okl = okl and blank[0] not in r_else and any(x in r_else for x in nl)
            nib = [bb for bb, t, ck, fr in sl.calls() if ck == INPUT + "::next_is_break" and bb in r_else]
            okl = okl and len(nib) == 1
        else:
            okl = False
    rep.check(okl, "pair-recogniser-shape", "skip_linebreak", "skip_linebreak is no longer: CR LF -> skip the CR then skip_nl; a lone break -> skip_nl; else nothing", site=sl.span)
    # (b) skip_nl callers
    callers = sorted({cf.key for cf, _, _ in F.callers_of(S + "skip_nl")})
    rep.check(callers == sorted([S + "skip_break", S + "skip_linebreak"]), "line-counted-once", "skip_nl", "skip_nl is called from outside the two break helpers",
              detail=[short(c) for c in callers])
    # (c) look-ahead at entry of the break helpers
    for B in (8, 16) if tier == "quick" else (8, 9, 16, 17, 128):
        E = C01.run_e1(F, B)
        for fk in (S + "skip_break", S + "read_break", S + "skip_linebreak"):
            ctxs = [(lb, ub) for (k2, lb, ub, args, fl) in E.memo if k2 == fk]
            rep.check(bool(ctxs) and all(lb >= 2 for lb, ub in ctxs), "break-lookahead", "%s@B=%d" % (short(fk), B),
                      "a break helper is entered with fewer than two characters buffered in some context: a CR LF pair cannot be recognised (and the buffered input panics)",
                      site=F.fns[fk].span, detail={"contexts": len(ctxs), "min_lb": min([lb for lb, ub in ctxs] or [0])})
    # (e) character indices may not steer control flow across line breaks: an ordering comparison of Marker.index values is only
    # allowed where both marks are known to be on the same line (there index distance = column distance, which CR LF does not change);
    # equality with a recorded index is independent of the break style.
    n_idx = 0
    # only code that runs while scanning / parsing can let the break style steer the parse: the scanner's and parser's own functions and what
    # they call (a public utility such as a span accessor that nothing on the parse path calls is outside the property)
    from . import C01 as _C01
    onpath = _C01.parse_path_functions(F)
    for k, f in sorted(F.fns.items()):
        if f.crate != "saphyr_parser" or "::test" in k or f.d.get("derived") or k not in onpath:
            continue
        for bi, b in enumerate(f.blocks):
            if b["cleanup"] or b["term"]["k"] != "switch":
                continue
            e = cfg.expr_operand(f, b["term"]["discr"], 8)
            while e[0] == "un" and e[1] == "Not":
                e = e[2]
            if e[0] != "bin" or e[1] not in ("Lt", "Le", "Gt", "Ge"):
                continue
            if not (_mentions_index(e[2]) or _mentions_index(e[3])):
                continue
            n_idx += 1
            same_line = False
            for b2 in f.dominators().get(bi, ()):
                t2 = f.blocks[b2]["term"]
                if b2 == bi or t2["k"] != "switch":
                    continue
                e2 = cfg.expr_operand(f, t2["discr"], 8)
                if e2[0] == "bin" and e2[1] in ("Lt", "Gt", "Ne", "Eq") and _mentions_field(e2[2], "line") and _mentions_field(e2[3], "line"):
                    m, other = cfg.switch_edge_blocks(f, b2)
                    tg = other if e2[1] == "Eq" else m.get(0)
                    if tg is not None and cfg.dominated_by_edge(f, bi, b2, tg):
                        same_line = True
            rep.check(same_line, "index-ordering-same-line", short(k),
                      "an ordering comparison of character indices is evaluated without a guard that both positions are on the same line: the number of "
                      "characters a line break occupies (1 for LF/CR, 2 for CR LF) now changes control flow", site=site(f, b["term"]["sp"]), detail=cfg.expr_str(e))
    rep.extra["index_ordering_comparisons"] = n_idx
    # (b, d class part) no consuming step other than the break helpers is reached with a break at the cursor, and no cursor character that
    # may be a break is pushed into text: E1 pass B
    from . import classdom
    for B in ((16,) if tier == "quick" else (8, 16, 128)):
        EB = classdom.run(F, B)
        classdom.contract_sites(rep, F, EB, B)
        classdom.break_discipline(rep, F, EB, B, "break-discipline")
        n = classdom.cursor_pushes(rep, F, EB, B, "no-break-pushed", EB.BRK, "line breaks must reach scalar text only as the constant '\\n'")
        rep.extra.setdefault("class_pass", {})[str(B)] = {"contexts": EB.contexts, "cursor_push_sites": n}
    # (d) normalisation
    rep.floor("constant break pushes into scalar text", len(push_consts), 3)
    for k, r, sp in push_consts:
        rep.check(r == LF, "normalised-push", short(k), "a constant '\\r' is pushed into scalar text (breaks must be reported as line feeds)", site=site(F.fns[k], sp))
    return rep
