"""C02 — events always form a well-nested YAML event sentence.

Clause decided, for arbitrary token sequences (independently of the scanner): every non-Err outcome of every handler of
Parser::state_machine fits the *role* of the state it serves (tables/c02_roles.json), from which the event grammar follows by
induction on the length of the run and pop_state() never meets an empty stack.  Plus: dispatch totality, single writers of the
state stack, anchor-id discipline, no reachable unreachable!() in a handler.

Paper step (trusted, one paragraph per role -- see DESIGN.md §4 C02):
  Node<K>  a run started in a Node state with K on top of the stack emits exactly one node and ends in state K with the stack as
           found: either (pop ; Scalar|Alias) -- one event, state := K -- or (state := a collection-first state ; *Start) followed by a
           SeqBody/MapKey run that, by its own role, ends with (pop ; *End).
  SeqBody  each step either ends the collection (pop ; SequenceEnd), emits a scalar item and stays, or pushes itself and runs a Node
           (which returns here by popping); so the body is Node* SequenceEnd.
  MapKey/MapValue alternate: MapKey either ends (pop ; MappingEnd) or produces exactly one node and moves to MapValue, which
           produces exactly one node and moves back: an even number of nodes, then MappingEnd.
  Inline   the single-pair mapping of a flow sequence: MappingStart, key node, value node, MappingEnd, back to the sequence.
  Doc      DocStart pushes DocumentEnd and enters a Node state; the Node run pops it; DocEnd returns to a DocStart state.
"""
import json
from .common import *
from engine import e5, tables
from engine.facts import is_local, op_const, const_value, op_place

PID = "C02"
P = PARSER + "::"


def new_report(tier):
    return make_report(PID, tier, "proof", [
        "paper step: the role typing of tables/c02_roles.json implies the event grammar by induction on the run (module docstring of rules/C02.py)",
        "Rust's borrow rules: a live &Token returned by peek_token() is the token later returned by fetch_token() (skip/fetch need &mut self)",
    ], "E5 disjunctive outcome extraction over the MIR of each handler instance (constant arguments bound, token-kind constraints from "
       "discriminant switches, push/pop/state writes, returned event or tail call), matched against the role table; dispatch extraction from "
       "state_machine; E6 writer inventories; def-use rules for anchor ids. Decides well-nestedness for all token sequences, not that the "
       "sentence is the right one for a text (C03).")


def load_roles():
    with open(os.path.join(facts.VERIF, "tables", "c02_roles.json")) as fh:
        return json.load(fh)


def dispatch_table(F):
    """State variant -> (handler key, const args) from the MIR of state_machine"""
    sm = F.fn(P + "state_machine")
    st = F.adt("saphyr_parser::parser::State")
    names = {v["discr"]: v["name"] for v in st["variants"]}
    out = {}
    sw = [(bb, p, adt) for bb, p, adt in tables.discr_switches(sm) if adt == "saphyr_parser::parser::State"]
    if len(sw) != 1:
        raise facts.MissingAnchor("state_machine: expected exactly one match on self.state")
    bb, p, adt = sw[0]
    if cfg.place_fields(p) != ["state"]:
        raise facts.MissingAnchor("state_machine does not dispatch on self.state")
    m, other = cfg.switch_edge_blocks(sm, bb)
    for v, nm in names.items():
        tg = m.get(v, other)
        # follow gotos/statements to the first call
        b = tg
        hops = 0
        found = None
        while hops < 6:
            t = sm.blocks[b]["term"]
            if t["k"] == "call":
                fr = t["f"].get("fn")
                if t["t"] is None:
                    found = ("unreachable", ())
                elif fr and fr["key"].startswith(P):
                    args = []
                    for a in t["args"][1:]:
                        c = const_value(op_const(a) or {})
                        args.append(int(c) if isinstance(c, (bool, int)) else None)
                    found = (fr["key"], tuple(args))
                break
            if t["k"] == "goto":
                b = t["t"]
                hops += 1
                continue
            break
        out[nm] = found
    return out, sm


def _const_state(f, op):
    """variant name of a `State` constant passed by reference (possibly promoted)"""
    l = is_local(op)
    for _ in range(4):
        if l is None:
            return None
        ds = cfg.defs_of_local(f, l)
        if len(ds) != 1 or ds[0][0] != "stmt":
            return None
        rv = ds[0][3]["rv"]
        if rv["k"] == "agg" and rv.get("adt", "").endswith("parser::State"):
            return rv["variant"]
        if rv["k"] == "use":
            c = op_const(rv["a"])
            if c is not None and c.get("promoted") is not None:
                for b in f.d["promoted"][c["promoted"]]["blocks"]:
                    for s in b["stmts"]:
                        if s["k"] == "assign" and s["rv"]["k"] == "agg" and s["rv"].get("adt", "").endswith("parser::State"):
                            return s["rv"]["variant"]
                return None
            l = is_local(rv["a"])
        elif rv["k"] in ("ref", "copyforderef"):
            p = rv["p"]
            l = p["l"] if all(x["k"] == "deref" for x in p["p"]) else None
        else:
            return None
    return None


def end_answered_before_dispatch(F):
    """parse() tests `state == End` and the call of state_machine lies on the 'not End' edge (so the unreachable!() of the End arm is)"""
    P_ = PARSER + "::"
    sm = F.fn(P_ + "state_machine")
    pf = F.fn(P_ + "parse")
    okend = False
    smc = [bb for bb, t, ck, fr in pf.calls() if ck == sm.key]
    for bi, b in enumerate(pf.blocks):
        t = b["term"]
        if b["cleanup"] or t["k"] != "switch" or t["dty"] != "bool" or t["vals"] != [0]:
            continue
        e = cfg.expr_operand(pf, t["discr"], 8)
        is_end_edge, not_end_edge = t["otherwise"], t["targets"][0]
        while e[0] == "un" and e[1] == "Not":
            e = e[2]
            is_end_edge, not_end_edge = not_end_edge, is_end_edge
        if not (e[0] == "call" and e[1] and ("PartialEq" in e[1]) and e[1].endswith(("::eq", "::ne")) and cfg.expr_fields(cfg.strip_reborrow(e[2][0])[1] if cfg.strip_reborrow(e[2][0])[0] == "ref" else ("x",)) == ["state"]):
            continue
        # the constant compared with must be State::End
        call_t = pf.blocks[e[3]]["term"]
        v = _const_state(pf, call_t["args"][1])
        if v != "End":
            continue
        if e[1].endswith("::ne"):
            is_end_edge, not_end_edge = not_end_edge, is_end_edge
        if smc and cfg.dominated_by_edge(pf, smc[0], bi, not_end_edge) and is_end_edge != not_end_edge:
            okend = True
    return okend, pf


def run(tier):
    rep = new_report(tier)
    F = facts.load()
    roles = load_roles()
    E = e5.E5(F)
    disp, sm = dispatch_table(F)
    state_names = [v["name"] for v in F.adt("saphyr_parser::parser::State")["variants"]]

    # R2 dispatch totality
    for nm in state_names:
        ent = roles["states"].get(nm)
        d = disp.get(nm)
        if ent is None:
            rep.bad("dispatch", nm, "state %s has no role in tables/c02_roles.json: classify it before it ships" % nm, site=sm.span)
            continue
        if ent["role"] == "End":
            rep.check(d is not None and d[0] == "unreachable", "dispatch", nm, "State::End must not be dispatched (parse() answers it)", site=sm.span, detail=str(d))
            continue
        # the handler and its constant arguments are taken from the dispatch itself (a renamed or re-wired handler is judged by
        # its outcomes against the role, not by its name)
        rep.check(d is not None and d[0] != "unreachable" and d[0] in F.fns, "dispatch", nm,
                  "state %s is not dispatched to a handler" % nm, site=sm.span, detail=str(d))
    for nm in roles["states"]:
        rep.check(nm in state_names, "dispatch", "table:" + nm, "the role table names a state that no longer exists")
    # parse(): End answered before dispatch
    okend, pf = end_answered_before_dispatch(F)
    rep.check(okend, "dispatch", "parse:End", "parse() no longer returns StreamEnd before dispatching when state == End", site=pf.span)

    # R1 role typing
    SEQ_FIRST = set(roles["seq_first_states"])
    MAP_FIRST = set(roles["map_first_states"])
    node_instances = set()
    n_inst = 0
    n_out = 0

    def handler_outcomes(key, args):
        outs = E.outcomes(key, args)
        res = []
        for o in outs:
            if o["kind"] == "panic":
                res.append(o)
                continue
            r = e5.describe_result(o["result"])
            if r == ("err",):
                continue
            o = dict(o)
            o["res"] = r
            res.append(o)
        return res

    def expand(outs, depth=0):
        """substitute tail calls to non-Node handlers (explicit_document_start) by their outcomes"""
        res = []
        for o in outs:
            if o["kind"] == "panic":
                res.append(o)
                continue
            r = o["res"]
            if r[0] == "tail" and r[1] not in (P + "parse_node",) and depth < 3:
                for o2 in expand(handler_outcomes(r[1], r[2]), depth + 1):
                    if o2["kind"] == "panic":
                        res.append(o2)
                        continue
                    o3 = dict(o2)
                    o3["ops"] = o["ops"] + o2["ops"]
                    o3["written"] = o2["written"] if o2["written"] is not None else o["written"]
                    o3["first"] = o["first"]
                    res.append(o3)
            else:
                res.append(o)
        return res

    def shape(o):
        r = o["res"]
        ops = tuple(o["ops"])
        if r[0] == "tail":
            node_instances.add((r[1], r[2]))
            return (ops, None, "Node")          # the state written before a Node tail call is overwritten by the node's outcome
        if r[0] == "event":
            return (ops, o["written"], r[1])
        return (ops, o["written"], "?" + str(r))

    def permitted(role, ent):
        fam = ent.get("family", {})
        if role == "Stream":
            return {((), "ImplicitDocumentStart", "StreamStart")}
        if role == "DocStart":
            return {((), "End", "StreamEnd"), ((("push", "DocumentEnd"),), "BlockNode", "DocumentStart"), ((("push", "DocumentEnd"),), "DocumentContent", "DocumentStart")}
        if role == "Node":
            s = {((("pop",),), None, "Scalar"), ((("pop",),), None, "Alias")}
            s |= {((), x, "SequenceStart") for x in SEQ_FIRST}
            s |= {((), x, "MappingStart") for x in MAP_FIRST}
            s |= {((), None, "Node")}        # document_content -> parse_node
            return s
        if role == "SeqBody":
            me = fam["entry"]
            s = {((("pop",),), None, "SequenceEnd"), ((), me, "Scalar"), ((("push", me),), None, "Node")}
            if fam.get("inline_map"):
                s.add(((), fam["inline_map"], "MappingStart"))
            return s
        if role == "MapKey":
            s = {((("pop",),), None, "MappingEnd")}
            for v in fam["values"]:
                s.add(((("push", v),), None, "Node"))
            s.add(((), fam["values"][0], "Scalar"))
            return s
        if role == "MapValue":
            return {((), fam["key"], "Scalar"), ((("push", fam["key"]),), None, "Node")}
        if role == "InlineMapKey":
            return {((), "FlowSequenceEntryMappingValue", "Scalar"), ((("push", "FlowSequenceEntryMappingValue"),), None, "Node")}
        if role == "InlineMapValue":
            return {((), "FlowSequenceEntryMappingEnd", "Scalar"), ((("push", "FlowSequenceEntryMappingEnd"),), None, "Node")}
        if role == "InlineMapEnd":
            return {((), "FlowSequenceEntry", "MappingEnd")}
        if role == "DocEnd":
            return {((), "ImplicitDocumentStart", "DocumentEnd"), ((), "DocumentStart", "DocumentEnd")}
        return set()

    accept = {}
    for nm in state_names:
        ent = roles["states"].get(nm)
        if ent is None or ent["role"] == "End":
            continue
        d = disp.get(nm)
        if d is None or d[0] not in F.fns:
            continue
        key, args = d
        n_inst += 1
        outs = expand(handler_outcomes(key, args))
        perm = permitted(ent["role"], ent)
        shapes = set()
        for o in outs:
            if o["kind"] == "panic":
                f = F.fns[o["fn"]]
                rep.bad("reachable-panic", "%s[%s]" % (short(o["fn"]), nm), "a handler path reaches %s with a satisfiable token constraint" % o["callee"],
                        site=site(f, o["sp"]), detail={"trace": o["trace"]})
                continue
            n_out += 1
            sh = shape(o)
            shapes.add(sh)
            rep.check(sh in perm, "role-typing", "%s:%s" % (nm, _shape_str(sh)),
                      "state %s (role %s) has an outcome outside its role: %s -- the event sentence can become ill-nested or the state stack unbalanced" % (
                          nm, ent["role"], _shape_str(sh)), site=F.fns[key].span, detail={"permitted": sorted(_shape_str(x) for x in perm), "trace": o["trace"][:40]})
            if o.get("first") is not None:
                accept.setdefault(nm, set()).update(E.tok_names[x] for x in o["first"])
        rep.extra.setdefault("outcomes", {})[nm] = sorted(_shape_str(s) for s in shapes)
    # Node instances reached by tail calls
    for (key, args) in sorted(node_instances):
        n_inst += 1
        outs = handler_outcomes(key, args)
        perm = permitted("Node", {})
        for o in outs:
            if o["kind"] == "panic":
                f = F.fns[o["fn"]]
                rep.bad("reachable-panic", "%s%s" % (short(o["fn"]), args), "a handler path reaches %s with a satisfiable token constraint" % o["callee"],
                        site=site(f, o["sp"]), detail={"trace": o["trace"]})
                continue
            n_out += 1
            sh = shape(o)
            rep.check(sh in perm and sh[2] != "Node", "role-typing", "Node%s:%s" % (args, _shape_str(sh)),
                      "parse_node%s has an outcome outside the Node role: %s" % (args, _shape_str(sh)), site=F.fns[key].span,
                      detail={"permitted": sorted(_shape_str(x) for x in perm), "trace": o["trace"][:40]})
            if o.get("first") is not None:
                accept.setdefault("parse_node%s" % (args,), set()).update(E.tok_names[x] for x in o["first"])
    rep.extra["accept_sets"] = {k: sorted(v) for k, v in sorted(accept.items())}
    rep.floor("handler instances analysed", n_inst, 20)
    rep.floor("non-error handler outcomes", n_out, 120)
    for pb in E.problems:
        rep.incomplete(pb)

    # R3 single writers of the stack and of the state
    writers = {"states": set(), "state": set()}
    for k, f in F.fns.items():
        if f.crate != "saphyr_parser":
            continue
        for fld in writers:
            if cfg.field_writes(f, PARSER, fld):
                writers[fld].add(k)
    handler_keys = set(E.handlers)
    rep.check(writers["states"] <= {P + "push_state", P + "pop_state", P + "new"}, "single-writer", "Parser.states",
              "the state stack is written outside push_state/pop_state", detail=sorted(short(x) for x in writers["states"]))
    rep.check(writers["state"] <= handler_keys | {P + "pop_state", P + "new"}, "single-writer", "Parser.state",
              "the current state is written outside the handlers and pop_state", detail=sorted(short(x) for x in writers["state"] - handler_keys))
    # pop_state: state := states.pop().unwrap() ; push_state: states.push(arg)
    ps = F.fn(P + "pop_state")
    e = None
    for bi, si, s in cfg.stmts(ps):
        if s["k"] == "assign" and cfg.place_fields(s["lhs"]) == ["state"]:
            e = cfg.expr_operand(ps, s["rv"]["a"], 10)
    rep.check(e is not None and "Vec::pop" in cfg.expr_str(e) and "states" in cfg.expr_str(e), "stack-ops", "pop_state",
              "pop_state no longer makes the popped state current", site=ps.span, detail=cfg.expr_str(e) if e else None)
    pu = F.fn(P + "push_state")
    okp = False
    for bb, t, ck, fr in pu.calls():
        if ck == "std::vec::Vec::push":
            recv = cfg.strip_reborrow(cfg.expr_operand(pu, t["args"][0]))
            okp = recv[0] == "ref" and cfg.expr_fields(recv[1]) == ["states"] and cfg.expr_operand(pu, t["args"][1]) == ("param", 2)
    rep.check(okp, "stack-ops", "push_state", "push_state no longer pushes its argument onto the state stack", site=pu.span)

    # R4 anchors
    new = F.fn(P + "new")
    init = None
    for bi, si, s in cfg.stmts(new):
        if s["k"] == "assign" and s["rv"]["k"] == "agg" and s["rv"].get("adt") == PARSER:
            idx = s["rv"]["fields"].index("anchor_id_count")
            init = cfg.expr_operand(new, s["rv"]["ops"][idx])
    rep.check(init == ("const", 1), "anchor-ids", "initial-counter", "anchor_id_count does not start at 1 (ids must be positive; 0 means 'no anchor')",
              site=new.span, detail=str(init))
    # builders that take the parser by value (configuration before parsing starts, like keep_tags) are not writers in this sense
    cw = sorted(k for k, f in F.fns.items() if f.crate == "saphyr_parser" and cfg.field_writes(f, PARSER, "anchor_id_count")
                and not (f.arg_count >= 1 and not f.locals[1]["ty"].startswith("&") and "Parser" in f.locals[1]["ty"]))
    rep.check(cw == [P + "register_anchor"], "anchor-ids", "counter-writers", "anchor_id_count is written outside register_anchor (ids could repeat)",
              detail=[short(x) for x in cw])
    ra = F.fn(P + "register_anchor")
    incs = [w for w in cfg.field_writes(ra, PARSER, "anchor_id_count") if w["kind"] == "assign"]
    oki = len(incs) == 1
    if oki:
        e = cfg.expr_operand(ra, incs[0]["stmt"]["rv"]["a"], 6)
        oki = e[0] == "place" and e[2] == [("field", "0")] and e[1][0] == "bin" and e[1][1] == "AddWithOverflow" and e[1][3] == ("const", 1) \
            and cfg.expr_fields(e[1][2]) == ["anchor_id_count"]
    rep.check(oki and not ra.natural_loops(), "anchor-ids", "strictly-increasing", "register_anchor no longer advances the counter by exactly one per anchor", site=ra.span)
    ret = cfg.expr_local(ra, 0, 6)
    ins = [(bb, t) for bb, t, ck, fr in ra.calls() if ck and ck.endswith("HashMap::insert")]
    okr = cfg.expr_fields(ret) == ["anchor_id_count"] and len(ins) == 1
    if okr:
        v = cfg.expr_operand(ra, ins[0][1]["args"][2], 6)
        okr = cfg.expr_fields(v) == ["anchor_id_count"]
        # both read before the increment
        inc_bb = incs[0]["bb"] if incs else None
    rep.check(okr, "anchor-ids", "fresh-id-registered", "register_anchor does not return and register the pre-increment counter value", site=ra.span,
              detail=cfg.expr_str(ret))
    aw = sorted(k for k, f in F.fns.items() if f.crate == "saphyr_parser" and any(
        w["kind"] == "borrow_mut" and w.get("use") and (w["use"]["callee"] or "").endswith("::insert") for w in cfg.field_writes(f, PARSER, "anchors")))
    rep.check(aw == [P + "register_anchor"], "anchor-ids", "table-writers", "anchors are inserted outside register_anchor", detail=[short(x) for x in aw])
    # alias payloads come from the anchor table; other anchor ids from register_anchor or the literal 0
    n_ev = 0
    for k, f in sorted(F.fns.items()):
        if f.crate != "saphyr_parser" or f.file != "parser/src/parser.rs" or "::test" in k or f.d.get("derived"):
            continue
        for bi, si, s in cfg.stmts(f):
            if s["k"] != "assign" or s["rv"]["k"] != "agg" or not s["rv"].get("adt", "").endswith("parser::Event"):
                continue
            var = s["rv"]["variant"]
            idx = {"Alias": 0, "Scalar": 2, "SequenceStart": 0, "MappingStart": 0}.get(var)
            if idx is None:
                continue
            n_ev += 1
            e = cfg.expr_operand(f, s["rv"]["ops"][idx], 12)
            if var == "Alias":
                okk = "HashMap::get" in cfg.expr_str(e) and "anchors" in cfg.expr_str(e)
                rep.check(okk, "alias-payload", short(k), "an Alias event's id does not come out of the anchor table (it could name an id that was never handed out)",
                          site=site(f, s["sp"]), detail=cfg.expr_str(e))
            else:
                leaves = _id_leaves(f, s["rv"]["ops"][idx])
                bad = [l for l in leaves if not (l == ("const", 0) or (l[0] == "call" and l[1] == P + "register_anchor") or l[0] == "param")]
                rep.check(not bad, "anchor-payload", "%s:%s" % (short(k), var), "an anchor id in an event comes from neither register_anchor nor the literal 0",
                          site=site(f, s["sp"]), detail=[str(b)[:80] for b in bad])
    rep.floor("events carrying anchor ids", n_ev, 6)
    # the push interface delivers a whole sentence too: a call of load that returns Ok has handed over a document or StreamEnd
    from . import C17 as _C17
    _C17.load_delivers(rep, F, rule="push-sentence-complete")
    # "A parse that reports no error delivers a whole sentence with nothing after StreamEnd": the state machine produces StreamEnd once
    # (role typing, above); that the drivers hand it out once rests on the fuse - every driver goes through next_event_impl, which drains
    # the peek slot first, the fuse is tested before producing and set exactly on StreamEnd.  Those are C17's rules; they are run here as
    # a premise.
    if os.environ.get("VERIF_C02_NO_PREMISE") != "1":
        from . import C17 as _C17
        sub = _C17.run("quick")
        prem = [v for v in sub.violations if v["rule"] in ("single-source", "drain-before-parse", "fuse-tested", "fuse-set", "driver-purity")]
        rep.check(not prem, "stream-end-fuse-premise", "next_event/peek", "the drivers no longer provably hand StreamEnd out once (%s): after StreamEnd a further "
                  "call can deliver another event" % "; ".join(sorted({"%s %s" % (v["rule"], v["key"].split(":", 1)[-1][:50]) for v in prem})[:3]),
                  site=F.fn(PARSER + "::next_event").span, detail={"violations_of_C17": len(prem)})
    return rep


def _id_leaves(f, op, depth=14, seen=None):
    """where an anchor id comes from: constants, parameters, calls - followed through copies, tuples, Ok/Some/Continue wrappers and the
    `?` operator (an id may be returned by a helper inside a Result<(usize, ..), _>)"""
    seen = seen if seen is not None else set()
    c = op_const(op)
    if c is not None:
        return [("const", const_value(c))]
    p = op_place(op)
    if p is None:
        return [("place",)]
    return _id_leaves_place(f, p["l"], list(p["p"]), depth, seen)


def _id_leaves_local(f, l, depth, seen):
    return _id_leaves_place(f, l, [], depth, seen)


def _id_leaves_place(f, l, proj, depth, seen):
    key = (l, tuple((e.get("k"), e.get("i"), e.get("v")) for e in proj))
    if key in seen or depth <= 0:
        return []
    seen.add(key)
    ds = cfg.defs_of_local(f, l)
    if not ds:
        return [("param", l)] if 1 <= l <= f.arg_count and not proj else ([("param-part", l)] if 1 <= l <= f.arg_count else [("undef", l)])
    out = []
    for d in ds:
        if d[0] == "call":
            t = d[2]
            fr = t["f"].get("fn")
            ck = (fr.get("resolved") or fr["key"]) if fr else None
            if ck and ck.endswith("Try>::branch") and len(proj) >= 2 and proj[0].get("k") == "downcast" and proj[0].get("v") == "Continue" and proj[1].get("k") == "field":
                a = op_place(t["args"][0])
                if a is not None:
                    out += _id_leaves_place(f, a["l"], list(a["p"]) + [{"k": "downcast", "v": "Ok"}, {"k": "field", "i": 0}] + proj[2:], depth - 1, seen)
                    continue
            if ck and ck.endswith("::from_residual") and proj and proj[0].get("k") == "downcast" and proj[0].get("v") in ("Ok", "Some", "Continue"):
                continue              # an error being propagated: it has no Ok payload
            out.append(("call", ck) if not proj else ("call-part", ck))
            continue
        rv = d[3]["rv"]
        if rv["k"] == "use":
            c = op_const(rv["a"])
            if c is not None:
                out.append(("const", const_value(c)))
                continue
            q = op_place(rv["a"])
            if q is None:
                out.append(("place",))
            else:
                out += _id_leaves_place(f, q["l"], list(q["p"]) + proj, depth - 1, seen)
        elif rv["k"] == "agg" and proj:
            pr = proj
            if pr[0].get("k") == "downcast":
                if rv.get("variant") != pr[0].get("v"):
                    continue          # another variant was stored on this path
                pr = pr[1:]
            if pr and pr[0].get("k") == "field" and pr[0].get("i") is not None and pr[0]["i"] < len(rv["ops"]):
                out += _id_leaves(f, rv["ops"][pr[0]["i"]], depth - 1, seen) if not pr[1:] else \
                    (_id_leaves_place(f, op_place(rv["ops"][pr[0]["i"]])["l"], list(op_place(rv["ops"][pr[0]["i"]])["p"]) + pr[1:], depth - 1, seen)
                     if op_place(rv["ops"][pr[0]["i"]]) is not None else [("rv", "agg")])
            else:
                out.append(("rv", "agg"))
        else:
            out.append(("rv", rv["k"]))
    return out


def _shape_str(sh):
    ops, st, ev = sh
    o = " ".join("push %s" % x[1] if x[0] == "push" else "pop" for x in ops) or "-"
    return "(%s ; %s ; %s)" % (o, st or "-", ev)
