"""Fact normalisation: undo "extract a private helper" refactorings before the rules look at the program.

Rules are anchored in the functions the properties name.  Moving a few statements of such a function into a new private helper does not
change behaviour, but it would move the shapes the rules look for (an accumulator, a guard and its error, a token fetch) out of the
anchored function.  Every function of the two crates that is NOT in tables/known_functions.json (the function inventory of the
reference tree), is not an impl's trait method (a provided trait method that no impl overrides is fine) and is not recursive is
therefore spliced back into each of its callers (MIR-level inlining on the fact model: parameters become assignments, `return` becomes an assignment of the destination and a
jump to the call's continuation).  The helper itself stays in the fact base but is no longer called, so inventories attribute its
constructs to the callers.  Functions that existed in the reference tree are never inlined: they are what rules and tables name.
"""
import copy
import json
import os

VERIF = os.path.dirname(os.path.dirname(os.path.abspath(__file__)))
MAX_BLOCKS = 400


_REF = None


def reference():
    global _REF
    if _REF is None:
        p = os.path.join(VERIF, "tables", "known_functions.json")
        if not os.path.exists(p):
            return None
        with open(p) as fh:
            _REF = json.load(fh)
    return _REF


def known_functions():
    r = reference()
    return set(r["functions"]) if r else None


def _walk(x, fn):
    if isinstance(x, dict):
        fn(x)
        for v in x.values():
            _walk(v, fn)
    elif isinstance(x, list):
        for v in x:
            _walk(v, fn)


def undo_renames(F, Fn):
    """Map renamed private functions and private fields back to their names in the reference inventory.
    A function of the reference that is missing is matched with a function that is new, private, has the same owner type, kind and
    signature and (when there are several) the most similar callee set; a field is matched by position and type when its type has the
    same number of fields with the same types.  Returns (function renames {new: old}, field renames {(adt, index): (new, old)})."""
    ref = reference()
    if ref is None or "fingerprints" not in ref:
        return {}, {}
    fp = ref["fingerprints"]
    present = {k for k, f in F.fns.items() if f.crate in ("saphyr_parser", "saphyr")}
    missing = [k for k in fp if k not in present and not fp[k]["pub"] and not fp[k]["trait"] and fp[k]["kind"] in ("Fn", "AssocFn")]
    unknown = [k for k in present if k not in fp and F.fns[k].kind in ("Fn", "AssocFn") and not F.fns[k].d.get("pub")
               and not F.fns[k].d.get("impl_trait") and not F.fns[k].d.get("trait_of") and not F.fns[k].d.get("closure_of")]
    renames = {}
    used = set()
    for m in sorted(missing):
        best, best_score, second = None, -1.0, -1.0
        for u in unknown:
            if u in used:
                continue
            f = F.fns[u]
            if [f.d.get("inputs"), f.d.get("output")] != fp[m]["sig"] or f.d.get("impl_adt") != fp[m]["impl"] or f.kind != fp[m]["kind"]:
                continue
            a = set(fp[m]["callees"])
            b = {ck for _, _, ck, _ in f.calls() if ck}
            score = (len(a & b) / len(a | b)) if (a | b) else 1.0
            size = min(len(f.blocks), fp[m]["blocks"]) / max(len(f.blocks), fp[m]["blocks"], 1)
            score = 0.7 * score + 0.3 * size
            if score > best_score:
                best, second, best_score = u, best_score, score
            elif score > second:
                second = score
        if best is not None and best_score >= 0.6 and best_score - second >= 0.1:
            renames[best] = m
            used.add(best)
    if renames:
        def fix(d):
            for key in ("key", "resolved", "path", "closure_of"):
                v = d.get(key)
                if isinstance(v, str) and v in renames:
                    d[key] = renames[v]
        for f in F.fns.values():
            _walk(f.d.get("blocks"), fix)
            _walk(f.d.get("promoted"), fix)
            if f.d.get("closure_of") in renames:
                f.d["closure_of"] = renames[f.d["closure_of"]]
        for new, old in renames.items():
            f = F.fns.pop(new)
            f.d["key"] = old
            f.d["path"] = old
            f.d["name"] = old.split("::")[-1]
            nf = Fn(f.d, f.crate)
            F.fns[old] = nf
            for c in F.crates.values():
                if new in c.fns:
                    del c.fns[new]
                    c.fns[old] = nf
    # fields
    frenames = {}
    for path, variants in ref.get("adts", {}).items():
        a = F.adts.get(path)
        if a is None or len(a["variants"]) != len(variants):
            continue
        for vi, (v, rv) in enumerate(zip(a["variants"], variants)):
            if len(v["fields"]) != len(rv) or [x["ty"] for x in v["fields"]] != [t for _, t in rv]:
                continue
            for i, (fld, (rn, rt)) in enumerate(zip(v["fields"], rv)):
                if fld["name"] != rn and not fld.get("pub"):
                    frenames[(path, vi, i)] = (fld["name"], rn)
                    fld["name"] = rn
    if frenames:
        byadt = {}
        for (path, vi, i), (new, old) in frenames.items():
            byadt.setdefault(path, {})[(i, new)] = old

        def fixf(d):
            if d.get("k") == "field" and d.get("of") in byadt:
                o = byadt[d["of"]].get((d.get("i"), d.get("n")))
                if o:
                    d["n"] = o
            if d.get("k") == "agg" and d.get("adt") in byadt and isinstance(d.get("fields"), list):
                m = byadt[d["adt"]]
                d["fields"] = [m.get((i, n), n) for i, n in enumerate(d["fields"])]
        for f in F.fns.values():
            _walk(f.d.get("blocks"), fixf)
            _walk(f.d.get("promoted"), fixf)
    return renames, frenames


def _remap(x, off, boff, poff):
    """deep copy of a callee fragment with locals, block indices and promoted indices shifted"""
    if isinstance(x, dict):
        out = {}
        for k, v in x.items():
            out[k] = _remap(v, off, boff, poff)
        if "l" in x and isinstance(x["l"], int) and (("p" in x) or (x.get("k") in ("live", "dead", "index"))):
            out["l"] = x["l"] + off
        if "promoted" in x and isinstance(x["promoted"], int):
            out["promoted"] = x["promoted"] + poff
        return out
    if isinstance(x, list):
        return [_remap(v, off, boff, poff) for v in x]
    return x


def _shift_term(t, boff):
    k = t["k"]
    if "t" in t and t["t"] is not None:
        t["t"] += boff
    if t.get("unwind") is not None and isinstance(t["unwind"], int):
        t["unwind"] += boff
    if k == "switch":
        t["targets"] = [x + boff for x in t["targets"]]
        t["otherwise"] = t["otherwise"] + boff if t["otherwise"] is not None else None
    return t


def _ref_source(blk_stmts, local):
    """if `local` is defined in these statements as `&[mut] P` (P a place without index projections): (P, statement index)"""
    for i in range(len(blk_stmts) - 1, -1, -1):
        s = blk_stmts[i]
        if s["k"] == "assign" and not s["lhs"]["p"] and s["lhs"]["l"] == local:
            rv = s["rv"]
            if rv["k"] == "ref" and not any(e.get("k") == "index" for e in rv["p"]["p"]):
                return rv["p"], i
            return None, None
    return None, None


def _subst_deref(x, local, place):
    """replace every place `(*local).rest` by `place.rest` (a by-reference parameter bound to a place of the caller)"""
    if isinstance(x, dict):
        if "l" in x and "p" in x and isinstance(x["p"], list) and x["l"] == local and x["p"] and x["p"][0].get("k") == "deref":
            return {"l": place["l"], "p": copy.deepcopy(place["p"]) + [_subst_deref(e, local, place) for e in x["p"][1:]]}
        return {k: _subst_deref(v, local, place) for k, v in x.items()}
    if isinstance(x, list):
        return [_subst_deref(v, local, place) for v in x]
    return x


def _uses_bare(x, local):
    """is `local` used other than through a leading deref (passed on, compared, reborrowed whole ...)"""
    if isinstance(x, dict):
        if "l" in x and "p" in x and isinstance(x["p"], list) and x["l"] == local:
            return not (x["p"] and x["p"][0].get("k") == "deref")
        if x.get("k") in ("live", "dead") and x.get("l") == local:
            return False
        return any(_uses_bare(v, local) for v in x.values())
    if isinstance(x, list):
        return any(_uses_bare(v, local) for v in x)
    return False


def _rename_local(x, old, new):
    if isinstance(x, dict):
        out = {k: _rename_local(v, old, new) for k, v in x.items()}
        if out.get("l") == old and isinstance(x.get("l"), int):
            out["l"] = new
        return out
    if isinstance(x, list):
        return [_rename_local(v, old, new) for v in x]
    return x


def inline_call(caller_d, bi, callee_d):
    """splice callee_d into caller_d at the call terminating block bi (in place on caller_d)"""
    blk = caller_d["blocks"][bi]
    call = blk["term"]
    off = len(caller_d["locals"])
    boff = len(caller_d["blocks"])
    poff = len(caller_d.get("promoted", []))
    new_locals = copy.deepcopy(callee_d["locals"])
    if callee_d.get("promoted"):
        caller_d.setdefault("promoted", [])
        caller_d["promoted"] = caller_d["promoted"] + copy.deepcopy(callee_d["promoted"])
    sp = call.get("sp")
    cont = call.get("t")
    dest = call["dest"]
    new_blocks = []
    for cb in callee_d["blocks"]:
        nb = {"cleanup": cb["cleanup"], "stmts": _remap(cb["stmts"], off, boff, poff), "term": _remap(cb["term"], off, boff, poff)}
        t = nb["term"]
        if t["k"] == "return":
            if cont is None:
                nb["term"] = {"k": "unreachable"}
            else:
                nb["stmts"].append({"k": "assign", "lhs": dest, "rv": {"k": "use", "a": {"move": {"l": off, "p": []}}}, "sp": sp})
                nb["term"] = {"k": "goto", "t": cont}
        else:
            _shift_term(t, boff)
        new_blocks.append(nb)
    # parameters.  A parameter bound to `&[mut] P` (the usual way state is handed to an extracted helper) is replaced by P itself wherever
    # the helper dereferences it, so that the spliced code reads and writes the caller's place directly, as it did before the extraction;
    # a parameter bound to a plain copy of a caller variable loses its own debug name, so that it resolves to the caller's variable.
    for i, a in enumerate(call["args"]):
        pl = off + 1 + i
        src = a.get("move") or a.get("copy")
        done = False
        if src is not None and not src["p"] and new_locals[1 + i]["ty"].startswith("&"):
            place, _ = _ref_source(blk["stmts"], src["l"])
            # `&mut *r` with r itself `&mut P` (two-phase borrows and reborrows): look through
            for _depth in range(4):
                if place is None or not (place["p"] and place["p"][0].get("k") == "deref"):
                    break
                inner, _ = _ref_source(blk["stmts"], place["l"])
                if inner is None:
                    break
                place = {"l": inner["l"], "p": copy.deepcopy(inner["p"]) + place["p"][1:]}
            if place is not None and not any(_uses_bare(nb, pl) for nb in new_blocks):
                new_blocks = [_subst_deref(nb, pl, place) for nb in new_blocks]
                done = True
        if not done and a.get("move") is not None and not src["p"]:
            # look through the temporary the argument was moved into
            for _depth in range(3):
                if caller_d["locals"][src["l"]].get("name"):
                    break
                prev = [st_ for st_ in blk["stmts"] if st_["k"] == "assign" and st_["lhs"] == {"l": src["l"], "p": []}]
                if len(prev) != 1 or prev[0]["rv"]["k"] != "use" or prev[0]["rv"]["a"].get("move") is None or prev[0]["rv"]["a"]["move"]["p"]:
                    break
                src = prev[0]["rv"]["a"]["move"]
        if not done and a.get("move") is not None and not src["p"] and caller_d["locals"][src["l"]]["ty"] == new_locals[1 + i]["ty"] \
                and caller_d["locals"][src["l"]].get("name"):
            # a named caller variable handed over by value (a String scratch buffer, say): the helper's parameter *is* that variable from
            # here on (the caller cannot touch it again before re-initialising it), so the spliced code works on the caller's place
            new_blocks = [_rename_local(nb, pl, src["l"]) for nb in new_blocks]
            done = True
        if not done:
            blk["stmts"].append({"k": "assign", "lhs": {"l": pl, "p": []}, "rv": {"k": "use", "a": a}, "sp": sp})
            if src is not None and not src["p"]:
                new_locals[1 + i].pop("name", None)
    caller_d["locals"] = caller_d["locals"] + new_locals
    caller_d["blocks"] = caller_d["blocks"] + new_blocks
    blk["term"] = {"k": "goto", "t": boff}
    caller_d.setdefault("inlined", []).append({"callee": callee_d["key"], "ret": off, "dest": dest, "cont": cont, "first_block": boff, "blocks": len(new_blocks)})


def normalise(F, Fn):
    """returns the list of (helper, [callers]) that were inlined; mutates F.fns (callers are replaced by new Fn objects)"""
    known = known_functions()
    if known is None or os.environ.get("VERIF_NO_NORMALIZE"):
        return []
    F.renamed_functions, F.renamed_fields = undo_renames(F, Fn)
    from . import callgraph
    cands = {}
    for k, f in F.fns.items():
        if k in known or f.crate not in ("saphyr_parser", "saphyr"):
            continue
        d = f.d
        if f.kind not in ("Fn", "AssocFn") or d.get("impl_trait") or d.get("closure_of") or d.get("derived"):
            continue
        if d.get("trait_of"):
            # a provided trait method: its body is what runs unless some impl of the trait defines the method itself
            if any(g.d.get("impl_trait") == d["trait_of"] and g.name == f.name for g in F.fns.values()):
                continue
            # a new provided method of the input contract is a new operation of the contract (a back-end written elsewhere may override
            # it): it stays a call - the rules treat it like the reviewed bulk operations (rules/C12.derived_consumers)
            if d["trait_of"] == "saphyr_parser::input::Input":
                continue
        if "::test" in k or "::tests::" in k or len(f.blocks) > MAX_BLOCKS:
            continue
        cands[k] = f
    if not cands:
        return []
    # drop recursive candidates (any cycle through them)
    # (only cycles that stay among the candidates matter: a helper that calls back into a function of the reference is spliced once, the
    # reference function is never spliced, so the process ends)
    edges, _ = callgraph.build(F)
    sub = {k: [x for x in edges.get(k, ()) if x in cands or F.fns.get(x) is not None and F.fns[x].d.get("closure_of") in cands] for k in edges}
    sub = {k: v for k, v in sub.items() if k in cands or (F.fns.get(k) is not None and F.fns[k].d.get("closure_of") in cands)}
    for k in list(cands):
        if k in callgraph.reachable(sub, [x for x in sub.get(k, ())]):
            del cands[k]
    done = []
    # innermost helpers first: repeat until no call to a candidate remains
    for _round in range(6):
        changed = False
        for ck, f in list(F.fns.items()):
            if f.crate not in ("saphyr_parser", "saphyr"):
                continue
            sites = [bb for bb, t, key, fr in f.calls() if key in cands and key != ck]
            if not sites:
                continue
            d = copy.deepcopy(f.d)
            for bb in sites:
                t = d["blocks"][bb]["term"]
                fr = t["f"].get("fn") or {}
                key = fr.get("resolved") or fr.get("key")
                inline_call(d, bb, F.fns[key].d)
                done.append((key, ck))
                # the helper's closures now belong (also) to the caller
                for g in F.fns.values():
                    if g.d.get("closure_of") == key or key in g.d.get("closure_of_also", []):
                        g.d.setdefault("closure_of_also", []).append(ck)
            nf = Fn(d, f.crate)
            F.fns[ck] = nf
            for c in F.crates.values():
                if ck in c.fns:
                    c.fns[ck] = nf
            changed = True
        if not changed:
            break
    # helpers that are no longer referenced anywhere leave the inventories (their constructs now live in the callers)
    edges, _ = callgraph.build(F)
    referenced = set()
    for k, vs in edges.items():
        referenced |= set(vs)
    for k in {h for h, _ in done}:
        if k not in referenced:
            for g in F.fns.values():
                if g.d.get("closure_of") == k and g.d.get("closure_of_also"):
                    g.d["closure_of"] = g.d["closure_of_also"][0]
            F.fns.pop(k, None)
            for c in F.crates.values():
                c.fns.pop(k, None)
    return done
