"""C11 — nesting depth cannot crash the process.

Clause decided: stack use that grows with input nesting can only come from call cycles or from the
implicit recursion of structural code over a recursive type.  Every cycle of the resolved call graph
of both crates, and every recursive node type x structural trait, must be bounded by a guard or it is
a finding (keyed by its member list / type::trait).  The pull parser, the scanner and the loader's
event handler must be in no cycle at all.  Flow nesting is bounded by a u8 counter advanced only
through checked_add with the None case turned into an error.
"""
from .common import *
import re
from engine.facts import is_local, op_const, const_value

PID = "C11"
# structural code that parsing, loading (alias substitution clones, mapping keys are hashed and compared) and
# releasing a tree actually run; Debug/Ord over a tree are outside the property's "parse, load, release"
STRUCTURAL_TRAITS = ["std::clone::Clone", "std::cmp::PartialEq", "std::hash::Hash", "std::ops::Drop"]


def new_report(tier):
    return make_report(PID, tier, "other", [
        "stack growth proportional to nesting requires a call cycle or recursive structural code over a recursive type",
        "std collections (Vec, LinkedHashMap) drop/clone/compare their elements by calling the element's impl",
    ], "E3: Tarjan SCCs of the resolved call graph (trait calls fanned out to every local impl, closures attached, fn "
       "items as values followed) and of the type graph; each cycle must be cut by a depth guard or is a finding keyed by "
       "its members; pull parser/scanner/loader handler must be cycle-free; flow depth bounded through checked_add. "
       "Known findings are listed in known_findings.json; frame sizes are not computed.")


def guard_cut_functions(F, comp, edges):
    """functions of the cycle in which every call that stays on the cycle is dominated by one edge of a
    comparison-controlled switch (a depth guard)"""
    cuts = set()
    compset = set(comp)
    for k in comp:
        f = F.fns[k]
        rec_blocks = []
        for bb, t, ck, fr in f.calls():
            tg = (fr or {}).get("resolved") or ck
            if tg in compset or (fr and fr.get("trait") and any(x for x in compset if x.endswith("::" + fr["name"]))):
                rec_blocks.append(bb)
        # closures creating recursion are handled through their own bodies
        if not rec_blocks:
            continue
        ok_all = True
        for rb in rec_blocks:
            if not _dominated_by_depth_guard(f, rb):
                ok_all = False
                break
        if ok_all:
            cuts.add(k)
    return cuts


def _dominated_by_depth_guard(f, site_bb):
    for bi, b in enumerate(f.blocks):
        if b["cleanup"]:
            continue
        t = b["term"]
        if t["k"] != "switch":
            continue
        dl = is_local(t["discr"])
        if dl is None:
            continue
        org = cfg.origin(f, dl)
        is_cmp = False
        if org[0] == "rv" and org[3]["rv"]["k"] == "bin" and org[3]["rv"]["op"] in ("Lt", "Le", "Gt", "Ge"):
            rv = org[3]["rv"]
            # one side must be a constant or a plain field load (the limit)
            for side in (rv["a"], rv["b"]):
                if op_const(side) is not None:
                    is_cmp = True
                sl = is_local(side)
                if sl is not None:
                    o2 = cfg.origin(f, sl)
                    if o2[0] == "const":
                        is_cmp = True
        if not is_cmp:
            continue
        for tg in set(f.succs(bi)):
            if cfg.dominated_by_edge(f, site_bb, bi, tg):
                return True
    return False


def flow_depth_bound(F):
    """(ok, description): increase_flow_level advances flow_level only (A) with the result of checked_add whose None case is an error, or
    (B) behind an ordering comparison (not an equality) of an expression mentioning flow_level against a constant, whose other edge
    reaches only Err"""
    inc = F.fn(SCANNER + "::increase_flow_level")
    ws = [w for w in cfg.field_writes(inc, SCANNER, "flow_level") if w["kind"] == "assign"]
    if not ws:
        return False, "flow_level is not written by increase_flow_level"
    errs = cfg.err_sink_blocks(inc)
    rets = cfg.return_blocks(inc)
    how = []
    for w in ws:
        e = cfg.expr_operand(inc, w["stmt"]["rv"]["a"], 12) if w["stmt"]["rv"]["k"] == "use" else ("?",)
        s = cfg.expr_str(e)
        if "checked_add" in s and "Add" not in s.replace("checked_add", ""):
            okq = False
            for bi, b in enumerate(inc.blocks):
                t = b["term"]
                if b["cleanup"] or t["k"] != "switch":
                    continue
                de = cfg.expr_operand(inc, t["discr"], 12)
                if de[0] == "discr" and "checked_add" in cfg.expr_str(de):
                    m, other = cfg.switch_edge_blocks(inc, bi)
                    tg = m.get(1, other)
                    esc = cfg.flag_reach(inc, tg, rets, avoid=errs) if tg not in errs else None
                    okq = esc is None
            if not okq:
                return False, "checked_add result used without turning None into an error"
            how.append("checked_add")
            continue
        guarded = False
        for b2 in inc.dominators().get(w["bb"], ()):
            t2 = inc.blocks[b2]["term"]
            if t2["k"] != "switch":
                continue
            ce = cfg.expr_operand(inc, t2["discr"], 10)
            while ce[0] == "un" and ce[1] == "Not":
                ce = ce[2]
            if ce[0] != "bin" or ce[1] not in ("Lt", "Le", "Gt", "Ge"):
                continue
            sides = (cfg.expr_str(ce[2]), cfg.expr_str(ce[3]))
            if not any("flow_level" in x for x in sides) or not any(ce[i][0] == "const" for i in (2, 3)):
                continue
            m, other = cfg.switch_edge_blocks(inc, b2)
            for good, bad in ((other, m.get(0)), (m.get(0), other)):
                if good is None or bad is None:
                    continue
                if cfg.dominated_by_edge(inc, w["bb"], b2, good):
                    esc = cfg.flag_reach(inc, bad, rets, avoid=errs) if bad not in errs else None
                    if esc is None:
                        guarded = True
        if not guarded:
            return False, "flow_level := %s without checked_add and without a dominating ordering comparison against a constant whose other edge is an error" % s[:120]
        how.append("explicit ordering guard")
    return True, how


def run(tier):
    rep = new_report(tier)
    F = facts.load()
    edges, why = callgraph.build(F)
    # a forwarding implementation (`impl<R: Trait> Trait for Wrapper<R>` calling the same method on its `inner: R`) is not recursion on the
    # input: the call goes to a component of the wrapper's own type, so its depth is bounded by the nesting of types fixed at compile time.
    # Such edges - a trait call whose receiver type is a bare type parameter, from an implementation of that very trait method that is
    # generic over the parameter - are set aside for cycle detection.
    for (a_, b_), w_ in list(why.items()):
        if isinstance(w_, str) and w_.startswith("type-parameter receiver "):
            pnm = w_.rsplit(" ", 1)[1]
            fa = F.fns.get(a_)
            if fa is not None and fa.d.get("impl_trait") and F.fns.get(b_) is not None and F.fns[b_].d.get("impl_trait") == fa.d.get("impl_trait") \
                    and F.fns[b_].name == fa.name and re.search(r"[<, &]%s[>, ]" % pnm, fa.d.get("impl_self") or ""):
                edges[a_].discard(b_)
    comps = callgraph.sccs(edges)
    rep.extra["functions_analysed"] = len(F.fns)
    rep.extra["call_edges"] = sum(len(v) for v in edges.values())
    rep.extra["cycles"] = [[short(x) for x in c] for c in comps]
    rep.floor("functions in the call graph", len(F.fns), 500)
    rep.floor("call edges", rep.extra["call_edges"], 700)

    # R1: every call cycle is guarded or a finding
    for comp in comps:
        members = [m for m in comp if "{closure" not in m]
        inst = "|".join(short(m) for m in members)
        cuts = guard_cut_functions(F, comp, edges)
        guarded = False
        if cuts:
            e2 = {k: {x for x in v if x in comp} for k, v in edges.items() if k in comp and k not in cuts}
            for c in cuts:
                e2[c] = set()
            guarded = not callgraph.sccs(e2)
        f0 = F.fns[members[0] if members else comp[0]]
        rep.check(guarded, "call-cycle", inst,
                  "recursion cycle with no depth guard: stack use grows with the nesting depth of the data it follows",
                  site=f0.key + " (" + f0.span + ")",
                  detail={"members": comp, "edges": {k: sorted(x for x in edges[k] if x in comp) for k in comp}})

    # R2: recursive node types x structural traits
    tg = callgraph.type_graph(F)
    rec_types = [c[0] for c in callgraph.sccs(tg) if len(c) == 1] + [x for c in callgraph.sccs(tg) if len(c) > 1 for x in c]
    carriers = {}
    for r in rec_types:
        for v in F.adts[r]["variants"]:
            for fld in v["fields"]:
                if r in fld["adts"]:
                    for y in fld["adts"]:
                        if y in F.adts and y != r and y not in rec_types:
                            carriers.setdefault(y, set()).add(r)
    rep.extra["recursive_types"] = [short(r) for r in rec_types]
    rep.extra["carrier_types"] = {short(k): sorted(short(x) for x in v) for k, v in carriers.items()}
    rep.floor("recursive node types", len(rec_types), 4)
    tree_types = list(rec_types) + sorted(carriers)
    for ty in tree_types:
        seen = set()
        for im in F.impls:
            if im.get("adt") == ty and im.get("trait") in STRUCTURAL_TRAITS:
                seen.add(im["trait"])
        # drop glue exists for every type owning heap collections (no explicit impl needed)
        needs_drop = any(("Vec" in fld["ty"] or "LinkedHashMap" in fld["ty"] or "Box" in fld["ty"] or ty in fld["adts"]
                          or any(a in tree_types for a in fld["adts"]))
                         for v in F.adts[ty]["variants"] for fld in v["fields"])
        if needs_drop and ty in rec_types:
            seen.add("drop-glue")
        for tr in sorted(seen):
            rep.bad("recursive-type", "%s::%s" % (short(ty), tr.split("::")[-1]),
                    "structural code (%s) over a recursive node type recurses once per nesting level of the tree" % tr,
                    site=F.adts[ty]["span"]["at"])

    # R3: cycle-free core: pull parser, scanner, loader event handler
    roots = [PARSER + "::next_event_impl", PARSER + "::peek", PARSER + "::next_event",
             "<%s as std::iter::Iterator>::next" % PARSER, SCANNER + "::next_token",
             "<%s as std::iter::Iterator>::next" % SCANNER,
             "<%s as saphyr_parser::parser::SpannedEventReceiver>::on_event" % LOADER]
    for r in roots:
        F.fn(r)
    core = callgraph.reachable(edges, roots)
    rep.extra["cycle_free_core_functions"] = len(core)
    rep.floor("functions reachable from the pull/scan/on_event roots", len(core), 150)
    in_cycle = {m for c in comps for m in c}
    for k in sorted(core):
        rep.check(k not in in_cycle, "cycle-free-core", short(k),
                  "a function reachable from the pull parser / scanner / loader event handler is on a call cycle: "
                  "their continuation must live on the heap stacks, not on the call stack",
                  site=F.fns[k].key + " (" + F.fns[k].span + ")")

    # R4: flow depth bound
    inc = F.fn(SCANNER + "::increase_flow_level")
    writers = {}
    for k, f in F.fns.items():
        if not k.startswith("saphyr_parser::"):
            continue
        for w in cfg.field_writes(f, SCANNER, "flow_level"):
            writers.setdefault(k, []).append(w)
    allowed = {SCANNER + "::increase_flow_level", SCANNER + "::decrease_flow_level", SCANNER + "::new"}
    for k in sorted(writers):
        rep.check(k in allowed, "flow-level-writer", short(k),
                  "flow_level written outside increase_flow_level/decrease_flow_level/new", site=F.fns[k].span)
    ok_bound, how = flow_depth_bound(F)
    rep.check(ok_bound, "flow-level-bounded", "increase_flow_level",
              "the flow nesting counter is no longer advanced under a sound bound (checked_add with None => Err, or an ordering comparison against a "
              "constant whose failing edge is an error): flow nesting, and with it every recursion that follows it, is unbounded", site=inc.span, detail=how)
    # every function that pushes FlowSequenceStart/FlowMappingStart (fetch_flow_collection_start) calls increase_flow_level with `?`
    fcs = F.fn(SCANNER + "::fetch_flow_collection_start")
    has = any(ck == inc.key for _, _, ck, _ in fcs.calls())
    rep.check(has, "flow-start-increases-level", "fetch_flow_collection_start",
              "fetch_flow_collection_start no longer goes through increase_flow_level", site=fcs.span)
    # the flow level is only moved by the fetchers of the bracket tokens: one up per '[' / '{', one down per ']' / '}' (C03 pairs the tokens
    # with these calls); any other caller - a reset at a BOM, at a document marker, in an error path - lets nesting escape the bound
    S_ = SCANNER + "::"
    for name, owner in (("increase_flow_level", "fetch_flow_collection_start"), ("decrease_flow_level", "fetch_flow_collection_end")):
        callers = sorted({k for k, f in F.fns.items() for bb, t, ck, fr in f.calls() if ck == S_ + name})
        rep.check(callers == [S_ + owner], "flow-level-callers", name, "%s is called from %s: the flow nesting bound is tied to one call per bracket in %s" % (
            name, [short(c) for c in callers], owner), detail=[short(c) for c in callers])
    # R4': the one flow construct that opens a mapping without a bracket - the single pair `[ k: v ]`, whose FlowMappingStart is inserted
    # when a ':' resolves a pending simple key - cannot nest in itself: inside a flow collection a simple key becomes possible again only
    # after '[', '{', ',' (each either counted by the level or ending the pair).  Every place that re-allows simple keys is therefore
    # either one of those fetchers, a block-context-only function, or sits on the `flow_level == 0` side of a test.  A line break or a
    # ':' that re-allowed keys in flow context would let `[ a:\n b:\n c: ...` nest one mapping per line with the level at 1.
    UNCONDITIONAL_OK = {
        "fetch_stream_start": "runs once, before any bracket: the level is 0",
        "fetch_flow_collection_start": "'[' / '{': counted by increase_flow_level",
        "fetch_flow_entry": "',' ends the pair it follows",
        "fetch_block_entry": "rejects flow context before it gets there",
        "fetch_block_scalar": "block scalars do not occur inside flow collections (the indicator is refused there)",
        "scan_plain_scalar": "only after the scalar swallowed a line break: the scalar then spans lines and cannot be a simple key; what follows it must be an indicator",
        "allow_simple_key": "the setter itself",
        "new": "constructor",
    }
    n_allow = 0
    for k, f in sorted(F.fns.items()):
        if f.d.get("impl_adt") != SCANNER:
            continue
        sites = [(bb, t["sp"]) for bb, t, ck, fr in f.calls() if ck == S_ + "allow_simple_key"]
        for w in cfg.field_writes(f, SCANNER, "simple_key_allowed"):
            if w["kind"] == "assign" and w["stmt"]["rv"]["k"] == "use":
                c = op_const(w["stmt"]["rv"]["a"])
                if c is None or const_value(c) is not False:
                    sites.append((w["bb"], w["stmt"]["sp"]))
            elif w["kind"] != "assign":
                sites.append((w["bb"], None))
        for bb, sp in sites:
            n_allow += 1
            nm = f.name
            if nm in UNCONDITIONAL_OK:
                rep.ok("flow-pair-cannot-nest", "%s@reviewed" % short(k), UNCONDITIONAL_OK[nm])
                continue
            ok = False
            for d in f.dominators().get(bb, ()):
                tt = f.blocks[d]["term"]
                if tt["k"] != "switch":
                    continue
                e = cfg.expr_operand(f, tt["discr"], 6)
                m, other = cfg.switch_edge_blocks(f, d)
                zero = None
                if e[0] == "bin" and cfg.expr_fields(e[2]) == ["flow_level"] and e[3] == ("const", 0):
                    zero = other if e[1] == "Eq" else m.get(0) if e[1] in ("Gt", "Ne") else None
                elif cfg.expr_fields(e) == ["flow_level"]:
                    zero = m.get(0)
                if zero is not None and (bb == zero or cfg.dominated_by_edge(f, bb, d, zero)):
                    ok = True
            rep.check(ok, "flow-pair-cannot-nest", short(k), "%s re-allows simple keys on a path where the flow level may be positive: inside a flow collection a key "
                      "could then follow a ':' without a bracket or comma in between, single pairs nest without the flow level counting them and the nesting "
                      "limit is bypassed" % f.name, site=site(f, sp) if sp else f.span)
    rep.floor("places that re-allow simple keys", n_allow, 8)
    # ... and whether a ':' opens such a bracket-less pair is decided by flow_mapping_started, which must be the enclosing collection's again
    # once a bracket has closed: the value restored from the per-collection stack is not overwritten afterwards (a pair would then be
    # opened inside a '{', where no ',' ever ends it: one more mapping per entry at a constant flow level)
    import json as _json
    from . import C15 as _C15
    with open(os.path.join(facts.VERIF, "tables", "c15_fields.json")) as fh:
        ent = _json.load(fh)["fields"].get(SCANNER, {}).get("flow_mapping_started")
    if ent is None or ent.get("class") != "RESTORED":
        raise facts.MissingAnchor("tables/c15_fields.json has no RESTORED entry for Scanner.flow_mapping_started")
    rs = F.fn(ent["restored_in"])
    rws = []
    for w in cfg.field_writes(rs, SCANNER, "flow_mapping_started"):
        if w["kind"] == "assign" and w["stmt"]["rv"]["k"] == "use":
            txt = cfg.expr_str(cfg.expr_operand(rs, w["stmt"]["rv"]["a"], 10))
            if "::pop(" in txt and ent["stack"] in txt:
                rws.append(w["bb"])
        elif w["kind"] == "call_dest":
            txt = " ".join(cfg.expr_str(cfg.expr_operand(rs, a, 10)) for a in w["term"]["args"])
            if "::pop(" in txt and ent["stack"] in txt:
                rws.append(w["bb"])
    writers = {k for k, g in F.fns.items() if k.startswith("saphyr_parser::") and cfg.field_writes(g, SCANNER, "flow_mapping_started")}
    late = _C15.restore_is_final(F, SCANNER, "flow_mapping_started", rs, set(rws), writers) if rws else ["no restore from the stack found"]
    rep.check(not late, "pair-flag-restored-last", short(rs.key), "after a closing bracket flow_mapping_started is not the enclosing collection's value (%s): a ':' "
              "there opens a single-pair mapping inside a '{', which nothing closes - nesting grows by one per entry while the flow level stays put" % ", ".join(late),
              site=rs.span)
    # R5: the heap stacks that take over from the call stack grow with the input: the cycle-free core pushes one entry per open collection
    # (parser states, marks, indents, simple keys, loader document/key stacks).  A fixed-capacity container there (ArrayDeque, ArrayVec,
    # an array indexed by depth) turns "nesting deeper than N" into a panic or a silent overwrite.  Fixed-capacity containers are allowed
    # in the look-ahead buffer of BufferedInput only (its capacity is bounded by the scanner's longest look-ahead, not by the input).
    FIXED = ("arraydeque::", "arrayvec::", "heapless::", "smallvec::")   # smallvec grows, but listed so that a reviewer looks at it
    n_push = 0
    for k in sorted(core | {c.key for kk in core if kk in F.fns for c in F.closures_of(kk)}):
        f = F.fns.get(k)
        if f is None or not k.startswith(("saphyr_parser::", "saphyr::")):
            continue
        for bb, t, ck, fr in f.calls():
            if not ck:
                continue
            nm = ck.rsplit("::", 1)[-1]
            if nm in ("push", "push_back", "push_front", "insert"):
                n_push += 1
            if ck.startswith(FIXED) and nm.startswith(("push", "insert", "try_push", "extend")):
                rep.check(k.startswith("saphyr_parser::input::buffered::") or "BufferedInput" in k, "nesting-stacks-grow", "%s->%s" % (short(k), short(ck)),
                          "a function of the pull parser / scanner / loader core pushes onto a fixed-capacity container: input nested (or queued) deeper than its "
                          "capacity ends in a panic or a lost entry instead of a result", site=site(f, t["sp"]))
    rep.floor("push/insert calls in the cycle-free core", n_push, 20)
    for owner in (PARSER, SCANNER, LOADER):
        adt = F.adts.get(owner)
        if adt is None:
            continue
        for v in adt["variants"]:
            for fld in v["fields"]:
                rep.check(not any(x in fld["ty"] for x in FIXED), "nesting-stacks-grow", "%s.%s" % (owner.split("::")[-1], fld["name"]),
                          "field %s of %s is a fixed-capacity container (%s): whatever is pushed per open collection or per queued token overflows it on deep input"
                          % (fld["name"], owner.split("::")[-1], fld["ty"][:80]), site=adt["span"]["at"])
    return rep
