"""The raw arm and the buffered arm of the block-scalar content reader read the same text (used by C10).

scan_block_scalar_content_line first drains the look-ahead buffer one character at a time (`while !buf_is_empty() && !next_is_breakz()
{ push(peek()); skip }`) and then, with the buffer empty, reads straight from the input (`while let Some(c) = raw_read_non_breakz_ch()
{ push(c) }`).  How much is in the buffer depends on the back-end, so both arms must stop at the same characters and keep the same
characters:
  * raw-read-contract - every implementation of Input::raw_read_non_breakz_ch, tabulated (E8) over the character it reads: it answers
    Some(that character) exactly when the character is not a break or the end-of-input padding, and on None the character is not lost
    (StrInput leaves its text where it was, BufferedInput puts the character into its buffer);
  * buffered-arm-table - one round of the buffered loop, tabulated over the character at the cursor: it goes on exactly for the
    characters that are not breakz, and what it appends to the text is that character;
  * raw-arm-appends-what-it-read - what the raw loop appends is the payload of the Some it was given.
"""
from .common import *
from engine import e7, e8, fold
from engine.e8 import Unknown
from . import bulkops

RAW = "raw_read_non_breakz_ch"


class RawRec(bulkops.UnitRec):
    def call_effect(self, bi, t, ck, st):
        if ck and ck.rsplit("::", 1)[-1] in ("push_back", "push_front", "push"):
            v = e8.operand_value(self.f, t["args"][1], st) if len(t["args"]) > 1 else None
            return ("op", ("putback", v))
        return "transparent"


def _breakz(F):
    return frozenset(fold.predicate_table(F, "saphyr_parser::char_traits::is_breakz", alphabet=list(range(128)) + fold.ALPHABET))


def raw_read_contract(rep, F, rule="raw-read-contract"):
    bz = _breakz(F)
    impls = [f for k, f in sorted(F.fns.items()) if f.name == RAW and f.d.get("impl_trait") == INPUT]
    n = 0
    for f in impls:
        rec = RawRec(F, f)
        rec.domains = {("unit",): list(range(128)) + [c for c in fold.ALPHABET if c > 127]}
        ps = [p for p in e7.paths(f, 0, rec, limit=2000) if p["why"] == "return"]
        wrong = []
        for u in rec.domains[("unit",)]:
            ms = [p for p in ps if ("unit",) in p["guards"] and p["guards"][("unit",)].admits(u)]
            if not ms:
                wrong.append("U+%04X: no path" % u)
                continue
            for p in ms:
                r = p["state"].get(0)
                some = r is not None and r[0] == "adt" and r[2] == "Some"
                kept = True
                if not some:
                    if ("field", "buffer") in p["state"] and not any(o[0] == "putback" for o in p["ops"]):
                        kept = False       # the text was advanced although nothing was handed out
                    if f.d.get("impl_adt", "").endswith("BufferedInput") and not any(o[0] == "putback" for o in p["ops"]):
                        kept = False
                payload_ok = True
                if some:
                    try:
                        payload_ok = e8.evaluate(r[4][0], {("unit",): u}, rec.interp) == u
                    except Unknown:
                        payload_ok = False
                want_some = u not in bz
                if some != want_some or not kept or not payload_ok:
                    wrong.append("U+%04X: %s%s%s" % (u, "Some" if some else "None", "" if kept else ", character lost", "" if payload_ok else ", another character handed out"))
        exhausted = [p for p in ps if ("unit",) not in p["guards"]]
        for p in exhausted:
            r = p["state"].get(0)
            none_by_try = r is not None and r[0] == "call" and "FromResidual" in (r[1] or "") and (r[1] or "").endswith("::from_residual") and f.locals[0]["ty"].startswith("std::option::Option")
            if not (r is not None and r[0] == "adt" and r[2] == "None") and not none_by_try:
                wrong.append("exhausted input: not None")
        n += 1
        rep.check(not wrong, rule, short(f.key), "%s does not answer Some(c) exactly for the characters that are neither a break nor the end of input, keeping c otherwise: %s"
                  % (short(f.key), "; ".join(wrong[:4])), site=f.span, detail={"characters": len(rec.domains[("unit",)]), "wrong": len(wrong)})
    return n


def arms(rep, F):
    f = F.fns.get(SCANNER + "::scan_block_scalar_content_line")
    if f is None:
        raise facts.MissingAnchor("scan_block_scalar_content_line not found")
    bz = _breakz(F)
    n = 0
    for head, body in f.natural_loops():
        calls = [(bb, t, ck) for bb, t, ck, fr in f.calls() if bb in body]
        has_raw = any(ck and ck.endswith("::" + RAW) for _, _, ck in calls)
        has_peek = any(ck and ck.endswith("Input::peek") for _, _, ck in calls)
        pushes = [(bb, t) for bb, t, ck in calls if ck == "std::string::String::push"]
        if has_peek and pushes:
            # buffered arm: folded table of the loop guard over the character at the cursor
            rec = bulkops.UnitRec(F, f)
            rec.domains = {("unit",): list(range(128)) + [c for c in fold.ALPHABET if c > 127]}
            # next_is_breakz() is the provided test on peek(): interpret it through its folded table
            tab = set()
            for ch in rec.domains[("unit",)]:
                try:
                    if fold.Folder(F, {INPUT + "::peek": lambda a, ch=ch: ch}).call(INPUT + "::next_is_breakz", [("ref", ("struct", {}))]):
                        tab.add(ch)
                except (fold.Unsupported, fold.Diverged):
                    pass
            base_interp = rec.interp
            base_leaf = rec.leaf

            def interp(v, env, base=base_interp, tab=tab):
                if v[0] == "call" and v[1] and v[1].endswith("Input::next_is_breakz") and ("unit",) in env:
                    return int(env[("unit",)] in tab)
                return base(v, env)

            def leaf(v, base=base_leaf):
                if v[0] == "call" and v[1] and v[1].endswith("Input::next_is_breakz"):
                    return ("unit",)
                return base(v)
            rec.interp, rec.leaf = interp, leaf
            outside = {b for b in range(len(f.blocks)) if b not in body}
            ps = e7.paths(f, head, rec, stop_at=outside, limit=3000)
            wrong = []
            for u in rec.domains[("unit",)]:
                on = any(p["why"] == "back-edge" and p["end"] == head and ("unit",) in p["guards"] and p["guards"][("unit",)].admits(u) for p in ps)
                stop = any(p["why"] == "stop" and ("unit",) in p["guards"] and p["guards"][("unit",)].admits(u) for p in ps)
                if on != (u not in bz) or stop != (u in bz):
                    wrong.append("U+%04X" % u)
            pushed_ok = all(cfg.expr_operand(f, t["args"][1], 6)[0] == "call" and (cfg.expr_operand(f, t["args"][1], 6)[1] or "").endswith("Input::peek") for bb, t in pushes)
            n += 1
            rep.check(not wrong and pushed_ok, "buffered-arm-table", "scan_block_scalar_content_line",
                      "the buffered arm of the content reader does not go on exactly for the characters that are not a break or the end of input, appending each: %s"
                      % (", ".join(wrong[:6]) or "what is appended is not the character at the cursor"), site=f.span)
        if has_raw and pushes:
            okp = True
            for bb, t in pushes:
                e = cfg.expr_operand(f, t["args"][1], 8)
                s_ = cfg.expr_str(e)
                okp = okp and RAW in s_ and "Some" in s_
            n += 1
            rep.check(okp, "raw-arm-appends-what-it-read", "scan_block_scalar_content_line", "what the raw arm appends is not the character raw_read_non_breakz_ch handed out",
                      site=f.span)
    return n
