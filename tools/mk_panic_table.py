#!/usr/bin/env python3
"""maintenance helper: (re)generate tables/panic_review_parse.json from the reviewed reasons below and the current inventory.
The reasons are the review; the counts are taken from the tree the review was made on.  Never run by a check."""
import json, sys
sys.path.insert(0, '/verif')
from engine import facts, panics, callgraph
from rules import C01

R = {}
def r(fn, kind, reason):
    R[(fn, kind)] = reason
S = "saphyr_parser::scanner::Scanner::"
P = "saphyr_parser::parser::Parser::"
STR = "<saphyr_parser::input::str::StrInput as saphyr_parser::input::Input>::"
BUF = "<saphyr_parser::input::buffered::BufferedInput as saphyr_parser::input::Input>::"
I1 = "I1: simple_keys.len() == flow_level + 1 >= 1 (pushed only by Scanner::new/fetch_stream_start and increase_flow_level, popped only by decrease_flow_level under flow_level > 0; save_simple_key pops then pushes) -- writer sets checked by C01/simple-keys-writers"
I2 = "I2: indent >= 0 implies indents is non-empty (indent is set to a column only together with indents.push in roll_indent/roll_one_col_indent and restored from indents.pop in unroll_indent)"
I3 = "I3: a possible simple key's token_number is >= tokens_parsed (it was tokens_parsed + tokens.len() when saved and stale keys are dropped before tokens are handed out); reviewed, not proved"
I4 = "I4: event grammar of C02 (role typing of the state machine): the loader/driver only pops what a matching start pushed"
CON = "contract (a): the E1 look-ahead analysis shows every call from the scanner satisfies this precondition for every analysed capacity"
for n in ("mapping_mut", "sequence_mut"):
    for ty in ("saphyr::annotated::marked_yaml::MarkedYaml", "saphyr::annotated::marked_yaml_owned::MarkedYamlOwned", "saphyr::yaml::Yaml", "saphyr::yaml_owned::YamlOwned"):
        r("<%s as saphyr::loader::LoadableYamlNode>::%s" % (ty, n), "expect", "called from insert_new_node only on the true edge of is_mapping()/is_sequence() of the same node (checked by C07 placement rules)")
OE = "<saphyr::loader::YamlLoader as saphyr_parser::parser::SpannedEventReceiver>::on_event"
r(OE, "diverge", I4 + ": at DocumentEnd doc_stack holds at most the finished root")
r(OE, "unwrap", I4 + ": SequenceEnd/MappingEnd/DocumentEnd follow a matching start that pushed doc_stack (and key_stack)")
r("saphyr::loader::YamlLoader::insert_new_node", "unwrap", I4 + ": key_stack has one entry per open mapping on doc_stack (pushed/popped together in on_event, C07 arm counts)")
r(BUF + "lookahead", "assert:Overflow(Sub)", "count - buffer.len() is computed after `if buffer.len() >= count { return }`")
r(BUF + "lookahead", "unwrap", CON + " (lookahead(n) with n <= bufmaxlen() = BUFFER_LEN, the ring's capacity)")
r(BUF + "peek", "index-call", CON)
r(BUF + "peek_nth", "index-call", CON)
r(BUF + "raw_read_non_breakz_ch", "unwrap", CON + " (raw reads only on an empty buffer, so the pushed-back break fits)")
r(BUF + "skip_n", "range-op", CON)
r(STR + "fetch_while_is_alpha", "assert:Overflow(Sub)", "pointer differences between a suffix of self.buffer (chars.as_str(), remaining_string) and self.buffer itself; n_bytes_read includes the bytes of the char just read")
r(STR + "fetch_while_is_alpha", "index-call", "slice bounds are byte offsets of char boundaries inside self.buffer computed from the Chars iterator")
r(STR + "next_can_be_plain_scalar", "assert:BoundsCheck", "caller's precondition C01(c): only called with a non-blank, non-break, non-end cursor (class-domain obligation; until that pass exists: reviewed at the three call sites in scan_plain_scalar, each after a !is_blank_or_breakz / next_can_be_plain test)")
r(STR + "skip_while_blank", "index-call", "&self.buffer[i..] with i <= len and every skipped byte an ASCII blank, hence a char boundary")
r(STR + "skip_ws_to_eol", "assert:Overflow(Sub)", "self.buffer.len() - new_str.len(): new_str is a suffix of self.buffer obtained by strip_prefix")
r(STR + "skip_ws_to_eol", "diverge", "assert!(skip_tabs is not Result(..)): argument precondition (d), every caller passes the constants SkipTabs::Yes/No (checked by C01/skip-tabs-constant)")
r("saphyr_parser::char_traits::as_hex", "assert:Overflow(Add)", "10 + (c - 'a') with c in 'a'..='f' resp. 'A'..='F' (match arm ranges)")
r("saphyr_parser::char_traits::as_hex", "assert:Overflow(Sub)", "c - '0' / 'a' / 'A' inside the match arm for that range")
r("saphyr_parser::char_traits::as_hex", "diverge", "unreachable!() for a non-hex digit: argument precondition (d), every caller tests is_hex on the same character first (checked by C01/as-hex-guarded)")
for n in ("next_2_are", "next_3_are", "next_is_document_end", "next_is_document_indicator", "next_is_document_start"):
    r("saphyr_parser::input::Input::" + n, "diverge", CON + " (assert!(self.buflen() >= k) is never reached with lb < k)")
r(P + "fetch_token", "expect", "token slot (b): every fetch_token() is reached with self.token = Some (checked by C01/token-slot)")
r(P + "peek_token", "unwrap", "as_ref().unwrap() directly after `self.token = Some(..)` on the same path")
r(P + "pop_state", "unwrap", I4 + ": every pop is matched by an earlier push (C02 role typing)")
r(P + "load_document", "diverge", I4 + ": assert_eq!(ev, DocumentEnd) after exactly one node")
r(P + "load_node", "diverge", I4 + ": a node starts with Alias/Scalar/SequenceStart/MappingStart")
r(P + "parse_node", "diverge", "unreachable!() after re-matching the token that was just peeked: fetch_token() returns the peeked token (borrow discipline; E5 intersects the constraints)")
r(P + "state_machine", "diverge", "State::End => unreachable!(): parse() returns StreamEnd before dispatch when state == End (checked by C02/dispatch)")
r(S + "decrease_flow_level", "assert:Overflow(Sub)", "flow_level -= 1 under `if self.flow_level > 0` (checked by C01/flow-level-decrement-guarded)")
r(S + "decrease_flow_level", "unwrap", I1)
r(S + "fetch_value", "assert:Overflow(Sub)", I3)
r(S + "fetch_value", "unwrap", I1)
r(S + "insert_token", "diverge", I3 + ": assert!(pos <= tokens.len())")
r(S + "insert_token", "vec-insert", I3)
r(S + "remove_simple_key", "unwrap", I1)
r(S + "resolve_flow_scalar_escape_sequence", "assert:Overflow(Add)", "(value << 4) + as_hex(c) in u32 over at most 8 hex digits: the shifted value has a zero low nibble")
r(S + "resolve_flow_scalar_escape_sequence", "assert:Overflow(Shl)", "constant shift amount 4 < 32")
r(S + "resolve_flow_scalar_escape_sequence", "unwrap", "I5: char::from_u32 of the constants 0x85, 0xA0, 0x2028, 0x2029, all valid scalar values")
r(S + "roll_indent", "assert:Overflow(Sub)", I3)
r(S + "roll_one_col_indent", "assert:Overflow(Add)", "self.indent + 1 in isize: indent is a column number of the input")
r(S + "save_simple_key", "unwrap", I2 + " (evaluated only after indent == mark.col >= 0 by short-circuit)")
r(S + "scan_block_scalar", "assert:Overflow(Add)", "self.indent + increment in isize: increment is one decimal digit")
r(S + "scan_block_scalar", "assert:Overflow(Sub)", "(peek() as usize) - ('0' as usize) on the true edge of is_digit(peek())")
r(S + "scan_plain_scalar", "assert:Overflow(Add)", "self.indent + 1 in isize")
r(S + "scan_plain_scalar", "assert:Overflow(Sub)", "bufmaxlen() - 1: capacities are >= 8 (capacity rule of C01(a))")
r(S + "scan_uri_escapes", "assert:Overflow(Add)", "(as_hex(c) << 4) + as_hex(nc) <= 255 and (code << 8) + byte with a zero low byte, in u32")
r(S + "scan_uri_escapes", "assert:Overflow(Shl)", "constant shift amounts 4 and 8 < 32")
r(S + "scan_uri_escapes", "assert:Overflow(Sub)", "width -= 1 after width was set to 1..=4 (or is still > 0 from the previous round)")
# scan_version_directive_number: val * 10 + digit is no longer reviewed - it is discharged by the decimal-accumulator lemma (engine/panics.py),
# which checks the length guard that bounds the number of digits
r(S + "skip_block_scalar_first_line_indent", "assert:Overflow(Add)", "self.indent + 1 in isize")
r(S + "skip_block_scalar_indent", "assert:Overflow(Sub)", "bufmaxlen() - 2: capacities are >= 8")
r(S + "skip_break", "diverge", "debug_assert!(is_break(c)): skip_break/read_break are only called after next_is_break()/is_break tests on the cursor (class-domain obligation of C14(c); reviewed at the call sites)")
r(S + "unroll_indent", "unwrap", I2 + " (the loop runs while indent > col >= -1)")

r("saphyr::loader::is_core_schema_number", "index-call", "string slices at the byte offset returned by str::find for an ASCII character ('e'/'E'/'.') and at that offset + 1: both are char boundaries inside the string (find returns the start of a match, the match is one byte long)")

F = facts.load()
fns = C01.parse_path_functions(F)
entries = []
seen = set()
for k in fns:
    f = F.fns[k]
    res = {}
    for s in panics.sites(f):
        if panics.discharge(f, s):
            continue
        res.setdefault(s["kind"], []).append(s)
    for kind, ss in sorted(res.items()):
        reason = R.get((k, kind))
        seen.add((k, kind))
        if reason is None:
            print("NO REASON", k, kind, len(ss), [s["what"][:60] for s in ss])
            continue
        entries.append({"fn": k, "kind": kind, "max": len(ss), "reason": reason})
for key in R:
    if key not in seen:
        print("UNUSED", key)
json.dump({"comment": "Residual panic-capable constructs reachable from Parser::{new*,next,peek,next_event,load}, LoadableYamlNode::load_from_* and "
           "YamlLoader::on_event that are not discharged mechanically, reviewed per (function, kind).  `max` = number of sites the reason covers; "
           "a site beyond it, or a new (function, kind), is reported for review.", "entries": entries},
          open('/verif/tables/panic_review_parse.json', 'w'), indent=1)
print(len(entries), "entries")
