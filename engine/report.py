"""Obligation bookkeeping, known findings, evidence files, exit status."""
import json
import os
import time

VERIF = os.path.dirname(os.path.dirname(os.path.abspath(__file__)))


class Report:
    def __init__(self, pid, tier, level, checker_cmd, trusted_base, explanation):
        self.pid = pid
        self.tier = tier
        self.level = level
        self.t0 = time.time()
        self.checker_cmd = checker_cmd
        self.trusted_base = list(trusted_base)
        self.explanation = explanation
        self.obligations = 0
        self.discharged = 0
        self.violations = []      # dicts: key, rule, what, site, detail
        self.samples = []
        self.extra = {}
        self.by_rule = {}
        self.assumptions = []
        self.notes = []

    # -- obligations ---------------------------------------------------------------------------
    def ok(self, rule, instance, detail=None, sample=False):
        self.obligations += 1
        self.discharged += 1
        r = self.by_rule.setdefault(rule, [0, 0])
        r[0] += 1
        r[1] += 1
        if sample or r[0] <= 2:
            if len(self.samples) < 40:
                self.samples.append({"rule": rule, "instance": instance, "verdict": "discharged", "detail": detail})

    def bad(self, rule, instance, what, site=None, detail=None):
        """A violated obligation. key = rule:instance (no line numbers)."""
        self.obligations += 1
        r = self.by_rule.setdefault(rule, [0, 0])
        r[0] += 1
        key = "%s:%s" % (rule, instance)
        for v in self.violations:
            if v["key"] == key:
                v.setdefault("more_sites", []).append(site)
                return
        self.violations.append({"key": key, "rule": rule, "instance": instance, "what": what, "site": site, "detail": detail})

    def check(self, cond, rule, instance, what, site=None, detail=None):
        if cond:
            self.ok(rule, instance, detail)
        else:
            self.bad(rule, instance, what, site, detail)
        return cond

    def floor(self, name, measured, minimum):
        """fail closed when a rule sees fewer instances than were confirmed by hand"""
        self.extra.setdefault("floors", {})[name] = {"measured": measured, "floor": minimum}
        if measured < minimum:
            self.bad("floor", name, "analysis incomplete: %s found %d instances, floor is %d (a rule matching too few "
                     "sites passes vacuously)" % (name, measured, minimum))
        else:
            self.ok("floor", name, "%d >= %d" % (measured, minimum))

    def incomplete(self, what, site=None):
        self.bad("analysis-incomplete", what, "analysis incomplete (fail closed): " + what, site)

    def violations_unknown(self):
        """violations that are not listed as known findings (computed like finish does)"""
        kf_path = os.path.join(VERIF, "known_findings.json")
        known = set()
        if os.path.exists(kf_path):
            with open(kf_path) as fh:
                for e in json.load(fh)["findings"]:
                    if e["property"] == self.pid and e["status"] == "known":
                        known.add(e["key"])
        return [v for v in self.violations if v["key"] not in known]

    # -- finish --------------------------------------------------------------------------------
    def finish(self):
        kf_path = os.path.join(VERIF, "known_findings.json")
        known = {}
        if os.path.exists(kf_path):
            with open(kf_path) as fh:
                for e in json.load(fh)["findings"]:
                    if e["property"] == self.pid and e["status"] == "known":
                        known[e["key"]] = e
        new = []
        seen_known = []
        for v in self.violations:
            if v["key"] in known:
                seen_known.append(v)
            else:
                new.append(v)
        wall = time.time() - self.t0
        evdir = os.environ.get("VERIF_EVIDENCE_DIR") or os.path.join(VERIF, "evidence")
        os.makedirs(evdir, exist_ok=True)
        vdir = os.path.join(evdir, self.pid + ".violations")
        if os.path.isdir(vdir):
            for f in os.listdir(vdir):
                os.unlink(os.path.join(vdir, f))
        lines = []
        for v in seen_known:
            lines.append("KNOWN-FINDING: property=%s %s %s" % (self.pid, v["key"], known[v["key"]]["what_fails"]))
        for i, v in enumerate(new):
            os.makedirs(vdir, exist_ok=True)
            p = os.path.join(vdir, "%d.json" % i)
            with open(p, "w") as fh:
                json.dump(v, fh, indent=1)
            lines.append("VIOLATION property=%s replay=%s" % (self.pid, p))
            lines.append("  rule %s instance %s: %s%s" % (v["rule"], v["instance"], v["what"],
                                                         (" at %s" % v["site"]) if v.get("site") else ""))
        level = self.level
        cov = {
            "obligations": self.obligations,
            "discharged": self.discharged,
            "checker_cmd": self.checker_cmd,
            "trusted_base": self.trusted_base,
            "explanation": self.explanation,
            "rules": {k: {"instances": v[0], "discharged": v[1]} for k, v in sorted(self.by_rule.items())},
            "samples": self.samples[:40],
            "known_findings_seen": [v["key"] for v in seen_known],
            "new_violations": [v["key"] for v in new],
        }
        cov.update(self.extra)
        if self.discharged != self.obligations and level == "proof":
            # a proof-level claim needs every obligation discharged; with findings open the run is a review
            level = "other"
        ev = {
            "property_id": self.pid,
            "tier": self.tier,
            "seed": int(os.environ.get("VERIF_SEED", "0") or 0),
            "level": level,
            "coverage": cov,
            "assumptions": self.assumptions,
            "wall_s": round(wall, 2),
            "violations": len(new),
        }
        with open(os.path.join(evdir, self.pid + ".json"), "w") as fh:
            json.dump(ev, fh, indent=1)
        for l in lines:
            print(l)
        print("%s [%s] %d obligations, %d discharged, %d known finding(s), %d new violation(s), %.1fs" % (
            self.pid, self.tier, self.obligations, self.discharged, len(seen_known), len(new), wall))
        return 1 if new else 0
