//! C16: "All %TAG directives of a document are in force together, a handle may be declared only once per document".  A reserved (unknown)
//! directive is not a %TAG directive, but the scanner stands in for it with a %TAG token whose handle is empty and the directive loop
//! declared that empty handle: two reserved directives in one document were rejected as a handle declared twice.
use saphyr::{LoadableYamlNode, Yaml};
fn main() {
    let mut ok = true;
    for src in ["%FOO a\n%BAR b\n--- x\n", "%FOO a\n%FOO b\n--- x\n", "%FOO a\n%TAG !e! tag:e,2000:\n%BAR b\n--- !e!t x\n"] {
        let got = Yaml::load_from_str(src);
        println!("{src:?} -> {:?}", got.as_ref().map(|d| format!("{:?}", d)));
        ok &= got.is_ok();
    }
    let dup = Yaml::load_from_str("%TAG !e! tag:a,2000:\n%TAG !e! tag:b,2000:\n--- x\n");
    println!("a real duplicate -> {:?}", dup.as_ref().map(|_| ()));
    ok &= dup.is_err();
    println!("{}", if ok { "IGNORED" } else { "REJECTED" });
    std::process::exit(if ok { 0 } else { 1 });
}
