#!/usr/bin/env python3
"""maintenance helper: create selftest/<pid>/<name>.{diff,json} from string replacements.
usage: mkmutant.py <pid> <name> <expect-substring>[,<expect2>] <file> <<'X'
<old text>
=====
<new text>
X
(several file edits: separate blocks with a line '#####' followed by the next file path)"""
import json, os, subprocess, sys, tempfile, shutil
pid, name, expect, path = sys.argv[1:5]
spec = sys.stdin.read()
edits = []
cur = path
blocks = spec.split("\n#####")
for i, block in enumerate(blocks):
    if i > 0:
        first, _, block = block.partition("\n")
        cur = first.strip()
    old, _, new = block.partition("\n=====\n")
    edits.append((cur, old.strip("\n"), new.strip("\n")))
tmp = tempfile.mkdtemp(prefix="mkmutant-")
try:
    for sub in ("a", "b"):
        for f in {e[0] for e in edits}:
            os.makedirs(os.path.dirname(os.path.join(tmp, sub, f)), exist_ok=True)
            shutil.copy(os.path.join("/repo", f), os.path.join(tmp, sub, f))
    for f, old, new in edits:
        p = os.path.join(tmp, "b", f)
        s = open(p).read()
        if s.count(old) != 1:
            sys.exit("old text occurs %d times in %s" % (s.count(old), f))
        open(p, "w").write(s.replace(old, new))
    d = subprocess.run(["diff", "-ru", "a", "b"], cwd=tmp, stdout=subprocess.PIPE, text=True).stdout
    out = os.path.join("/verif/selftest", pid)
    os.makedirs(out, exist_ok=True)
    open(os.path.join(out, name + ".diff"), "w").write(d)
    json.dump({"property": pid, "expect": [e for e in expect.split(",") if e], "what": name.replace("_", " ")}, open(os.path.join(out, name + ".json"), "w"), indent=1)
    print("wrote", os.path.join(out, name + ".diff"), len(d.splitlines()), "lines")
finally:
    shutil.rmtree(tmp)
