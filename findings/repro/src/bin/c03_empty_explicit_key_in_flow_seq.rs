//! C03: an explicit key with no content inside a flow sequence (`[ ? : x ]`, `[ ? ]`) was rejected: the handler that reports the omitted
//! key consumed the token (':' / ',' / ']') that showed the key was omitted.
use saphyr::{LoadableYamlNode, Yaml};
fn main() {
    let mut ok = true;
    for (src, want) in [("[ ? : x ]", "Sequence([Mapping({Value(Null): Value(String(\"x\"))})])"), ("[ ? ]", "Sequence([Mapping({Value(Null): Value(Null)})])")] {
        let got = Yaml::load_from_str(src).map(|d| format!("{:?}", d[0]));
        println!("{src:?} -> {got:?}");
        ok &= got.as_deref() == Ok(want);
    }
    println!("{}", if ok { "DENOTED TREE" } else { "REJECTED OR WRONG" });
    std::process::exit(if ok { 0 } else { 1 });
}
