import re
"""E3: resolved call graph over both crates, SCCs, type graph."""
from .facts import is_local


def trait_impl_methods(F):
    """(trait path, method name) -> list of local fn keys implementing it (impls + provided default)"""
    out = {}
    for k, f in F.fns.items():
        tr = f.d.get("impl_trait")
        if tr and f.kind == "AssocFn":
            out.setdefault((tr, f.name), []).append(k)
    return out


def build(F, fanout_traits=True):
    """edges: caller key -> set(callee keys) restricted to local functions.
    Closures are attached to their defining function (edge parent -> closure)."""
    impls = trait_impl_methods(F)
    edges = {k: set() for k in F.fns}
    why = {}
    for k, f in F.fns.items():
        if f.kind == "Closure":
            p = f.d.get("closure_of")
            if p in edges:
                edges[p].add(k)
                why[(p, k)] = "defines closure"
        for bb, t, ck, fr in f.calls():
            if fr is None:
                continue
            targets = set()
            res = fr.get("resolved")
            if res and res in F.fns:
                targets.add(res)
            elif ck in F.fns and not fr.get("trait"):
                targets.add(ck)
            elif fr.get("trait") and fr["trait"] in F.traits:
                # unresolved call through a local trait: fan out to every local impl and the provided body
                if ck in F.fns:
                    targets.add(ck)
                if fanout_traits:
                    for tk in impls.get((fr["trait"], fr["name"]), []):
                        targets.add(tk)
                        # a call whose receiver type is a bare type parameter of the caller (`self.inner.on_event(..)` with inner: R)
                        # descends into a component of the caller's own type: remembered so that cycle rules can set such edges aside
                        ss = fr.get("substs") or []
                        if ss and re.fullmatch(r"[A-Z][A-Za-z0-9]*", ss[0] or "") and ss[0] != "Self":
                            why.setdefault((k, tk), "type-parameter receiver " + ss[0])
            elif ck in F.fns:
                targets.add(ck)
            for tg in targets:
                edges[k].add(tg)
                why.setdefault((k, tg), f.line_of(t["sp"]))
        # function items passed as values (fn pointers / map(f)): constants of FnDef type in operands
        for b in f.blocks:
            if b["cleanup"]:
                continue
            ops = []
            for s in b["stmts"]:
                if s["k"] == "assign":
                    from .cfg import rv_operands
                    ops.extend(rv_operands(s["rv"]))
            if b["term"]["k"] == "call":
                ops.extend(b["term"]["args"])
            for o in ops:
                c = o.get("const")
                if c and "fn" in c:
                    tg = c["fn"].get("resolved") or c["fn"]["key"]
                    if tg in F.fns:
                        edges[k].add(tg)
                        why.setdefault((k, tg), "fn item as value")
    return edges, why


def sccs(edges):
    """Tarjan; returns list of components (lists) that are cycles (size>1 or self-loop)"""
    index = {}
    low = {}
    onstack = set()
    stack = []
    out = []
    counter = [0]
    import sys
    sys.setrecursionlimit(10000)

    def strong(v):
        index[v] = low[v] = counter[0]
        counter[0] += 1
        stack.append(v)
        onstack.add(v)
        for w in edges.get(v, ()):
            if w not in index:
                strong(w)
                low[v] = min(low[v], low[w])
            elif w in onstack:
                low[v] = min(low[v], index[w])
        if low[v] == index[v]:
            comp = []
            while True:
                w = stack.pop()
                onstack.discard(w)
                comp.append(w)
                if w == v:
                    break
            if len(comp) > 1 or v in edges.get(v, ()):
                out.append(sorted(comp))
    for v in list(edges):
        if v not in index:
            strong(v)
    return sorted(out)


def reachable(edges, roots):
    seen = set()
    st = list(roots)
    while st:
        v = st.pop()
        if v in seen:
            continue
        seen.add(v)
        st.extend(edges.get(v, ()))
    return seen


def type_graph(F):
    """local ADT -> set of local ADTs occurring in its field types (through any generic argument)"""
    g = {}
    for p, a in F.adts.items():
        s = set()
        for v in a["variants"]:
            for f in v["fields"]:
                for x in f["adts"]:
                    if x in F.adts:
                        s.add(x)
        g[p] = s
    return g
