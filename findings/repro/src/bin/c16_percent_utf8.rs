//! C16: a tag suffix is reported percent-decoded.  A multi-byte UTF-8 sequence written as consecutive escapes (%C3%A9 = U+00E9) was decoded
//! by concatenating the raw bytes (0xC3A9 = U+C3A9) instead of by UTF-8; 3- and 4-byte sequences gave an invalid code point (error).
use saphyr_parser::{Event, Parser};
fn tag_of(src: &str) -> Result<String, String> {
    for ev in Parser::new_from_str(src) {
        match ev {
            Ok((Event::Scalar(_, _, _, Some(tag)), _)) => return Ok(format!("{}{}", tag.handle, tag.suffix)),
            Err(e) => return Err(e.to_string()),
            _ => {}
        }
    }
    Err("no tagged scalar".into())
}
fn main() {
    let mut ok = true;
    for (src, want) in [
        ("!e%41 x", "!eA"),
        ("!e%7E x", "!e~"),
        ("!e%C3%A9 x", "!e\u{e9}"),
        ("!e%E2%82%AC x", "!e\u{20ac}"),
        ("!e%F0%9F%98%80 x", "!e\u{1F600}"),
    ] {
        let got = tag_of(src);
        println!("{src:?} -> {got:?} (want {want:?})");
        ok &= got.as_deref() == Ok(want);
    }
    println!("{}", if ok { "PERCENT-DECODED" } else { "WRONG CHARACTER" });
    std::process::exit(if ok { 0 } else { 1 });
}
