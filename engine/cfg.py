"""E2: CFG queries on one MIR body; E6 helpers (field writes)."""
from .facts import is_local, op_place, op_const, const_value


def place_fields(p):
    """names of the field projections of a place, outermost first: (*_1).mark.index -> ['mark','index']"""
    return [e["n"] for e in p["p"] if e["k"] == "field"]


def place_field_owners(p):
    return [(e["of"], e["n"]) for e in p["p"] if e["k"] == "field"]


def touches_field(p, owner, name):
    for e in p["p"]:
        if e["k"] == "field" and e["n"] == name and e["of"] == owner:
            return True
    return False


def stmts(fn, include_cleanup=False):
    """yields (bb, idx, stmt) for assign/setdiscr statements"""
    for bi, b in enumerate(fn.blocks):
        if b["cleanup"] and not include_cleanup:
            continue
        for si, s in enumerate(b["stmts"]):
            if s["k"] in ("assign", "setdiscr"):
                yield bi, si, s


def rv_operands(rv):
    k = rv["k"]
    if k in ("use", "un", "cast", "repeat", "wrapbinder"):
        return [rv["a"]]
    if k == "bin":
        return [rv["a"], rv["b"]]
    if k == "agg":
        return list(rv["ops"])
    return []


def rv_places(rv):
    """places read or borrowed by an rvalue"""
    out = []
    for o in rv_operands(rv):
        p = op_place(o)
        if p is not None:
            out.append(p)
    if rv["k"] in ("ref", "rawptr", "discr", "copyforderef", "len"):
        out.append(rv["p"])
    return out


def defs_of_local(fn, l, include_cleanup=False):
    """all sites that (re)define the whole local l: ('stmt', bb, idx, stmt) / ('call', bb, term)"""
    if not include_cleanup:
        idx = getattr(fn, "_defs_index", None)
        if idx is None:
            idx = {}
            for bi, b in enumerate(fn.blocks):
                if b["cleanup"]:
                    continue
                for si, s in enumerate(b["stmts"]):
                    if s["k"] == "assign" and not s["lhs"]["p"]:
                        idx.setdefault(s["lhs"]["l"], []).append(("stmt", bi, si, s))
                t = b["term"]
                if t["k"] == "call" and not t["dest"]["p"]:
                    idx.setdefault(t["dest"]["l"], []).append(("call", bi, t))
            fn._defs_index = idx
        return idx.get(l, [])
    out = []
    for bi, b in enumerate(fn.blocks):
        if b["cleanup"] and not include_cleanup:
            continue
        for si, s in enumerate(b["stmts"]):
            if s["k"] == "assign" and s["lhs"]["l"] == l and not s["lhs"]["p"]:
                out.append(("stmt", bi, si, s))
        t = b["term"]
        if t["k"] == "call" and t["dest"]["l"] == l and not t["dest"]["p"]:
            out.append(("call", bi, t))
    return out


def single_def(fn, l):
    d = defs_of_local(fn, l)
    return d[0] if len(d) == 1 else None


def resolve_copy_chain(fn, l, depth=12):
    """follow `_a = move _b` / `_a = copy _b` single-def chains back to the origin local"""
    seen = []
    while depth > 0:
        depth -= 1
        d = single_def(fn, l)
        if d is None or d[0] != "stmt":
            return l
        rv = d[3]["rv"]
        if rv["k"] == "use":
            src = is_local(rv["a"])
            if src is None:
                return l
            l = src
            continue
        return l
    return l


def origin(fn, l, depth=16):
    """Describe where the value of local l comes from, looking through moves/copies/reborrows.
    Returns a tuple: ('call', bb, term) | ('const', const) | ('rv', bb, idx, stmt) | ('param', l) | ('multi', l)"""
    while depth > 0:
        depth -= 1
        if 1 <= l <= fn.arg_count and not defs_of_local(fn, l):
            return ("param", l)
        d = defs_of_local(fn, l)
        if len(d) != 1:
            return ("multi", l)
        d = d[0]
        if d[0] == "call":
            return ("call", d[1], d[2])
        rv = d[3]["rv"]
        if rv["k"] == "use":
            c = op_const(rv["a"])
            if c is not None:
                return ("const", c)
            src = is_local(rv["a"])
            if src is not None:
                l = src
                continue
            return ("rv", d[1], d[2], d[3])
        if rv["k"] in ("ref", "copyforderef") and rv["p"]["p"] == [{"k": "deref"}]:
            # reborrow &(*_x) / &mut (*_x)
            l = rv["p"]["l"]
            continue
        if rv["k"] == "ref" and not rv["p"]["p"]:
            return ("refof", rv["p"]["l"], d[1], d[2], d[3])
        return ("rv", d[1], d[2], d[3])
    return ("multi", l)


def err_sink_blocks(fn):
    """blocks that make the function's result an Err: `_0 = Result::Err{..}` or
    `_0 = FromResidual::from_residual(..)`"""
    out = set()
    for bi, b in enumerate(fn.blocks):
        if b["cleanup"]:
            continue
        for s in b["stmts"]:
            if s["k"] == "assign" and s["lhs"]["l"] == 0 and not s["lhs"]["p"]:
                rv = s["rv"]
                if rv["k"] == "agg" and rv.get("agg") == "adt" and rv["adt"].endswith("result::Result") and rv["variant"] == "Err":
                    out.add(bi)
        t = b["term"]
        if t["k"] == "call" and t["dest"]["l"] == 0 and not t["dest"]["p"]:
            f = t["f"].get("fn")
            if f and f["key"].endswith("FromResidual::from_residual"):
                out.add(bi)
    # a helper spliced in by engine/normalize.py: its `return Err(..)` assigns the spliced return place; when the call's result is
    # propagated with `?` (or is the caller's own result) that assignment makes the caller's result an Err as well
    for rec in fn.d.get("inlined", []):
        dest, cont = rec["dest"], rec["cont"]
        propagated = dest["l"] == 0 and not dest["p"]
        if not propagated and cont is not None and not dest["p"]:
            ct = fn.blocks[cont]["term"]
            if ct["k"] == "call" and (ct["f"].get("fn") or {}).get("key", "").endswith("Try::branch") and is_local(ct["args"][0]) == dest["l"]:
                propagated = True
        if not propagated:
            continue
        for bi in range(rec["first_block"], rec["first_block"] + rec["blocks"]):
            b = fn.blocks[bi]
            if b["cleanup"]:
                continue
            for s in b["stmts"]:
                if s["k"] == "assign" and s["lhs"]["l"] == rec["ret"] and not s["lhs"]["p"]:
                    rv = s["rv"]
                    if rv["k"] == "agg" and rv.get("agg") == "adt" and rv["adt"].endswith("result::Result") and rv["variant"] == "Err":
                        out.add(bi)
            t = b["term"]
            if t["k"] == "call" and t["dest"]["l"] == rec["ret"] and not t["dest"]["p"]:
                f = t["f"].get("fn")
                if f and f["key"].endswith("FromResidual::from_residual"):
                    out.add(bi)
    return out


def return_blocks(fn):
    return [i for i, b in enumerate(fn.blocks) if not b["cleanup"] and b["term"]["k"] == "return"]


def diverging_blocks(fn):
    """blocks ending in a call that never returns (panic) or `unreachable`"""
    out = set()
    for i, b in enumerate(fn.blocks):
        if b["cleanup"]:
            continue
        t = b["term"]
        if t["k"] == "unreachable" or (t["k"] == "call" and t["t"] is None):
            out.add(i)
    return out


def path_avoiding(fn, start_blocks, avoid, goals):
    """Is there a CFG path from any of start_blocks (their successors are explored; the start block itself
    is assumed already 'after the site') to a block in goals that does not enter a block in `avoid`?
    Returns the path (list of blocks) or None."""
    goals = set(goals)
    avoid = set(avoid)
    from collections import deque
    q = deque()
    parent = {}
    for s in start_blocks:
        for n in fn.succs(s):
            if n in avoid or n in parent:
                continue
            parent[n] = s
            q.append(n)
    for s in start_blocks:
        parent.setdefault(s, None)
    while q:
        n = q.popleft()
        if n in goals:
            path = [n]
            while parent.get(path[-1]) is not None and len(path) < 500:
                path.append(parent[path[-1]])
            return list(reversed(path))
        for m in fn.succs(n):
            if m in avoid or m in parent:
                continue
            parent[m] = n
            q.append(m)
    return None


def blocks_reachable_from(fn, starts, avoid=()):
    avoid = set(avoid)
    seen = set()
    st = list(starts)
    while st:
        b = st.pop()
        if b in seen or b in avoid:
            continue
        seen.add(b)
        st.extend(fn.succs(b))
    return seen


def switch_edge_blocks(fn, bb):
    """for a switch terminator: dict value->target plus 'otherwise'"""
    t = fn.blocks[bb]["term"]
    assert t["k"] == "switch"
    m = {v: tg for v, tg in zip(t["vals"], t["targets"])}
    return m, t["otherwise"]


def dominated_by_edge(fn, site_bb, from_bb, to_bb):
    """site_bb can only be reached (from entry) through the CFG edge from_bb->to_bb."""
    # remove the edge and test reachability
    seen = {0}
    st = [0]
    if site_bb == 0:
        return False
    while st:
        b = st.pop()
        for s in fn.succs(b):
            if b == from_bb and s == to_bb:
                continue
            if s not in seen:
                if s == site_bb:
                    return False
                seen.add(s)
                st.append(s)
    return True


def field_writes(fn, owner, name, include_cleanup=False):
    """Sites in fn that write (a sub-place of) field owner.name: direct assignments, and &mut borrows of it
    (with the call the borrow is passed to, if any).  Returns list of dicts."""
    out = []
    for bi, b in enumerate(fn.blocks):
        if b["cleanup"] and not include_cleanup:
            continue
        for si, s in enumerate(b["stmts"]):
            if s["k"] == "assign":
                if touches_field(s["lhs"], owner, name):
                    out.append({"kind": "assign", "bb": bi, "idx": si, "stmt": s, "sp": s["sp"]})
                rv = s["rv"]
                if rv["k"] in ("ref", "rawptr") and rv.get("mut", rv["k"] == "rawptr") and touches_field(rv["p"], owner, name):
                    use = borrow_use(fn, s["lhs"]["l"]) if not s["lhs"]["p"] else None
                    out.append({"kind": "borrow_mut", "bb": bi, "idx": si, "stmt": s, "sp": s["sp"], "use": use})
            elif s["k"] == "setdiscr" and touches_field(s["lhs"], owner, name):
                out.append({"kind": "assign", "bb": bi, "idx": si, "stmt": s, "sp": None})
        t = b["term"]
        if t["k"] == "call" and touches_field(t["dest"], owner, name):
            out.append({"kind": "call_dest", "bb": bi, "term": t, "sp": t["sp"]})
        if t["k"] == "drop" and touches_field(t["p"], owner, name):
            pass  # drop before overwrite; the overwrite itself is reported
    return out


def borrow_use(fn, l, depth=6):
    """the call (key, argument position) a borrow local ends up in, following reborrows/moves"""
    cur = {l}
    for _ in range(depth):
        nxt = set()
        for bi, b in enumerate(fn.blocks):
            if b["cleanup"]:
                continue
            for s in b["stmts"]:
                if s["k"] != "assign" or s["lhs"]["p"]:
                    continue
                rv = s["rv"]
                if rv["k"] == "use" and is_local(rv["a"]) in cur:
                    nxt.add(s["lhs"]["l"])
                if rv["k"] in ("ref", "copyforderef") and rv["p"]["l"] in cur and rv["p"]["p"] == [{"k": "deref"}]:
                    nxt.add(s["lhs"]["l"])
            t = b["term"]
            if t["k"] == "call":
                for ai, a in enumerate(t["args"]):
                    if is_local(a) in cur:
                        f = t["f"].get("fn")
                        return {"callee": f["key"] if f else None, "resolved": f.get("resolved") if f else None, "arg": ai, "bb": bi,
                                "sp": t["sp"]}
        if not nxt - cur:
            break
        cur |= nxt
    return None


# ------------------------------------------------------------------------------------------------
# symbolic expression of a value (def-use chains through single-definition temporaries)

def place_expr(fn, p, depth=10):
    """('param', i) | ('local', l) roots with a projection trail: ('place', root_expr, [proj...])
    proj entries: 'deref', ('field', name), ('downcast', variant), ('index', expr)"""
    trail = []
    for e in p["p"]:
        if e["k"] == "deref":
            trail.append("deref")
        elif e["k"] == "field":
            trail.append(("field", e["n"]))
        elif e["k"] == "downcast":
            trail.append(("downcast", e["v"]))
        elif e["k"] == "index":
            trail.append(("index", expr_local(fn, e["l"], depth - 1)))
        else:
            trail.append((e["k"],))
    root = expr_local(fn, p["l"], depth - 1) if trail else None
    if not trail:
        return expr_local(fn, p["l"], depth)
    # flatten nested places
    if root[0] == "place":
        return ("place", root[1], root[2] + trail)
    if root[0] == "ref" and trail and trail[0] == "deref":
        inner = root[1]
        rest = trail[1:]
        if not rest:
            return inner
        if inner[0] == "place":
            return ("place", inner[1], inner[2] + rest)
        return ("place", inner, rest)
    return ("place", root, trail)


def expr_operand(fn, op, depth=10):
    c = op_const(op)
    if c is not None:
        if "fn" in c:
            return ("fnitem", c["fn"].get("resolved") or c["fn"]["key"])
        v = const_value(c)
        return ("const", v if v is not None else ("opaque", c.get("ty")))
    p = op_place(op)
    if p is None:
        return ("unknown",)
    return place_expr(fn, p, depth)


def expr_local(fn, l, depth=10):
    if depth <= 0:
        return ("local", l)
    ds = defs_of_local(fn, l)
    if not ds:
        if 1 <= l <= fn.arg_count:
            return ("param", l)
        return ("local", l)
    if len(ds) != 1:
        return ("phi", l)
    d = ds[0]
    if d[0] == "call":
        t = d[2]
        f = t["f"].get("fn")
        key = (f.get("resolved") or f["key"]) if f else None
        return ("call", key, tuple(expr_operand(fn, a, depth - 1) for a in t["args"]), d[1])
    rv = d[3]["rv"]
    k = rv["k"]
    if k == "use":
        return expr_operand(fn, rv["a"], depth)
    if k in ("ref", "rawptr"):
        return ("ref", place_expr(fn, rv["p"], depth - 1))
    if k == "copyforderef":
        return place_expr(fn, rv["p"], depth)
    if k == "bin":
        return ("bin", rv["op"], expr_operand(fn, rv["a"], depth - 1), expr_operand(fn, rv["b"], depth - 1))
    if k == "un":
        return ("un", rv["op"], expr_operand(fn, rv["a"], depth - 1))
    if k == "cast":
        return ("cast", rv["ty"], expr_operand(fn, rv["a"], depth - 1))
    if k == "discr":
        return ("discr", place_expr(fn, rv["p"], depth - 1))
    if k == "agg":
        if rv["agg"] == "adt":
            return ("adt", rv["adt"], rv["variant"], tuple(expr_operand(fn, o, depth - 1) for o in rv["ops"]))
        if rv["agg"] == "closure":
            return ("closure", rv["def"], tuple(expr_operand(fn, o, depth - 1) for o in rv["ops"]))
        return ("agg", rv["agg"], tuple(expr_operand(fn, o, depth - 1) for o in rv["ops"]))
    return ("rv", k)


def expr_fields(e):
    """if e is a place rooted at param 1 (self): the list of field names, else None"""
    if e[0] == "place" and e[1] == ("param", 1):
        return [x[1] for x in e[2] if isinstance(x, tuple) and x[0] == "field"]
    return None


def self_field_of_switch(fn, bb):
    """if the switch at bb tests a value loaded from self.<field...>, return the field list"""
    t = fn.blocks[bb]["term"]
    if t["k"] != "switch":
        return None
    e = expr_operand(fn, t["discr"])
    return expr_fields(e)


def expr_str(e):
    k = e[0]
    if k == "const":
        return repr(e[1])
    if k == "param":
        return "arg%d" % e[1]
    if k == "local":
        return "_%d" % e[1]
    if k == "phi":
        return "phi(_%d)" % e[1]
    if k == "place":
        s = expr_str(e[1])
        for x in e[2]:
            if x == "deref":
                s = "*" + s
            elif x[0] == "field":
                s += "." + x[1]
            elif x[0] == "downcast":
                s += " as " + x[1]
            elif x[0] == "index":
                s += "[" + expr_str(x[1]) + "]"
        return s
    if k == "ref":
        return "&" + expr_str(e[1])
    if k == "bin":
        return "%s(%s, %s)" % (e[1], expr_str(e[2]), expr_str(e[3]))
    if k == "un":
        return "%s(%s)" % (e[1], expr_str(e[2]))
    if k == "cast":
        return "(%s as %s)" % (expr_str(e[2]), e[1])
    if k == "discr":
        return "discr(%s)" % expr_str(e[1])
    if k == "call":
        return "%s(%s)" % (e[1], ", ".join(expr_str(a) for a in e[2]))
    if k == "adt":
        return "%s::%s(%s)" % (e[1].split("::")[-1], e[2], ", ".join(expr_str(a) for a in e[3]))
    if k == "agg":
        return "%s(%s)" % (e[1], ", ".join(expr_str(a) for a in e[2]))
    if k == "closure":
        return "closure %s[%s]" % (e[1], ", ".join(expr_str(a) for a in e[2]))
    return str(e)


# ------------------------------------------------------------------------------------------------
# flag-sensitive reachability: follows constant booleans/integers through the phi-like temporaries
# that `matches!`, `&&`, `||` and drop flags create, so that infeasible paths are not reported.

def _step_env(fn, bb, env):
    env = dict(env)
    for s in fn.blocks[bb]["stmts"]:
        if s["k"] != "assign" or s["lhs"]["p"]:
            if s["k"] == "assign" and s["lhs"]["l"] in env and s["lhs"]["p"]:
                env.pop(s["lhs"]["l"], None)
            continue
        l = s["lhs"]["l"]
        rv = s["rv"]
        v = None
        if rv["k"] == "use":
            c = op_const(rv["a"])
            if c is not None:
                cv = const_value(c)
                if isinstance(cv, (bool, int)):
                    v = int(cv)
            else:
                src = is_local(rv["a"])
                if src is not None and src in env:
                    v = env[src]
        elif rv["k"] == "un" and rv["op"] == "Not":
            src = is_local(rv["a"])
            if src is not None and src in env and env[src] in (0, 1) and fn.local_ty(l) == "bool":
                v = 1 - env[src]
        if v is None:
            env.pop(l, None)
        else:
            env[l] = v
    t = fn.blocks[bb]["term"]
    if t["k"] == "call" and not t["dest"]["p"]:
        env.pop(t["dest"]["l"], None)
    return env


def _succs_env(fn, bb, env):
    t = fn.blocks[bb]["term"]
    if t["k"] == "switch":
        l = is_local(t["discr"])
        if l is not None and l in env:
            v = env[l]
            for val, tg in zip(t["vals"], t["targets"]):
                if val == v:
                    return [tg]
            return [t["otherwise"]]
    return fn.succs(bb)


def flag_reach(fn, start_bb, goals, avoid=(), init_env=None, skip_start_stmts=False):
    """Find a path from start_bb (its statements executed unless skip_start_stmts) to a goal block that never
    enters a block of `avoid`, honouring constant flags.  Returns list of blocks or None."""
    goals = set(goals)
    avoid = set(avoid)
    env0 = dict(init_env or {})
    if not skip_start_stmts:
        env0 = _step_env(fn, start_bb, env0)
    start = (start_bb, tuple(sorted(env0.items())))
    parent = {start: None}
    from collections import deque
    q = deque([start])
    while q:
        st = q.popleft()
        bb, envt = st
        if bb in goals and st != start:
            path = []
            c = st
            while c is not None:
                path.append(c[0])
                c = parent[c]
            return list(reversed(path))
        env = dict(envt)
        for n in _succs_env(fn, bb, env):
            if n in avoid or fn.blocks[n]["cleanup"]:
                continue
            e2 = _step_env(fn, n, env)
            ns = (n, tuple(sorted(e2.items())))
            if ns not in parent:
                parent[ns] = st
                q.append(ns)
    if start_bb in goals and False:
        return [start_bb]
    return None


def flag_reachable_blocks(fn, start_bb, avoid=(), init_env=None):
    avoid = set(avoid)
    env0 = _step_env(fn, start_bb, dict(init_env or {}))
    start = (start_bb, tuple(sorted(env0.items())))
    seen = {start}
    st = [start]
    out = {start_bb}
    while st:
        bb, envt = st.pop()
        env = dict(envt)
        for n in _succs_env(fn, bb, env):
            if n in avoid or fn.blocks[n]["cleanup"]:
                continue
            e2 = _step_env(fn, n, env)
            ns = (n, tuple(sorted(e2.items())))
            if ns not in seen:
                seen.add(ns)
                out.add(n)
                st.append(ns)
    return out


def strip_reborrow(e):
    """&*x -> x (repeatedly)"""
    while True:
        if e[0] == "ref" and e[1][0] == "place" and e[1][2] == ["deref"]:
            e = e[1][1]
            continue
        return e


def borrowed_local(fn, op, depth=8):
    """if the operand is (a reborrow/move chain of) `&local` or `&mut local`: that local, else None"""
    l = is_local(op)
    while l is not None and depth > 0:
        depth -= 1
        ds = defs_of_local(fn, l)
        if len(ds) != 1 or ds[0][0] != "stmt":
            return None
        rv = ds[0][3]["rv"]
        if rv["k"] == "use":
            l = is_local(rv["a"])
            continue
        if rv["k"] == "ref":
            if not rv["p"]["p"]:
                return rv["p"]["l"]
            if rv["p"]["p"] == [{"k": "deref"}]:
                l = rv["p"]["l"]
                continue
        return None
    return None


def escapes(fn, start_bb, must_blocks, avoid=()):
    """a path from start_bb to a return that passes none of must_blocks (flag-sensitive, Err sinks/`avoid` excluded); None if every
    returning path passes one of them"""
    must = set(must_blocks)
    if start_bb in must:
        return None
    return flag_reach(fn, start_bb, return_blocks(fn), avoid=must | set(avoid))


def escapes_without_edges(fn, start_bb, must_blocks, forbidden_edges=(), avoid=()):
    """like `escapes`, but the search may not traverse the CFG edges in forbidden_edges (pairs (from_bb, to_bb)); used for
    'every path passes S or takes edge E' obligations"""
    must = set(must_blocks) | set(avoid)
    forb = set(forbidden_edges)
    if start_bb in must:
        return None
    rets = set(return_blocks(fn))
    seen = {start_bb}
    st = [(start_bb, [start_bb])]
    while st:
        b, path = st.pop()
        if b in rets:
            return path
        for n in fn.succs(b):
            if (b, n) in forb or n in must or n in seen or fn.blocks[n]["cleanup"]:
                continue
            seen.add(n)
            st.append((n, path + [n]))
    return None
