"""Shared use of E1 pass B (character-class window): runs the pass and evaluates the class obligations that several packs cite."""
from .common import *
from engine import e1b
from . import C01

S = SCANNER + "::"


def run(F, B):
    return e1b.run_pass_b(F, B, C01.LEMMAS, C01.scanner_entries(F))


def contract_sites(rep, F, E, B, rule="class-pass-contract"):
    """pass B re-establishes the look-ahead discipline (it refines pass A, so it must agree)"""
    bad = [(k, v) for k, v in E.sites.items() if v["bad"]]
    for (fk, bb), s in bad:
        f = F.fns[fk]
        rep.bad(rule, "%s:%s@B=%d" % (short(fk), s["prim"], B), s["bad"][0]["what"], site=site(f, f.blocks[bb]["term"]["sp"]))
    return not bad


def entry_windows(E, fnkey):
    return [(win, args) for (k, lb, ub, win, args, fl) in E.memo if k == fnkey]


def break_discipline(rep, F, E, B, rule):
    """skip_nl / skip_break / read_break only with a break at the cursor; skip_blank / skip_non_blank / skip_n_non_blank(k) never with a
    break among the characters they consume, except the CR of a recognised CR LF pair"""
    A = E.A
    CRm, LFm = A.mask([13]), A.mask([10])
    n = 0
    for fn in ("skip_nl", "skip_break", "read_break"):
        ws = entry_windows(E, S + fn)
        n += len(ws)
        off = sorted({A.show(w[0] & ~E.BRK) for w, a in ws if w[0] & ~E.BRK})
        rep.check(not off and ws, rule, "%s@B=%d" % (fn, B), "%s (which counts a line) can be entered with a cursor character that is not a line break: %s"
                  % (fn, ", ".join(off[:3])), site=F.fns[S + fn].span, detail={"contexts": len(ws)})
    for fn in ("skip_blank", "skip_non_blank", "skip_n_non_blank"):
        ws = entry_windows(E, S + fn)
        n += len(ws)
        off = []
        for w, a in ws:
            cnt = 1
            if fn == "skip_n_non_blank":
                cnt = a[1][1] if len(a) > 1 and a[1] is not None and a[1][0] == "i" else 8
            for i in range(min(cnt, e1b.W)):
                if w[i] & E.BRK:
                    if fn == "skip_blank" and i == 0 and w[0] == CRm and w[1] == LFm:
                        continue
                    off.append("position %d may be %s" % (i, A.show(w[i] & E.BRK)))
        rep.check(not off and ws, rule, "%s@B=%d" % (fn, B), "%s (which advances the column, not the line) can consume a line break: %s" % (fn, "; ".join(sorted(set(off))[:3])),
                  site=F.fns[S + fn].span, detail={"contexts": len(ws)})
    return n


def plain_scalar_precondition(rep, F, E, B, rule):
    A = E.A
    k = INPUT + "::next_can_be_plain_scalar"
    ws = entry_windows(E, k)
    off = sorted({A.show(w[0] & E.BLANKZ) for w, a in ws if w[0] & E.BLANKZ})
    rep.check(not off and ws, rule, "next_can_be_plain_scalar@B=%d" % B,
              "next_can_be_plain_scalar (StrInput indexes the first byte without an emptiness test) can be called with a blank, break or end-of-input cursor: %s" % ", ".join(off),
              site=F.fns[k].span, detail={"contexts": len(ws)})
    return len(ws)


def cursor_pushes(rep, F, E, B, rule, forbid_mask, what):
    """every cursor character pushed into a String excludes `forbid_mask`"""
    A = E.A
    n = 0
    for (fk, bb), r in sorted(E.pushes.items()):
        if not r["mask"]:
            continue
        n += 1
        f = F.fns[fk]
        badm = r["mask"] & forbid_mask
        rep.check(not badm, rule, "%s:push@B=%d" % (short(fk), B), "a cursor character that may be %s is pushed into scalar/tag text: %s" % (A.show(badm), what),
                  site=site(f, f.blocks[bb]["term"]["sp"]), detail={"class": A.show(r["mask"])})
    return n
