"""C16 — tags resolve through the directives in force for their document.

Clauses decided: (a) directive accumulation: no membership test on a container that is provably empty at
that point, no accumulator re-initialised inside the loop that fills it and publishes it; (b) resolve_tag:
`!!` resolves through tags["!!"] else the constant tag:yaml.org,2002:, an undeclared `!name!` handle reaches
Err, the suffix is returned unchanged; (c) Parser.tags is written only by parser_process_directives and by
document_end's clear() under !keep_tags; (d) percent-decoding of tag text is UTF-8 decoding (rules/uridecode.py).
"""
from .common import *
from engine import tables
from engine.facts import is_local, op_const, const_value, op_place

PID = "C16"
CONTAINER_TYPES = ("std::collections::HashMap<", "std::collections::BTreeMap<", "std::collections::HashSet<", "std::collections::BTreeSet<",
                   "std::vec::Vec<", "hashlink::LinkedHashMap<", "std::collections::VecDeque<")
EMPTY_CTORS = ("::new", "::default", "::with_capacity")
MEMBERSHIP = ("::contains_key", "::contains", "::get", "::get_mut", "::iter", "::is_empty", "::len", "::first", "::last")


def new_report(tier):
    return make_report(PID, tier, "proof", [
        "a container obtained from new()/default()/with_capacity() is empty until a &mut borrow of it is handed out",
        "HashMap::get returns None exactly for absent keys (std)",
    ], "E2 forward data-flow of container emptiness over every function of both crates (membership tests on provably empty "
       "containers; accumulators constructed inside the loop that fills and publishes them); E4 constants and guard=>Err "
       "dominance in resolve_tag; E6 writer inventory of Parser.tags; E8 table of one round of scan_uri_escapes (256 bytes x pending count) against UTF-8.")


def container_locals(f):
    return [i for i, l in enumerate(f.locals) if l["ty"].startswith(CONTAINER_TYPES)]


def emptiness_flow(f, l):
    """state per block entry: 0 = unknown/not constructed, 1 = EMPTY (constructed, never mutably borrowed), 2 = maybe non-empty.
    returns (dict bb->state_in, list of events)"""
    def transfer(bb, st):
        for s in f.blocks[bb]["stmts"]:
            if s["k"] != "assign":
                continue
            rv = s["rv"]
            if s["lhs"]["l"] == l and not s["lhs"]["p"]:
                st = 2  # assigned from something else (move of another container)
            if rv["k"] in ("ref", "rawptr") and rv["p"]["l"] == l and rv.get("mut", True):
                st = 2
            for o in cfg.rv_operands(rv):
                p = op_place(o)
                if p is not None and p["l"] == l and "move" in o and not p["p"]:
                    st = 0  # moved out
        t = f.blocks[bb]["term"]
        if t["k"] == "call":
            if t["dest"]["l"] == l and not t["dest"]["p"]:
                fr = t["f"].get("fn")
                k = (fr.get("resolved") or fr["key"]) if fr else ""
                st = 1 if k.endswith(EMPTY_CTORS) and not t["args"] else (1 if k.endswith("::with_capacity") else 2)
            for a in t["args"]:
                p = op_place(a)
                if p is not None and p["l"] == l and "move" in a and not p["p"]:
                    st = 0
        return st
    state_in = {0: 0}
    work = [0]
    while work:
        b = work.pop()
        out = transfer(b, state_in[b])
        for s in f.succs(b):
            if f.blocks[s]["cleanup"]:
                continue
            new = max(state_in.get(s, -1), out) if s in state_in else out
            # join: EMPTY only if all predecessors say EMPTY; 0 (unconstructed) joins as identity with 1
            if s in state_in:
                a, c = state_in[s], out
                new = 2 if 2 in (a, c) else max(a, c)
            if state_in.get(s) != new:
                state_in[s] = new
                work.append(s)
    return state_in, transfer


def run(tier):
    rep = new_report(tier)
    F = facts.load()

    # (a1) vacuous membership tests, both crates
    n_tests = 0
    n_containers = 0
    for k, f in sorted(F.fns.items()):
        for l in container_locals(f):
            n_containers += 1
            state_in, transfer = emptiness_flow(f, l)
            for bb, t, ck, fr in f.calls():
                key = (fr.get("resolved") or ck) if fr else ck
                if not key or not key.endswith(("::contains_key", "::contains", "::get")):
                    continue
                if not t["args"]:
                    continue
                if cfg.borrowed_local(f, t["args"][0]) != l:
                    continue
                n_tests += 1
                if bb not in state_in:
                    continue
                # state at the call = transfer of the statements of this block (the shared borrow does not change it)
                st = transfer(bb, state_in[bb]) if False else _state_before_term(f, bb, l, state_in[bb])
                name = f.local_name(l) or "_%d" % l
                rep.check(st != 1, "vacuous-membership", "%s:%s.%s" % (short(k), name, key.split("::")[-1]),
                          "membership test on a container that is always empty at this point (constructed on every path to here and "
                          "never filled): the check can never succeed", site=site(f, t["sp"]))
    rep.extra["container_locals"] = n_containers
    rep.extra["membership_tests_on_local_containers"] = n_tests
    rep.floor("local containers analysed", n_containers, 20)
    rep.floor("membership tests on local containers", n_tests, 1)

    # (a2) accumulator constructed inside the loop that fills it and publishes it to self
    ppd = F.fn(PARSER + "::parser_process_directives")
    n_acc = 0
    for k, f in sorted(F.fns.items()):
        loops = f.natural_loops()
        if not loops:
            continue
        for l in container_locals(f):
            ctor_bbs = [d[1] for d in cfg.defs_of_local(f, l) if d[0] == "call" and ((d[2]["f"].get("fn") or {}).get("key", "")).endswith(EMPTY_CTORS)]
            if not ctor_bbs:
                continue
            fills = []
            for bi, si, s in cfg.stmts(f):
                rv = s["rv"] if s["k"] == "assign" else None
                if rv and rv["k"] == "ref" and rv["mut"] and rv["p"]["l"] == l and not rv["p"]["p"]:
                    u = cfg.borrow_use(f, s["lhs"]["l"])
                    if u and u["callee"] and u["callee"].endswith(("::insert", "::push", "::push_back", "::extend", "::entry")):
                        fills.append(bi)
            publishes = []
            for bi, si, s in cfg.stmts(f):
                if s["k"] == "assign" and s["lhs"]["p"] and s["lhs"]["l"] == 1 and cfg.place_fields(s["lhs"]):
                    src = s["rv"].get("a") if s["rv"]["k"] == "use" else None
                    if src is not None and "move" in src and cfg.resolve_copy_chain(f, src["move"]["l"]) == l:
                        publishes.append((bi, cfg.place_fields(s["lhs"])))
            if not fills or not publishes:
                continue
            n_acc += 1
            name = f.local_name(l) or "_%d" % l
            for h, body in loops:
                inside = [c for c in ctor_bbs if c in body] and [x for x in fills if x in body] and [p for p, _ in publishes if p in body]
                rep.check(not inside, "accumulator-reset-in-loop", "%s:%s" % (short(k), name),
                          "a container is re-created empty, filled and stored into self.%s inside the same loop iteration: each pass "
                          "overwrites what earlier passes collected" % ".".join(publishes[0][1]), site=f.span)
    rep.extra["published_accumulators"] = n_acc
    # parser_process_directives must be among the analysed accumulators (its map is what becomes Parser.tags)
    tags_pub = [1 for bi, si, s in cfg.stmts(ppd) if s["k"] == "assign" and cfg.touches_field(s["lhs"], PARSER, "tags")]
    rep.check(bool(tags_pub), "directive-map-published", "parser_process_directives", "parser_process_directives no longer assigns Parser.tags",
              site=ppd.span)
    # the loop's duplicate test exists and is followed by Err on the true edge
    dup = [(bb, t) for bb, t, ck, fr in ppd.calls() if ck and ck.endswith("::contains_key")]
    okdup = False
    if len(dup) == 1:
        bb, t = dup[0]
        nxt = t["t"]
        tt = ppd.blocks[nxt]["term"]
        if tt["k"] == "switch":
            m, other = cfg.switch_edge_blocks(ppd, nxt)
            errs = cfg.err_sink_blocks(ppd)
            # true edge must reach an Err sink and not the insert
            r = cfg.blocks_reachable_from(ppd, [other], avoid=errs)
            okdup = not (set(cfg.return_blocks(ppd)) & r)
    rep.check(okdup, "duplicate-handle-err", "parser_process_directives", "a repeated %TAG handle no longer leads to an error", site=ppd.span)
    # a reserved (unknown) directive is ignored: if the scanner stands in for it with a TagDirective whose handle is empty, that
    # placeholder must not be taken for a declaration - the duplicate test and the insertion sit on the non-empty edge of a test of the
    # handle (otherwise two reserved directives in one document are "the same handle declared twice")
    TOK = "saphyr_parser::scanner::TokenType"
    placeholders = []
    for k2, g in sorted(F.fns.items()):
        if g.crate != "saphyr_parser" or "::test" in k2:
            continue
        for bi, si, st in cfg.stmts(g):
            if st["k"] == "assign" and st["rv"]["k"] == "agg" and st["rv"].get("adt") == TOK and st["rv"].get("variant") == "TagDirective" and st["rv"]["ops"]:
                e0 = cfg.expr_operand(g, st["rv"]["ops"][0], 6)
                es = cfg.expr_str(e0)
                if "Default>::default" in es or "::default(" in es or e0 == ("const", "") or "String::new" in es or "Cow::Borrowed('')" in es:
                    placeholders.append((k2, st["sp"]))
    rep.extra["reserved_directive_placeholders"] = len(placeholders)
    if placeholders:
        uses = [bb for bb, t, ck, fr in ppd.calls() if ck and ck.endswith(("::contains_key", "::insert")) and ck.startswith("std::collections::")]
        guarded = []
        for bb in uses:
            okg = False
            for d in ppd.dominators().get(bb, ()):
                tt = ppd.blocks[d]["term"]
                if tt["k"] != "switch" or tt["dty"] != "bool":
                    continue
                e = cfg.expr_operand(ppd, tt["discr"], 12)
                neg = False
                while e[0] == "un" and e[1] == "Not":
                    e = e[2]
                    neg = not neg
                if e[0] == "call" and e[1] and e[1].endswith("::is_empty") and "TagDirective" in cfg.expr_str(e):
                    m, other = cfg.switch_edge_blocks(ppd, d)
                    nonempty = other if neg else m.get(0)
                    if nonempty is not None and (bb == nonempty or cfg.dominated_by_edge(ppd, bb, d, nonempty)):
                        okg = True
            guarded.append(okg)
        rep.check(bool(uses) and all(guarded), "reserved-directive-not-a-handle", "parser_process_directives",
                  "the scanner stands in for a reserved directive with a %TAG token whose handle is empty, and the directive loop treats that placeholder as a "
                  "declaration: two reserved directives in one document are rejected as a handle declared twice", site=ppd.span,
                  detail={"placeholder_built_in": [short(k2) for k2, _ in placeholders]})

    # (b) resolve_tag
    rt = F.fn(PARSER + "::resolve_tag")
    consts = {s for s, _ in tables.str_constants(rt)}
    for c in F.closures_of(rt.key):
        consts |= {s for s, _ in tables.str_constants(c)}
    rep.check("!!" in consts and "tag:yaml.org,2002:" in consts, "default-secondary-handle", "resolve_tag",
              "resolve_tag no longer maps `!!` to the constant tag:yaml.org,2002: by default", site=rt.span, detail=sorted(consts))
    gets = [(bb, t) for bb, t, ck, fr in rt.calls() if ck and ck.endswith("HashMap::get")]
    rep.check(len(gets) >= 2 and all(cfg.expr_fields(_strip_ref(cfg.expr_operand(rt, t["args"][0]))) == ["tags"] for _, t in gets),
              "lookup-in-directives", "resolve_tag", "resolve_tag does not look handles up in Parser.tags", site=rt.span,
              detail=[cfg.expr_str(cfg.expr_operand(rt, t["args"][0])) for _, t in gets])
    # constant keys: only the secondary handle "!!" may be looked up by name; a lone `!` (empty handle) is the non-specific tag and
    # `!name` a local tag, neither may be resolved through the primary handle "!" (or any other declarable handle) of a %TAG directive
    for bb, t in gets:
        e = cfg.strip_reborrow(cfg.expr_operand(rt, t["args"][1], 6))
        while e[0] in ("ref",):
            e = e[1]
        while e[0] == "place" and e[2] == ["deref"]:
            e = e[1]
        if e[0] == "const" and isinstance(e[1], str):
            rep.check(e[1] == "!!" or not e[1].startswith("!"), "constant-handle-lookup", "resolve_tag:get(%r)" % e[1],
                      "resolve_tag looks up the constant handle %r in the directives: a lone `!` / local tag would take the prefix a %%TAG directive gave to that handle "
                      "instead of staying non-specific / local" % e[1], site=rt.span)
    # named handle absent => Err: an Err sink dominated by the None edge of a get(handle-param)
    errs = cfg.err_sink_blocks(rt)
    ok = False
    for bb, t in gets:
        key_e = cfg.strip_reborrow(cfg.expr_operand(rt, t["args"][1]))
        if key_e != ("param", 3):
            continue
        dl = t["dest"]["l"]
        for bi, p, adt in tables.discr_switches(rt):
            if adt == "std::option::Option" and cfg.resolve_copy_chain(rt, p["l"]) == dl:
                m, other = cfg.switch_edge_blocks(rt, bi)
                none_tg = m.get(0, other)
                for e in errs:
                    if cfg.dominated_by_edge(rt, e, bi, none_tg):
                        ok = True
    rep.check(ok and errs, "undeclared-handle-err", "resolve_tag", "an undeclared named handle no longer reaches an error", site=rt.span)
    # suffix unchanged
    n_tag = 0
    for bi, si, s in cfg.stmts(rt):
        if s["k"] == "assign" and s["rv"]["k"] == "agg" and s["rv"].get("adt", "").endswith("parser::Tag"):
            n_tag += 1
            idx = s["rv"]["fields"].index("suffix")
            e = cfg.expr_operand(rt, s["rv"]["ops"][idx])
            rep.check(e == ("param", 4), "suffix-unchanged", "resolve_tag#%d" % n_tag, "the tag suffix is not returned as given", site=site(rt, s["sp"]),
                      detail=cfg.expr_str(e))
    rep.floor("Tag constructions in resolve_tag", n_tag, 3)

    # (c) writers of Parser.tags
    writers = {}
    for k, f in F.fns.items():
        if k.startswith("saphyr_parser::"):
            ws = cfg.field_writes(f, PARSER, "tags")
            if ws:
                writers[k] = ws
    allowed = {PARSER + "::parser_process_directives", PARSER + "::document_end", PARSER + "::new"}
    for k, ws in sorted(writers.items()):
        rep.check(k in allowed, "tags-writer", short(k), "Parser.tags is written outside parser_process_directives/document_end/new", site=F.fns[k].span)
    de = F.fn(PARSER + "::document_end")
    ws = writers.get(de.key, [])
    ok = len(ws) == 1 and ws[0]["kind"] == "borrow_mut" and ws[0].get("use") and ws[0]["use"]["callee"].endswith("::clear")
    det = None
    if ok:
        ok = False
        cb = ws[0]["use"]["bb"]
        for bi, b in enumerate(de.blocks):
            if not b["cleanup"] and b["term"]["k"] == "switch" and cfg.self_field_of_switch(de, bi) == ["keep_tags"]:
                m, other = cfg.switch_edge_blocks(de, bi)
                if 0 in m and cfg.dominated_by_edge(de, cb, bi, m[0]):
                    # every accepting path of document_end either clears the handles or took the keep_tags edge
                    esc = cfg.escapes_without_edges(de, 0, {cb}, forbidden_edges={(bi, other)}, avoid=cfg.err_sink_blocks(de))
                    ok = esc is None
                    det = {"escaping_path": esc}
    rep.check(ok, "tags-reset-at-document-end", "document_end", "some accepting path of document_end leaves the tag handles in place although keep_tags is off "
              "(declarations must end with their document)", site=de.span, detail=det)
    # (d) the suffix is percent-decoded: table of one round of scan_uri_escapes (E8)
    from . import uridecode
    n = uridecode.check(rep, F)
    rep.extra["percent_decoding_cases"] = n
    # (d') '!name': what scan_tag_handle read before it turned out not to be a handle is put back in front of the suffix
    from . import taghead
    rep.floor("head lengths for which the copy of the tag head is tabulated", taghead.check(rep, F), 5)
    # (d'') the alphabets of tag text
    from . import charclass
    rep.floor("character classes compared with their productions", charclass.check(rep, F, ["is_word_char", "is_uri_char", "is_tag_char", "is_hex"]), 3)
    # ... and no '%' reaches tag text undecoded: in the functions that call the decoder, a character copied from the cursor is never '%'
    # (E1 pass B: the class window at each push site)
    from . import classdom
    EB = classdom.run(F, 16)
    pct = EB.A.mask([37])
    callers = {k for k, f in F.fns.items() if any(ck and ck.endswith("::scan_uri_escapes") for _, _, ck, _ in f.calls())}
    npush = 0
    for (fk, bb), r in sorted(EB.pushes.items()):
        if fk in callers and r["mask"]:
            npush += 1
            f = F.fns[fk]
            rep.check(not (r["mask"] & pct), "percent-through-decoder", "%s:push#%d" % (short(fk), npush),
                      "a '%' at the cursor can be copied into tag text without going through the percent-decoder", site=site(f, f.blocks[bb]["term"]["sp"]),
                      detail={"class": EB.A.show(r["mask"])})
    rep.floor("callers of the percent-decoder", len(callers), 3)
    # the fields of a %TAG directive (and a tag and its prefix) are separated by blanks, tabs included: whenever the scanners of a
    # handle, a prefix or a verbatim tag are entered the character at the cursor is neither a space nor a tab (pass B, every context)
    blankm = EB.A.mask([32, 9])
    for fn_ in ("scan_tag_handle", "scan_tag_prefix", "scan_verbatim_tag"):
        ws = classdom.entry_windows(EB, SCANNER + "::" + fn_)
        off = sorted({EB.A.show(w[0] & blankm) for w, a_ in ws if w[0] & blankm})
        rep.check(bool(ws) and not off, "field-separator-skipped", fn_, "%s can be entered with a blank still at the cursor (%s): a directive or tag whose fields are separated by "
                  "that blank is rejected or read wrongly" % (fn_, ", ".join(off) or "no context analysed"), site=F.fns[SCANNER + "::" + fn_].span, detail={"contexts": len(ws)})
    rep.floor("cursor characters copied into tag text", npush, 3)
    return rep


def _strip_ref(e):
    while e[0] == "ref":
        e = e[1]
    return e


def _state_before_term(f, bb, l, st):
    for s in f.blocks[bb]["stmts"]:
        if s["k"] != "assign":
            continue
        rv = s["rv"]
        if s["lhs"]["l"] == l and not s["lhs"]["p"]:
            st = 2
        if rv["k"] in ("ref", "rawptr") and rv["p"]["l"] == l and rv.get("mut", True):
            st = 2
    return st
