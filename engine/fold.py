"""MIR constant folder for pure, loop-free functions over chars/ints/bools (the predicates of char_traits.rs and similar).

This is constant folding of a finite pure function over an enumerated alphabet -- it derives the *table* of a predicate from its
type-checked body.  It never touches scanner/parser state; any construct outside the small supported set raises Unsupported and the
rule that needed the table fails closed.
"""
from .facts import is_local, op_const, const_value, op_place, Fn


class Unsupported(Exception):
    pass


class Diverged(Exception):
    """the folded function reached a panic/unreachable for this input"""
    pass


MAX_STEPS = 4000


def _const(c):
    v = const_value(c)
    if isinstance(v, tuple) and v[0] == "char":
        return v[1]
    if isinstance(v, bool):
        return int(v)
    if isinstance(v, int):
        return v
    if isinstance(v, str):
        return ("str", v)
    if c.get("array") is not None:
        return ("bytes", tuple(c["array"]))          # a named constant table of one-byte elements, evaluated by the compiler
    if c.get("static"):
        return ("ref", ("static", c["static"]))
    if c.get("promoted") is not None:
        return ("promoted", c["promoted"])
    if c.get("zst"):
        return ("zst",)
    raise Unsupported("constant %s" % c.get("opaque", c.get("ty")))


class Folder:
    def __init__(self, F, hooks=None):
        self.F = F
        self.cache = {}
        self.hooks = hooks or {}     # callee key -> python function(list of argument values) -> value

    def call(self, key, args):
        try:
            ck = (key, tuple(args))
            hash(ck)
        except TypeError:
            ck = None
        if ck is None:
            f = self.F.fns.get(key)
            if f is None:
                raise Unsupported("call to non-local function %s" % key)
            return self._run(f, f.d, list(args))
        if ck in self.cache:
            r = self.cache[ck]
            if isinstance(r, Exception):
                raise r
            return r
        f = self.F.fns.get(key)
        if f is None:
            raise Unsupported("call to non-local function %s" % key)
        try:
            r = self._run(f, f.d, list(args))
        except (Unsupported, Diverged) as e:
            self.cache[ck] = e
            raise
        self.cache[ck] = r
        return r

    def _run(self, f, body, args):
        env = {}
        for i, a in enumerate(args):
            env[i + 1] = a
        blocks = body["blocks"]
        bb = 0
        steps = 0
        while True:
            steps += 1
            if steps > MAX_STEPS:
                raise Unsupported("step limit (loop?) in %s" % f.key)
            blk = blocks[bb]
            for s in blk["stmts"]:
                if s["k"] == "assign":
                    v = self._rvalue(f, body, env, s["rv"])
                    self._store(env, s["lhs"], v)
                    # `_t = &mut _it` / `_t = move _u` of such a borrow: remember which local a unique borrow points at, so that
                    # Iterator::next(move _t) can step the iterator held in that local
                    if not s["lhs"]["p"]:
                        rv_ = s["rv"]
                        if rv_["k"] == "ref" and rv_.get("p") is not None and not rv_["p"]["p"]:
                            env[("borrow", s["lhs"]["l"])] = rv_["p"]["l"]
                        elif rv_["k"] == "ref" and rv_.get("p") is not None and [e_["k"] for e_ in rv_["p"]["p"]] == ["deref"] and ("borrow", rv_["p"]["l"]) in env:
                            env[("borrow", s["lhs"]["l"])] = env[("borrow", rv_["p"]["l"])]      # a reborrow `&mut *_t`
                        elif rv_["k"] == "use" and op_place(rv_["a"]) is not None and not op_place(rv_["a"])["p"] and ("borrow", op_place(rv_["a"])["l"]) in env:
                            env[("borrow", s["lhs"]["l"])] = env[("borrow", op_place(rv_["a"])["l"])]
                        else:
                            env.pop(("borrow", s["lhs"]["l"]), None)
            t = blk["term"]
            k = t["k"]
            if k == "goto":
                bb = t["t"]
            elif k == "return":
                return env.get(0, ("zst",))
            elif k == "switch":
                v = self._operand(f, body, env, t["discr"])
                if not isinstance(v, int):
                    raise Unsupported("switch on non-integer")
                nxt = t["otherwise"]
                for val, tg in zip(t["vals"], t["targets"]):
                    if val == v:
                        nxt = tg
                        break
                bb = nxt
            elif k == "assert":
                c = self._operand(f, body, env, t["cond"])
                if bool(c) != t["expected"]:
                    raise Diverged("assert %s" % t["msg"])
                bb = t["t"]
            elif k == "drop":
                bb = t["t"]
            elif k == "call":
                if t["t"] is None:
                    raise Diverged("panic")
                fr = t["f"].get("fn")
                if fr is None:
                    raise Unsupported("indirect call")
                args2 = [self._operand(f, body, env, a) for a in t["args"]]
                stepped = False
                if (fr.get("resolved") or fr["key"]).rsplit("::", 1)[-1] == "next" and len(t["args"]) == 1 and op_place(t["args"][0]) is not None \
                        and not op_place(t["args"][0])["p"] and ("borrow", op_place(t["args"][0])["l"]) in env:
                    holder = env[("borrow", op_place(t["args"][0])["l"])]
                    it = env.get(holder)
                    if isinstance(it, tuple) and it[0] == "iter":
                        if it[1]:
                            v = ("some", it[1][0])
                            env[holder] = ("iter", tuple(it[1][1:]))
                        else:
                            v = ("none",)
                        stepped = True
                if not stepped:
                    v = self._intrinsic(f, fr, args2)
                self._store(env, t["dest"], v)
                bb = t["t"]
            elif k == "unreachable":
                raise Diverged("unreachable")
            else:
                raise Unsupported("terminator %s" % k)

    def _store(self, env, place, v):
        if place["p"]:
            # (*r).field = v on a model struct (a mutable dict shared by every reference to it)
            pr = place["p"]
            base = env.get(place["l"])
            if len(pr) == 2 and pr[0]["k"] == "deref" and pr[1]["k"] == "field" and isinstance(base, tuple) and base[0] == "ref" \
                    and isinstance(base[1], tuple) and base[1][0] == "struct":
                base[1][1][pr[1]["n"]] = v
                return
            raise Unsupported("store through projection")
        env[place["l"]] = v

    def _load(self, f, body, env, p):
        if p["l"] not in env:
            raise Unsupported("read of unset local _%d in %s" % (p["l"], f.key))
        v = env[p["l"]]
        for e in p["p"]:
            if e["k"] == "deref":
                if isinstance(v, tuple) and v[0] == "ref":
                    v = v[1]
                continue
            if e["k"] == "field" and isinstance(v, tuple) and v[0] == "tuple":
                v = v[1 + e["i"]]
                continue
            if e["k"] == "field" and isinstance(v, tuple) and v[0] == "struct":
                if e["n"] not in v[1]:
                    raise Unsupported("field %s of model value" % e["n"])
                v = v[1][e["n"]]
                continue
            if e["k"] == "index" and isinstance(v, tuple) and v[0] == "bytes":
                i = env.get(e["l"])
                if not isinstance(i, int) or i >= len(v[1]):
                    raise Diverged("index out of bounds")
                v = v[1][i]
                continue
            if e["k"] == "downcast" and isinstance(v, tuple) and v[0] in ("some", "none", "adt"):
                continue
            if e["k"] == "field" and isinstance(v, tuple) and v[0] == "adt" and e["i"] < len(v[4]):
                v = v[4][e["i"]]
                continue
            if e["k"] == "field" and isinstance(v, tuple) and v[0] == "some" and e["i"] == 0:
                v = v[1]
                continue
            if e["k"] == "cindex" and isinstance(v, tuple) and v[0] == "bytes":
                i = (len(v[1]) - e["off"]) if e.get("from_end") else e["off"]
                if not (0 <= i < len(v[1])):
                    raise Diverged("constant index out of bounds")
                v = v[1][i]
                continue
            if e["k"] == "subslice" and isinstance(v, tuple) and v[0] == "bytes":
                hi = (len(v[1]) - e["to"]) if e.get("from_end") else e["to"]
                v = ("bytes", tuple(v[1][e["from"]:hi]))
                continue
            raise Unsupported("projection %s" % e["k"])
        return v

    def _operand(self, f, body, env, op):
        c = op_const(op)
        if c is not None:
            v = _const(c)
            if isinstance(v, tuple) and v[0] == "promoted":
                pb = f.d["promoted"][v[1]] if body is f.d else None
                if pb is None:
                    raise Unsupported("promoted inside promoted")
                return self._run(f, pb, [])
            return v
        p = op_place(op)
        if p is None:
            raise Unsupported("operand")
        return self._load(f, body, env, p)

    def _rvalue(self, f, body, env, rv):
        k = rv["k"]
        if k == "use":
            return self._operand(f, body, env, rv["a"])
        if k in ("ref", "copyforderef"):
            v = self._load(f, body, env, rv["p"])
            return ("ref", v) if k == "ref" else v
        if k == "cast":
            v = self._operand(f, body, env, rv["a"])
            if isinstance(v, int):
                ty = rv["ty"]
                bits = {"u8": 8, "u16": 16, "u32": 32, "u64": 64, "usize": 64, "char": 32, "i32": 32, "i64": 64, "isize": 64, "u128": 128}.get(ty)
                if bits is None:
                    raise Unsupported("cast to %s" % ty)
                return v & ((1 << bits) - 1) if not ty.startswith("i") else v
            # a reference to an array used as a slice (unsizing): the model of both is the tuple of elements
            x = v
            while isinstance(x, tuple) and x[0] == "ref":
                x = x[1]
            if isinstance(x, tuple) and x[0] == "bytes" and rv.get("ty", "").startswith("&["):
                return v
            raise Unsupported("cast of non-integer")
        if k == "un":
            v = self._operand(f, body, env, rv["a"])
            if rv["op"] == "PtrMetadata":
                while isinstance(v, tuple) and v[0] == "ref":
                    v = v[1]
                if isinstance(v, tuple) and v[0] == "bytes":
                    return len(v[1])
                raise Unsupported("PtrMetadata of non-slice")
            if rv["op"] == "Not" and v in (0, 1):
                return 1 - v
            raise Unsupported("unary %s" % rv["op"])
        if k == "bin":
            a = self._operand(f, body, env, rv["a"])
            b = self._operand(f, body, env, rv["b"])
            if not (isinstance(a, int) and isinstance(b, int)):
                raise Unsupported("binary op on non-integers")
            op = rv["op"]
            if op in ("Eq", "Ne", "Lt", "Le", "Gt", "Ge"):
                return int({"Eq": a == b, "Ne": a != b, "Lt": a < b, "Le": a <= b, "Gt": a > b, "Ge": a >= b}[op])
            if op in ("BitAnd", "BitOr", "BitXor"):
                return {"BitAnd": a & b, "BitOr": a | b, "BitXor": a ^ b}[op]
            if op in ("Add", "Sub", "Mul"):
                return {"Add": a + b, "Sub": a - b, "Mul": a * b}[op]
            if op in ("AddWithOverflow", "SubWithOverflow", "MulWithOverflow"):
                r = {"AddWithOverflow": a + b, "SubWithOverflow": a - b, "MulWithOverflow": a * b}[op]
                return ("tuple", r, int(r < 0 or r >= 2 ** 64))
            if op == "Shl":
                return a << b
            if op == "Shr":
                return a >> b
            raise Unsupported("binary %s" % op)
        if k == "agg" and rv.get("agg") == "tuple":
            return ("tuple",) + tuple(self._operand(f, body, env, o) for o in rv["ops"])
        if k == "agg" and rv.get("agg") == "array":
            return ("array", tuple(self._operand(f, body, env, o) for o in rv["ops"]))
        if k == "agg" and rv.get("agg") == "adt" and rv.get("adt") == "std::option::Option":
            return ("none",) if rv["variant"] == "None" else ("some", self._operand(f, body, env, rv["ops"][0]))
        if k == "agg" and rv.get("agg") == "adt" and rv.get("adt") in ("std::ops::RangeTo", "std::ops::RangeFrom", "std::ops::Range"):
            return (rv["adt"].rsplit("::", 1)[1],) + tuple(self._operand(f, body, env, o) for o in rv["ops"])
        if k == "agg" and rv.get("agg") == "adt" and rv.get("vidx") is not None and rv.get("adt", "").startswith(("saphyr", "std::result::Result")):
            return ("adt", rv["adt"], rv["variant"], rv["vidx"], tuple(self._operand(f, body, env, o) for o in rv["ops"]))
        if k == "discr":
            v = self._load(f, body, env, rv["p"])
            while isinstance(v, tuple) and v[0] == "ref":
                v = v[1]
            if isinstance(v, tuple) and v[0] in ("some", "none"):
                return int(v[0] == "some")
            if isinstance(v, tuple) and v[0] == "adt":
                return v[3]
            raise Unsupported("discriminant of an unmodelled value")
        if k == "agg" and rv.get("agg") == "closure":
            return ("closure", rv["def"], tuple(self._operand(f, body, env, o) for o in rv["ops"]))
        raise Unsupported("rvalue %s" % k)

    def _intrinsic(self, f, fr, args):
        key = fr.get("resolved") or fr["key"]
        base = fr["key"]

        def deref(v):
            while isinstance(v, tuple) and v[0] == "ref":
                v = v[1]
            return v
        a = [deref(x) for x in args]
        if a and isinstance(a[0], tuple) and a[0][0] == "closure" and base.rsplit("::", 1)[-1] in ("call", "call_mut", "call_once") and len(a) > 1 \
                and isinstance(a[1], tuple) and a[1][0] == "tuple":
            return self.call(a[0][1], [("tuple",) + tuple(a[0][2])] + list(a[1][1:]))
        if base in self.hooks:
            return self.hooks[base](a)
        if key in self.hooks:
            return self.hooks[key](a)
        if base in self.F.fns or key in self.F.fns:
            return self.call(key if key in self.F.fns else base, a)
        if base in ("[T]::len", "core::slice::<impl [T]>::len") and isinstance(a[0], tuple) and a[0][0] == "bytes":
            return len(a[0][1])
        if base in ("[T]::get", "core::slice::<impl [T]>::get") and len(a) == 2 and isinstance(a[0], tuple) and a[0][0] == "bytes" and isinstance(a[1], int):
            return ("some", ("ref", a[0][1][a[1]])) if 0 <= a[1] < len(a[0][1]) else ("none",)
        if base.rsplit("::", 1)[-1] in ("copied", "cloned") and len(a) == 1 and isinstance(a[0], tuple) and a[0][0] in ("some", "none"):
            if a[0][0] == "none":
                return a[0]
            x = a[0][1]
            while isinstance(x, tuple) and x[0] == "ref":
                x = x[1]
            return ("some", x)
        if base in ("[T]::is_empty",) and isinstance(a[0], tuple) and a[0][0] == "bytes":
            return int(len(a[0][1]) == 0)
        def call_closure(c, arg):
            if isinstance(c, tuple) and c[0] == "closure":
                return self.call(c[1], [("tuple",) + tuple(c[2]), arg])
            raise Unsupported("call of a non-closure value")
        s0 = a[0] if a and isinstance(a[0], tuple) and a[0][0] == "str" else None
        it0 = a[0] if a and isinstance(a[0], tuple) and a[0][0] == "iter" else None
        def pat_chars(pv):
            if isinstance(pv, int):
                return [chr(pv)]
            if isinstance(pv, tuple) and pv[0] == "array":
                return [chr(x) for x in pv[1]]
            if isinstance(pv, tuple) and pv[0] == "str":
                return [pv[1]]
            raise Unsupported("string pattern")
        if a and isinstance(a[0], tuple) and a[0][0] == "closure" and base.rsplit("::", 1)[-1] in ("call", "call_mut", "call_once") and len(a) > 1 \
                and isinstance(a[1], tuple) and a[1][0] == "tuple":
            c = a[0]
            return self.call(c[1], [("tuple",) + tuple(c[2])] + list(a[1][1:]))
        if s0 is not None and not all(ord(ch) < 128 for ch in s0[1]) and base in ("str::find", "std::ops::Index::index"):
            # offsets are byte offsets of the UTF-8 text
            raw = s0[1].encode("utf-8")
            if base == "str::find" and len(a) > 1:
                hits = [raw.find(pc.encode("utf-8")) for pc in pat_chars(a[1])]
                hits = [h for h in hits if h >= 0]
                return ("some", min(hits)) if hits else ("none",)
            if base == "std::ops::Index::index" and len(a) > 1 and isinstance(a[1], tuple) and a[1][0] in ("RangeTo", "RangeFrom", "Range"):
                r = a[1]
                lo, hi = (0, r[1]) if r[0] == "RangeTo" else (r[1], len(raw)) if r[0] == "RangeFrom" else (r[1], r[2])
                if not (0 <= lo <= hi <= len(raw)):
                    raise Diverged("slice out of range")
                for off in (lo, hi):
                    if off < len(raw) and (raw[off] & 0xC0) == 0x80:
                        raise Diverged("slice offset inside a character")
                return ("str", raw[lo:hi].decode("utf-8"))
            raise Unsupported("byte offsets into non-ASCII text")
        if s0 is not None and len(a) > 1 and base in ("str::trim_start_matches", "str::trim_end_matches", "str::trim_matches"):
            pcs = pat_chars(a[1]) if not (isinstance(a[1], tuple) and a[1][0] == "closure") else None
            t = s0[1]

            def hit_front(t_):
                if pcs is None:
                    return 1 if t_ and bool(call_closure(a[1], ord(t_[0]))) else 0
                for pc in pcs:
                    if pc and t_.startswith(pc):
                        return len(pc)
                return 0

            def hit_back(t_):
                if pcs is None:
                    return 1 if t_ and bool(call_closure(a[1], ord(t_[-1]))) else 0
                for pc in pcs:
                    if pc and t_.endswith(pc):
                        return len(pc)
                return 0
            if base != "str::trim_end_matches":
                while hit_front(t):
                    t = t[hit_front(t):]
            if base != "str::trim_start_matches":
                while hit_back(t):
                    t = t[:len(t) - hit_back(t)]
            return ("str", t)
        if s0 is not None and base in ("str::trim_start", "str::trim_end", "str::trim"):
            WS = " \t\n\x0b\x0c\r\x85\xa0\u1680\u2000\u2001\u2002\u2003\u2004\u2005\u2006\u2007\u2008\u2009\u200a\u2028\u2029\u202f\u205f\u3000"
            t = s0[1]
            if base != "str::trim_end":
                t = t.lstrip(WS)
            if base != "str::trim_start":
                t = t.rstrip(WS)
            return ("str", t)
        if s0 is not None and len(a) > 1 and base in ("str::split", "str::splitn") and not (isinstance(a[-1], tuple) and a[-1][0] == "closure"):
            pcs = pat_chars(a[-1])
            if len(pcs) == 1 and pcs[0]:
                parts = s0[1].split(pcs[0]) if base == "str::split" else s0[1].split(pcs[0], max(a[1] - 1, 0))
                return ("iter", tuple(("str", x) for x in parts))
            raise Unsupported("split on a set of patterns")
        if s0 is not None and len(a) == 1 and base == "str::split_whitespace":
            return ("iter", tuple(("str", x) for x in s0[1].split()))
        if it0 is not None and len(a) == 1 and base.rsplit("::", 1)[-1] == "count":
            return len(it0[1])
        if s0 is not None and len(a) > 1:
            if base == "str::strip_prefix":
                for pc in pat_chars(a[1]):
                    if s0[1].startswith(pc):
                        return ("some", ("str", s0[1][len(pc):]))
                return ("none",)
            if base == "str::find":
                idx = [s0[1].find(pc) for pc in pat_chars(a[1]) if s0[1].find(pc) >= 0]
                return ("some", min(idx)) if idx else ("none",)
            if base == "std::ops::Index::index" and isinstance(a[1], tuple) and a[1][0] in ("RangeTo", "RangeFrom", "Range"):
                r = a[1]
                lo, hi = (0, r[1]) if r[0] == "RangeTo" else (r[1], len(s0[1])) if r[0] == "RangeFrom" else (r[1], r[2])
                if not (0 <= lo <= hi <= len(s0[1])):
                    raise Diverged("slice out of range")
                return ("str", s0[1][lo:hi])
        if s0 is not None and base == "str::as_bytes":
            return ("bytes", tuple(s0[1].encode("utf-8")))
        if s0 is not None and base == "str::bytes":
            return ("iter", tuple(s0[1].encode("utf-8")))
        if a and isinstance(a[0], tuple) and a[0][0] in ("some", "none"):
            nm0 = base.rsplit("::", 1)[-1]
            if nm0 == "unwrap_or" and len(a) > 1:
                return a[0][1] if a[0][0] == "some" else a[1]
            if nm0 == "unwrap_or_default" and len(a) == 1:
                if a[0][0] == "some":
                    return a[0][1]
                ty = (fr.get("substs") or ["?"])[0]
                if ty in ("&str", "std::string::String", "&'static str") or ty.endswith(" str"):
                    return ("str", "")
                if ty in ("usize", "u8", "u16", "u32", "u64", "isize", "i8", "i16", "i32", "i64", "bool", "char"):
                    return 0
                raise Unsupported("default value of %s" % ty)
            if nm0 in ("unwrap", "expect") and a[0][0] == "some":
                return a[0][1]
            if nm0 in ("unwrap", "expect") and a[0][0] == "none":
                raise Diverged("unwrap of None")
            if nm0 == "map_or" and len(a) > 2:
                return call_closure(a[2], a[0][1]) if a[0][0] == "some" else a[1]
        if s0 is not None:
            if base == "str::is_empty":
                return int(s0[1] == "")
            if base == "str::len":
                return len(s0[1].encode("utf-8"))
            if base == "str::lines":
                # Rust's str::lines: lines end at LF or CR LF (a lone CR is not a line ending); a final empty line is dropped
                t = s0[1]
                if not t:
                    return ("iter", ())
                pieces = t.split("\n")
                ended = [True] * (len(pieces) - 1) + [False]      # every piece but the last was ended by LF
                if pieces[-1] == "":
                    pieces, ended = pieces[:-1], ended[:-1]
                return ("iter", tuple(("str", x[:-1] if (e_ and x.endswith("\r")) else x) for x, e_ in zip(pieces, ended)))
            if base == "str::chars":
                return ("iter", tuple(ord(c) for c in s0[1]))
            if base in ("str::starts_with", "str::ends_with") and len(a) > 1:
                pat = a[1]
                pat = chr(pat) if isinstance(pat, int) else (pat[1] if isinstance(pat, tuple) and pat[0] == "str" else None)
                if pat is not None:
                    return int(s0[1].startswith(pat) if base == "str::starts_with" else s0[1].endswith(pat))
            if base == "str::contains" and len(a) > 1 and isinstance(a[1], tuple) and a[1][0] == "str":
                return int(a[1][1] in s0[1])
        if it0 is not None and len(a) > 1:
            nm = base.rsplit("::", 1)[-1]
            if nm in ("all", "any"):
                rs = [bool(call_closure(a[1], x)) for x in it0[1]]
                return int(all(rs) if nm == "all" else any(rs))
            if nm == "find":
                for x in it0[1]:
                    if call_closure(a[1], ("ref", x)):
                        return ("some", x)
                return ("none",)
        if it0 is not None and base.rsplit("::", 1)[-1] in ("into_iter", "by_ref") and len(a) == 1:
            return it0
        if it0 is not None and base.rsplit("::", 1)[-1] == "next":
            raise Unsupported("stateful iterator")
        if a and isinstance(a[0], tuple) and a[0][0] in ("some", "none"):
            nm = base.rsplit("::", 1)[-1]
            if nm == "is_some":
                return int(a[0][0] == "some")
            if nm == "is_none":
                return int(a[0][0] == "none")
            if nm == "is_some_and" and len(a) > 1:
                return int(a[0][0] == "some" and bool(call_closure(a[1], a[0][1])))
            if nm == "is_none_or" and len(a) > 1:
                return int(a[0][0] == "none" or bool(call_closure(a[1], a[0][1])))
        if base.startswith(("u8::is_ascii", "char::is_ascii")) and isinstance(a[0], int):
            nm = base.split("::", 1)[1]
            c = a[0]
            ch = chr(c) if c < 128 else None
            table = {
                "is_ascii": c < 128,
                "is_ascii_control": c < 32 or c == 127,
                "is_ascii_whitespace": ch is not None and ch in " \t\n\x0c\r",
                "is_ascii_graphic": 33 <= c <= 126,
                "is_ascii_punctuation": ch is not None and 33 <= c <= 126 and not ch.isalnum(),
                "is_ascii_uppercase": ch is not None and "A" <= ch <= "Z",
                "is_ascii_lowercase": ch is not None and "a" <= ch <= "z",
                "is_ascii_alphabetic": ch is not None and ch.isalpha(),
                "is_ascii_alphanumeric": ch is not None and ch.isalnum(),
                "is_ascii_digit": ch is not None and ch.isdigit(),
                "is_ascii_hexdigit": ch is not None and ch in "0123456789abcdefABCDEF",
            }
            if nm in table:
                return int(table[nm])
        if base == "char::len_utf8" and isinstance(a[0], int):
            return 1 if a[0] < 0x80 else 2 if a[0] < 0x800 else 3 if a[0] < 0x10000 else 4
        if base == "char::is_digit" and len(a) > 1 and isinstance(a[0], int) and isinstance(a[1], int):
            c = a[0]
            if c < 128:
                try:
                    return int(int(chr(c), a[1]) >= 0) if chr(c).isalnum() else 0
                except ValueError:
                    return 0
            return 0
        if base == "char::is_ascii_digit":
            return int(0x30 <= a[0] <= 0x39)
        if base == "char::is_ascii_hexdigit":
            return int(chr(a[0]) in "0123456789abcdefABCDEF") if a[0] < 128 else 0
        if base == "char::is_ascii_alphabetic":
            return int(a[0] < 128 and chr(a[0]).isalpha())
        if base == "char::is_ascii_alphanumeric":
            return int(a[0] < 128 and chr(a[0]).isalnum())
        if base == "char::is_ascii":
            return int(a[0] < 128)
        if base == "std::ops::RangeInclusive::new":
            return ("rangeincl", a[0], a[1])
        if base == "std::ops::Range::contains" and isinstance(a[0], tuple) and a[0][0] == "Range" and isinstance(a[1], int):
            return int(a[0][1] <= a[1] < a[0][2])
        if base == "std::ops::RangeInclusive::contains":
            r = a[0]
            if isinstance(r, tuple) and r[0] == "rangeincl":
                return int(r[1] <= a[1] <= r[2])
        if base == "str::contains":
            if isinstance(a[0], tuple) and a[0][0] == "str" and isinstance(a[1], int):
                return int(chr(a[1]) in a[0][1])
        if base in ("std::cmp::PartialEq::eq", "std::cmp::PartialEq::ne") and isinstance(a[0], int) and isinstance(a[1], int):
            return int((a[0] == a[1]) == (base.endswith("eq")))
        raise Unsupported("call %s" % base)


# alphabet used for character-class tables: all of ASCII plus the non-ASCII characters YAML singles out and one representative per
# UTF-8 length
ALPHABET = list(range(128)) + [0x85, 0xA0, 0xE9, 0x2028, 0x2029, 0xFEFF, 0x20AC, 0xD7FF, 0xE000, 0xFFFD, 0x1F600, 0x10FFFF]


def predicate_table(F, key, alphabet=ALPHABET):
    """set of code points of the alphabet for which the predicate holds"""
    fo = Folder(F)
    out = set()
    for cp in alphabet:
        try:
            if fo.call(key, [cp]):
                out.add(cp)
        except Diverged:
            pass
    return out
