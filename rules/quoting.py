"""What one round of the quoted-scalar content loop does, as a table (used by C04).

YAML 1.2.2 7.3.1 (double-quoted) and 7.3.2 (single-quoted): inside single quotes the only special sequence is '' (one quote); a lone '
ends the scalar; backslash and " are ordinary characters.  Inside double quotes " ends the scalar, backslash followed by a line break is an
escaped line break (contributes nothing; the flag that a break was seen is raised), backslash followed by anything else is an escape
sequence (C04 escape table), ' is an ordinary character.  A blank, a break or the end of input leaves the loop (blanks and breaks are
folded by the caller, rules/folding.py).

The loop body of consume_flow_scalar_non_whitespace_chars is enumerated path by path (E7) with constraints on the character at the
cursor, the one after it and the `single` parameter, and evaluated on representative characters of every class.
"""
import itertools
from .common import *
from engine import e7, fold
from engine.e7 import Cons, TRUE, FALSE
from engine.facts import is_local, op_const, const_value, op_place

FN = SCANNER + "::consume_flow_scalar_non_whitespace_chars"


class QuoteRec(e7.Recogniser):
    def __init__(self, F, f):
        super().__init__(f)
        self.F = F
        self.tables = {}

    def _table(self, key):
        if key not in self.tables:
            self.tables[key] = frozenset(fold.predicate_table(self.F, key))
        return self.tables[key]

    def _cursor(self, e):
        """0 / 1 if e is the character at / after the cursor"""
        if e[0] == "call" and e[1] and e[1].endswith(("Input::peek", "Input::look_ch")):
            return 0
        if e[0] == "call" and e[1] and e[1].endswith("Input::peek_nth") and e[2][1][0] == "const":
            return e[2][1][1]
        return None

    def guard(self, bi, st):
        f = self.f
        t = f.blocks[bi]["term"]
        e = cfg.expr_operand(f, t["discr"], 8)
        if t["dty"] == "char":
            k = self._cursor(e)
            if k is None:
                return None
            edges = [(Cons([v]), tg) for v, tg in zip(t["vals"], t["targets"])]
            edges.append((Cons(neg=t["vals"]), t["otherwise"]))
            return (("cur", k), edges)
        if t["dty"] != "bool" or t["vals"] != [0]:
            return (("opaque", bi), [(Cons([v]), tg) for v, tg in zip(t["vals"], t["targets"])] + [(Cons(neg=t["vals"]), t["otherwise"])])
        tt, ft = t["otherwise"], t["targets"][0]
        while e[0] == "un" and e[1] == "Not":
            e = e[2]
            tt, ft = ft, tt
        if e == ("param", 2):
            return (("single",), [(TRUE, tt), (FALSE, ft)])
        if e[0] == "bin" and e[1] in ("Eq", "Ne") and e[3][0] == "const" and isinstance(e[3][1], tuple):
            k = self._cursor(e[2])
            if k is not None:
                c = e[3][1][1]
                yes, no = (Cons([c]), tt), (Cons(neg=[c]), ft)
                if e[1] == "Ne":
                    yes, no = (Cons([c]), ft), (Cons(neg=[c]), tt)
                return (("cur", k), [yes, no])
        if e[0] == "call" and e[1] in self.F.fns and len(e[2]) == 1 and e[1].startswith("saphyr_parser::char_traits::"):
            k = self._cursor(e[2][0])
            if k is not None:
                tab = self._table(e[1])
                return (("cur", k), [(Cons(tab), tt), (Cons(neg=tab), ft)])
        return (("opaque", bi), [(TRUE, tt), (FALSE, ft)])

    def stmt(self, s, st):
        f = self.f
        if s["k"] == "assign" and s["lhs"]["p"] == [{"k": "deref"}] and f.locals[s["lhs"]["l"]]["ty"] == "&mut bool" and s["rv"]["k"] == "use":
            c = op_const(s["rv"]["a"])
            return ("flag", const_value(c) if c else "?")
        return None

    def call(self, bi, t, ck, st):
        f = self.f
        if ck == e7.STR + "push":
            e = cfg.expr_operand(f, t["args"][1], 8)
            if e[0] == "const" and isinstance(e[1], tuple):
                return ("op", ("push-const", e[1][1]))
            if self._cursor(e) == 0:
                return ("op", ("push-cursor",))
            if "resolve_flow_scalar_escape_sequence" in cfg.expr_str(e):
                return ("op", ("push-escape",))
            return ("op", ("push-other", cfg.expr_str(e)[:60]))
        if ck == SCANNER + "::skip_non_blank" or ck == SCANNER + "::skip_blank":
            return ("op", ("consume", 1))
        if ck == SCANNER + "::skip_n_non_blank":
            c = op_const(t["args"][1])
            return ("op", ("consume", const_value(c) if c else "?"))
        if ck in (SCANNER + "::skip_linebreak", SCANNER + "::skip_break"):
            return ("op", ("consume-break",))
        if ck == SCANNER + "::resolve_flow_scalar_escape_sequence":
            return ("op", ("escape",))
        if ck.endswith("::from_residual"):
            return ("op", ("err",))
        return "transparent"


def check(rep, F, rule="quote-table"):
    f = F.fn(FN)
    rec = QuoteRec(F, f)
    loops = f.natural_loops()
    items = list(loops.items() if isinstance(loops, dict) else loops)
    if len(items) != 1:
        raise facts.MissingAnchor("consume_flow_scalar_non_whitespace_chars: expected one loop, found %d" % len(items))
    head = items[0][0]
    ps = [p for p in e7.paths(f, head, rec) if p["why"] != "unreachable"]
    breaks = sorted(fold.predicate_table(F, "saphyr_parser::char_traits::is_break"))
    blankz = sorted(fold.predicate_table(F, "saphyr_parser::char_traits::is_blank_or_breakz"))
    A = ord("a")
    n = 0
    for single in (True, False):
        for c0 in (39, 34, 92, A, 0xE9) + tuple(blankz):
            for c1 in (39, 34, 92, A) + tuple(breaks):
                a = {("single",): single, ("cur", 0): c0, ("cur", 1): c1}
                ms = e7.matching(ps, a)
                n += 1
                # expected
                if c0 in blankz:
                    want = ("leave", [])
                elif single:
                    if c0 == 39 and c1 == 39:
                        want = ("continue", [("push-const", 39), ("consume", 2)])
                    elif c0 == 39:
                        want = ("leave", [])
                    else:
                        want = ("continue", [("push-cursor",), ("consume", 1)])
                else:
                    if c0 == 34:
                        want = ("leave", [])
                    elif c0 == 92 and c1 in breaks:
                        want = ("leave", [("consume", 1), ("consume-break",), ("flag", True)])
                    elif c0 == 92:
                        want = ("continue", [("escape",), ("push-escape",)])
                    else:
                        want = ("continue", [("push-cursor",), ("consume", 1)])
                got = []
                okc = bool(ms)
                for p in ms:
                    ops = [o for o in p["ops"] if o[0] != "err"]
                    err = any(o[0] == "err" for o in p["ops"])
                    kind = "continue" if p["why"] == "back-edge" else "leave"
                    got.append((kind, ops, err))
                    if err and want[1][:1] == [("escape",)]:
                        continue  # a malformed escape sequence is an error (C06)
                    if (kind, ops) != want:
                        okc = False
                inst = "%s,%s,%s" % ("single" if single else "double", _cname(c0), _cname(c1))
                rep.check(okc, rule, inst, "inside %s quotes, with %s at the cursor followed by %s, one round of the content loop must %s after %s"
                          % ("single" if single else "double", _cname(c0), _cname(c1), want[0], [" ".join(map(str, o)) for o in want[1]] or "doing nothing"),
                          site=f.span, detail={"paths": [{"then": k, "ops": [" ".join(map(str, o)) for o in ops], "error": er} for k, ops, er in got]})
    rep.extra["quote_table"] = {"paths": len(ps), "cases": n}
    return n


def _cname(c):
    return {39: "'", 34: '"', 92: "backslash", 10: "LF", 13: "CR", 0: "end-of-input", 32: "space", 9: "tab"}.get(c, repr(chr(c)))
