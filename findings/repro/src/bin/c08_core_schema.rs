// C08: texts outside the YAML 1.2 core schema are typed as numbers.
use saphyr::{LoadableYamlNode, Scalar, Yaml};
fn main() {
    let mut bad = 0;
    for s in ["0x-5", "0o-7", "+-5", "++5", "inf", "nan", "NaN", "infinity", "-Infinity", "+inf"] {
        let d = Yaml::load_from_str(s).unwrap();
        let ok = matches!(&d[0], Yaml::Value(Scalar::String(x)) if x == s);
        println!("{s:10} -> {:?}{}", d[0], if ok { "" } else { "   <-- not a core-schema number" });
        if !ok { bad += 1; }
    }
    // controls that must stay numbers
    for (s, want) in [("0x1F", "Integer(31)"), ("0o17", "Integer(15)"), ("+12", "Integer(12)"), ("-7", "Integer(-7)"), ("1e3", "FloatingPoint(1000.0)"),
                      (".5", "FloatingPoint(0.5)"), ("-.inf", "FloatingPoint(-inf)"), ("+.INF", "FloatingPoint(inf)"), ("1.", "FloatingPoint(1.0)")] {
        let d = Yaml::load_from_str(s).unwrap();
        let got = format!("{:?}", d[0]);
        let ok = got == format!("Value({want})");
        println!("{s:10} -> {got}{}", if ok { "" } else { "   <-- control failed" });
        if !ok { bad += 1; }
    }
    if bad > 0 { println!("WRONG ({bad})"); std::process::exit(1) } else { println!("RIGHT") }
}
