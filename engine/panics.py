"""Inventory of panic-capable sites in a MIR body, with keys free of line numbers."""
from .facts import is_local, op_const, const_value, op_place
from . import cfg

MAY_PANIC_CALLS = {
    "std::option::Option::unwrap": "unwrap",
    "std::option::Option::expect": "expect",
    "std::result::Result::unwrap": "unwrap",
    "std::result::Result::expect": "expect",
    "std::result::Result::unwrap_err": "unwrap",
    "std::result::Result::expect_err": "expect",
    "std::vec::Vec::remove": "vec-remove",
    "std::vec::Vec::swap_remove": "vec-remove",
    "std::vec::Vec::insert": "vec-insert",
    "std::vec::Vec::drain": "range-op",
    "std::vec::Vec::split_off": "range-op",
    "std::collections::VecDeque::insert": "vec-insert",
    "std::collections::VecDeque::drain": "range-op",
    "std::string::String::remove": "string-index",
    "std::string::String::insert": "string-index",
    "std::string::String::insert_str": "string-index",
    "std::string::String::drain": "range-op",
    "std::string::String::truncate": "string-index",
    "std::string::String::split_off": "string-index",
    "str::split_at": "string-index",
    "[T]::split_at": "range-op",
    "[T]::copy_from_slice": "range-op",
    "[T]::swap": "index",
    "std::cell::RefCell::borrow": "refcell",
    "std::cell::RefCell::borrow_mut": "refcell",
    "arraydeque::ArrayDeque::drain": "range-op",
}


def is_index_call(key):
    return key is not None and (key.endswith("ops::Index>::index") or key.endswith("ops::IndexMut>::index_mut")
                                or ("::Index<" in key and key.endswith(">::index")) or ("::IndexMut<" in key and key.endswith(">::index_mut"))
                                or key in ("std::ops::Index::index", "std::ops::IndexMut::index_mut"))


def sites(fn, skip_expansion_of=()):
    """list of dicts: kind, what (callee / indexed expression / arithmetic), bb, sp, key"""
    out = []
    for bi, b in enumerate(fn.blocks):
        if b["cleanup"]:
            continue
        t = b["term"]
        if t["k"] == "assert":
            kind = t["msg"]
            ops = [cfg.expr_str(cfg.expr_operand(fn, o, 4)) for o in t.get("ops", [])]
            what = ",".join(ops)
            out.append({"kind": "assert:" + kind, "what": what, "bb": bi, "sp": t["sp"], "term": t})
        elif t["k"] == "call":
            f = t["f"].get("fn")
            key = (f.get("resolved") or f["key"]) if f else None
            base = f["key"] if f else None
            if t["t"] is None:
                out.append({"kind": "diverge", "what": base or "indirect", "bb": bi, "sp": t["sp"], "term": t})
            elif base in MAY_PANIC_CALLS or key in MAY_PANIC_CALLS:
                k = MAY_PANIC_CALLS.get(base) or MAY_PANIC_CALLS.get(key)
                recv = cfg.expr_str(cfg.expr_operand(fn, t["args"][0], 5)) if t["args"] else ""
                out.append({"kind": k, "what": "%s on %s" % (base.split("::")[-1], recv), "bb": bi, "sp": t["sp"], "term": t})
            elif is_index_call(key) or is_index_call(base):
                recv = cfg.expr_str(cfg.expr_operand(fn, t["args"][0], 5)) if t["args"] else ""
                idx = cfg.expr_str(cfg.expr_operand(fn, t["args"][1], 5)) if len(t["args"]) > 1 else ""
                out.append({"kind": "index-call", "what": "%s[%s]" % (recv, idx), "bb": bi, "sp": t["sp"], "term": t})
    return out


# ------------------------------------------------------------------------------------------------
# mechanical discharge of common guarded idioms

def _container_id(e):
    """printable identity of the container whose length is meant: looks through reborrows and str::as_bytes"""
    from . import tables
    e = tables.normalize(e)
    while True:
        if e[0] == "ref":
            e = e[1]
            continue
        if e[0] == "call" and e[1] in ("str::as_bytes", "std::string::String::as_bytes", "std::string::String::as_str", "std::ops::Deref::deref") and e[2]:
            e = e[2][0]
            continue
        if e[0] == "call" and e[1] and e[1].endswith("Deref>::deref") and e[2]:
            e = e[2][0]
            continue
        if e[0] == "place" and e[2] and all(x == "deref" for x in e[2]):
            e = e[1]
            continue
        break
    return cfg.expr_str(e)


def _len_of(e):
    """if e is len(X)/PtrMetadata(X)/X.len(): a printable id of X, else None"""
    if e[0] == "un" and e[1] == "PtrMetadata":
        return _container_id(e[2])
    if e[0] == "call" and e[1] and e[1].endswith("::len") and e[2]:
        return _container_id(e[2][0])
    return None


def _edge_facts(fn, bb, target):
    """facts about container lengths established by taking edge bb->target of a switch:
    list of (container id, 'ge', k) / (container id, 'ne', k) / ('idx', local, container id) for `local < len(container)`"""
    t = fn.blocks[bb]["term"]
    if t["k"] != "switch":
        return []
    e = cfg.expr_operand(fn, t["discr"], 14)
    m = {v: tg for v, tg in zip(t["vals"], t["targets"])}
    taken_true = None
    if 0 in m:
        if target == m[0] and target != t["otherwise"]:
            taken_true = False
        elif target == t["otherwise"] and target != m[0]:
            taken_true = True
    if taken_true is None:
        return []
    while e[0] == "un" and e[1] == "Not":
        e = e[2]
        taken_true = not taken_true
    if e[0] == "call" and e[1] and e[1].endswith("::is_empty") and e[2]:
        return [(_container_id(e[2][0]), "ge", 1)] if not taken_true else []
    if e[0] != "bin":
        return []
    op, a, b = e[1], e[2], e[3]
    la, lb_ = _len_of(a), _len_of(b)
    ca = a[1] if a[0] == "const" and isinstance(a[1], int) else None
    cb = b[1] if b[0] == "const" and isinstance(b[1], int) else None
    out = []
    if la is not None and cb is not None:
        cid, c = la, cb
    elif lb_ is not None and ca is not None:
        cid, c = lb_, ca
        op = {"Lt": "Gt", "Le": "Ge", "Gt": "Lt", "Ge": "Le"}.get(op, op)
    else:
        # variable index compared with a length:  i < len(X)
        raw = t["discr"]
        l = is_local(raw)
        ds = cfg.defs_of_local(fn, l) if l is not None else []
        if len(ds) == 1 and ds[0][0] == "stmt" and ds[0][3]["rv"]["k"] == "bin":
            rv = ds[0][3]["rv"]
            ia, ib = is_local(rv["a"]), is_local(rv["b"])
            ea, eb = cfg.expr_operand(fn, rv["a"], 14), cfg.expr_operand(fn, rv["b"], 14)
            if rv["op"] == "Lt" and taken_true and ia is not None and _len_of(eb) is not None:
                out.append(("idx", cfg.resolve_copy_chain(fn, ia), _len_of(eb)))
            if rv["op"] == "Gt" and taken_true and ib is not None and _len_of(ea) is not None:
                out.append(("idx", cfg.resolve_copy_chain(fn, ib), _len_of(ea)))
            if rv["op"] == "Ge" and not taken_true and ia is not None and _len_of(eb) is not None:
                out.append(("idx", cfg.resolve_copy_chain(fn, ia), _len_of(eb)))
        return out
    if taken_true:
        if op == "Gt":
            out.append((cid, "ge", c + 1))
        elif op == "Ge":
            out.append((cid, "ge", c))
        elif op == "Eq":
            out.append((cid, "ge", c))
        elif op == "Ne":
            out.append((cid, "ne", c))
            if c == 0:
                out.append((cid, "ge", 1))
    else:
        if op == "Lt":
            out.append((cid, "ge", c))
        elif op == "Le":
            out.append((cid, "ge", c + 1))
        elif op == "Eq":
            out.append((cid, "ne", c))
            if c == 0:
                out.append((cid, "ge", 1))
    return out


def _dominating_facts(fn, site_bb):
    facts = []
    for b2 in fn.dominators().get(site_bb, ()):
        if fn.blocks[b2]["term"]["k"] != "switch":
            continue
        for tg in set(fn.succs(b2)):
            fs = _edge_facts(fn, b2, tg)
            if fs and cfg.dominated_by_edge(fn, site_bb, b2, tg):
                facts.extend((f, b2, tg) for f in fs)
    return facts


FACTS = None     # set by review(): lets discharge() look into closures


def _returns_first_field_of_param(g):
    """closure body is `|(offset, _)| offset`: the result is field 0 of its (only) argument"""
    e = cfg.expr_local(g, 0, 6)
    return e[0] == "place" and e[1] == ("param", 2) and [x for x in e[2] if x != "deref"] == [("field", "0")]


def char_boundary_offset(fn, e, recv):
    """e is, by construction, a character boundary of the string `recv` that is <= its length: the position reported by char_indices for
    a character that was found, or the length of the string when none was"""
    def same(a, b):
        return cfg.expr_str(cfg.strip_reborrow(a)) == cfg.expr_str(cfg.strip_reborrow(b))

    def found_position(x):
        # Iterator::find / position over recv.char_indices()
        if x[0] == "call" and x[1] and x[1].endswith(("Iterator::find", "::find")) and x[2]:
            it = cfg.strip_reborrow(x[2][0])
            if it[0] == "ref":
                it = it[1]
            return it[0] == "call" and it[1] == "str::char_indices" and same(it[2][0], recv)
        return False
    if e[0] == "call" and e[1] == "str::len" and same(e[2][0], recv):
        return True
    if e[0] == "call" and e[1] in ("std::option::Option::map_or", "std::option::Option::map_or_else") and len(e[2]) == 3:
        x, dflt, clo = e[2]
        if found_position(x) and clo[0] == "closure" and FACTS is not None and clo[1] in FACTS.fns and _returns_first_field_of_param(FACTS.fns[clo[1]]):
            if e[1].endswith("map_or"):
                return char_boundary_offset(fn, dflt, recv)
            return dflt[0] == "closure" and clo[1] in FACTS.fns and cfg.expr_local(FACTS.fns[dflt[1]], 0, 6)[0] == "call" \
                and cfg.expr_local(FACTS.fns[dflt[1]], 0, 6)[1] == "str::len"
    return False


INT_BITS = {"u8": 8, "u16": 16, "u32": 32, "u64": 64, "usize": 64, "u128": 128}


def decimal_accumulator_bound(fn, acc):
    """Premise-checked lemma for `acc = acc * 10 + digit` loops.  Returns the largest value acc can reach, or None when a premise fails:
      P1 every definition of acc is the constant 0 or (acc * 10 + d).0 with d the Some payload of char::to_digit(_, 10) (so 0 <= d <= 9);
      P2 a counter c has only the definitions 0 and (c + 1).0, and its increment and the accumulation run in the same loop round;
      P3 the accumulation is dominated by the failing edge of a guard on that counter - `c + 1 > K`, `c >= K` or `c > K` - whose other edge
         does not reach the accumulation; hence at most D = K (resp. K, K + 1) digits are ever accumulated and acc <= 10^D - 1."""
    defs = cfg.defs_of_local(fn, acc)
    accum_bbs = []
    for d in defs:
        if d[0] != "stmt" or d[3]["rv"]["k"] != "use":
            return None
        e = cfg.expr_operand(fn, d[3]["rv"]["a"], 8)
        if e == ("const", 0):
            continue
        ok = e[0] == "place" and e[2] == [("field", "0")] and e[1][0] == "bin" and e[1][1] == "AddWithOverflow"
        if ok:
            m, dg = e[1][2], e[1][3]
            ok = m[0] == "place" and m[2] == [("field", "0")] and m[1][0] == "bin" and m[1][1] == "MulWithOverflow" and m[1][2] in (("phi", acc), ("local", acc)) \
                and m[1][3] == ("const", 10)
            ok = ok and dg[0] == "place" and dg[2] == [("downcast", "Some"), ("field", "0")] and dg[1][0] == "call" and dg[1][1] == "char::to_digit" \
                and dg[1][2][1] == ("const", 10)
        if not ok:
            return None
        accum_bbs.append(d[1])
    if len(accum_bbs) != 1:
        return None
    ab = accum_bbs[0]
    best = None
    for dom in fn.dominators().get(ab, ()):
        t = fn.blocks[dom]["term"]
        if t["k"] != "switch" or t["dty"] != "bool" or t["vals"] != [0]:
            continue
        e = cfg.expr_operand(fn, t["discr"], 8)
        if e[0] != "bin" or e[1] not in ("Gt", "Ge") or e[3][0] != "const" or not isinstance(e[3][1], int):
            continue
        K = e[3][1]
        lhs = e[2]
        c = None
        plus1 = False
        if lhs[0] in ("phi", "local"):
            c = lhs[1]
        elif lhs[0] == "place" and lhs[2] == [("field", "0")] and lhs[1][0] == "bin" and lhs[1][1] == "AddWithOverflow" and lhs[1][2][0] in ("phi", "local") and lhs[1][3] == ("const", 1):
            c, plus1 = lhs[1][2][1], True
        if c is None:
            continue
        # counter: 0 and +1 only, incremented between the guard and the accumulation (same round)
        okc = True
        incs = []
        for d in cfg.defs_of_local(fn, c):
            if d[0] != "stmt" or d[3]["rv"]["k"] != "use":
                okc = False
                break
            ce = cfg.expr_operand(fn, d[3]["rv"]["a"], 6)
            if ce == ("const", 0):
                continue
            if ce[0] == "place" and ce[2] == [("field", "0")] and ce[1][0] == "bin" and ce[1][1] == "AddWithOverflow" and ce[1][2] in (("phi", c), ("local", c)) and ce[1][3] == ("const", 1):
                incs.append(d[1])
            else:
                okc = False
        false_edge = t["targets"][0]
        if not okc or len(incs) != 1 or not cfg.dominated_by_edge(fn, ab, dom, false_edge):
            continue
        inc = incs[0]
        if not (cfg.dominated_by_edge(fn, inc, dom, false_edge) or inc == false_edge):
            continue
        # digits after this round: guard false means ... (the increment happens once per round, after the guard)
        if plus1:
            D = K if e[1] == "Gt" else K - 1          # c + 1 <= K  /  c + 1 < K
        else:
            D = K + 1 if e[1] == "Gt" else K          # c <= K -> c + 1 <= K + 1  /  c < K -> c + 1 <= K
        best = D if best is None else min(best, D)
    if best is None or best < 0:
        return None
    return 10 ** best - 1


def discharge(fn, s):
    """returns a reason string when the panic site is mechanically discharged, else None"""
    t = s["term"]
    k = s["kind"]
    if k in ("assert:Overflow(Mul)", "assert:Overflow(Add)") and t.get("k") == "assert":
        c = t["cond"]
        p = c.get("move") or c.get("copy")
        if p is not None:
            e = cfg.expr_local(fn, p["l"], 8)
            acc = None
            if e[0] == "bin" and e[1] == "MulWithOverflow" and e[2][0] in ("phi", "local") and e[3] == ("const", 10):
                acc = e[2][1]
            elif e[0] == "bin" and e[1] == "AddWithOverflow" and e[2][0] == "place" and e[2][1][0] == "bin" and e[2][1][1] == "MulWithOverflow" \
                    and e[2][1][2][0] in ("phi", "local") and e[2][1][3] == ("const", 10):
                acc = e[2][1][2][1]
            if acc is not None and fn.local_ty(acc) in INT_BITS:
                bound = decimal_accumulator_bound(fn, acc)
                if bound is not None and bound <= 2 ** INT_BITS[fn.local_ty(acc)] - 1:
                    return "decimal accumulator over a bounded number of digits (lemma: at most %d, type %s)" % (bound, fn.local_ty(acc))
    if k == "string-index" and t.get("k") == "call" and (t["f"].get("fn") or {}).get("key") == "str::split_at":
        recv = cfg.expr_operand(fn, t["args"][0], 10)
        off = cfg.expr_operand(fn, t["args"][1], 14)
        if char_boundary_offset(fn, off, recv):
            return "split_at an offset reported by char_indices of the same string (or its length)"
    if k in ("string-index", "index-call") and t.get("k") == "call" and FACTS is not None:
        # slicing a str (Index::index with a range, split_at) at offsets that are character boundaries of that string, not beyond its
        # end, by construction (rules/utf8.py: the provenance of the offset)
        key = (t["f"].get("fn") or {}).get("key", "")
        if (key == "str::split_at" or key.endswith("Index::index")) and len(t["args"]) == 2 \
                and is_local(t["args"][0]) is not None and fn.local_ty(is_local(t["args"][0])) in ("&str", "&mut str", "&&str"):
            from rules import utf8 as _utf8
            recv = cfg.expr_operand(fn, t["args"][0], 10)
            off = cfg.expr_operand(fn, t["args"][1], 14)
            offs = [off] if key == "str::split_at" else (list(off[3]) if off[0] == "adt" and off[1] in ("std::ops::RangeFrom", "std::ops::RangeTo") else None)
            if offs:
                B = _utf8.Boundary(FACTS, fn, recv)
                rs = [B.ok(o) for o in offs]
                if all(r for r, _ in rs):
                    return "str sliced at a character boundary within the string by construction (%s)" % "; ".join(w for _, w in rs)
    if k in ("assert:DivisionByZero", "assert:RemainderByZero"):
        e = cfg.expr_operand(fn, t["cond"], 4)
        if e[0] == "bin" and e[1] == "Eq" and e[2][0] == "const" and e[3] == ("const", 0) and e[2][1] not in (0, None):
            return "constant non-zero divisor"
    if k == "assert:BoundsCheck" and len(t.get("ops", [])) == 2:
        ln = cfg.expr_operand(fn, t["ops"][0], 14)
        ix = cfg.expr_operand(fn, t["ops"][1], 6)
        cid = _len_of(ln)
        if cid is not None:
            facts = _dominating_facts(fn, s["bb"])
            if ix[0] == "const" and isinstance(ix[1], int):
                need = ix[1] + 1
                lo = max([f[2] for f, _, _ in facts if f[0] == cid and f[1] == "ge"] + [0])
                nes = {f[2] for f, _, _ in facts if f[0] == cid and f[1] == "ne"}
                while lo in nes:
                    lo += 1
                if lo >= need:
                    return "dominated by length tests establishing len >= %d" % need
            il = is_local(t["ops"][1])
            if il is not None:
                root = cfg.resolve_copy_chain(fn, il)
                for f, gb, gt in facts:
                    if f[0] == "idx" and f[1] == root and f[2] == cid:
                        # the index variable is not reassigned between the guard edge and the use
                        # (a path that goes through the guard again re-establishes the fact, so the guard block cuts the search)
                        between = cfg.blocks_reachable_from(fn, [gt], avoid=[s["bb"], gb])
                        redefs = [d for d in cfg.defs_of_local(fn, root) if d[1] in between and s["bb"] in cfg.blocks_reachable_from(fn, [d[1]], avoid=[gb])]
                        if not redefs:
                            return "dominated by `index < len` on the same index variable"
        if ln[0] == "const" and ix[0] == "const" and isinstance(ln[1], int) and isinstance(ix[1], int) and ix[1] < ln[1]:
            return "constant index below constant length"
    if k.startswith("assert:Overflow(Add)") or k.startswith("assert:Overflow(Mul)"):
        # width of the arithmetic
        c = t["cond"]
        p = c.get("move") or c.get("copy")
        if p is not None:
            ty = fn.local_ty(p["l"])
            if ty.startswith("(usize") and k.startswith("assert:Overflow(Add)"):
                return "usize counter addition (cannot wrap before 2^64 elements/bytes exist)"
    return None


def review(rep, rule, F, fn_keys, table, shortf):
    global FACTS
    FACTS = F
    """count the residual (not mechanically discharged) panic sites per (function, kind) and compare with the reviewed maxima.
    table: dict (fn_key, kind) -> {"max": n, "reason": str}"""
    total = 0
    discharged = 0
    residual = {}
    for k in fn_keys:
        f = F.fns.get(k)
        if f is None:
            continue
        for s in sites(f):
            total += 1
            r = discharge(f, s)
            if r:
                discharged += 1
                rep.ok(rule + "-auto", "%s %s" % (shortf(k), s["kind"]), r)
                continue
            residual.setdefault((k, s["kind"]), []).append(s)
    for (k, kind), ss in sorted(residual.items()):
        ent = table.get((k, kind))
        f = F.fns[k]
        if ent is None:
            rep.bad(rule, "%s %s" % (shortf(k), kind),
                    "unreviewed panic-capable construct on a parsing path: %d site(s) of kind %s (%s)" % (len(ss), kind, "; ".join(s["what"] for s in ss[:3])),
                    site="%s @ %s" % (f.key, ss[0]["sp"]["at"]))
        elif len(ss) > ent["max"]:
            rep.bad(rule, "%s %s" % (shortf(k), kind),
                    "%d site(s) of kind %s where %d were reviewed (%s): a new panic-capable construct entered this function" % (
                        len(ss), kind, ent["max"], ent["reason"]),
                    site="%s @ %s" % (f.key, "; ".join(s["sp"]["at"].split("/")[-1] for s in ss)))
        else:
            for s in ss:
                rep.ok(rule, "%s %s" % (shortf(k), kind), "reviewed: " + ent["reason"])
    return total, discharged, residual


def load_table(path):
    import json
    with open(path) as fh:
        d = json.load(fh)
    return {(e["fn"], e["kind"]): e for e in d["entries"]}
