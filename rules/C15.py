"""C15 — documents in a stream are parsed independently of each other.

Clause decided: every mutable field of Scanner and Parser is accounted for at a document boundary.  tables/c15_fields.json
classifies each field (enumerated from the struct definitions; an unclassified field fails the check) and every class is checked
against the code: RESET (a boundary handler calls the resetting function / assigns the field), PAIRED (its only writers are the
matched pair bracketing a construct), SCRATCH (its only reader clears it first), SELF_INVALIDATING (only compared for equality with
the strictly increasing cursor index), CONFIG (written only by constructors/builders), STREAM (stream-global by design).
"""
import json
from .common import *
from engine import tables
from engine.facts import is_local, op_const, const_value, op_place

PID = "C15"


def new_report(tier):
    return make_report(PID, tier, "other", [
        "the classes are sufficient reasons for a field not to carry information across a document boundary (review, recorded per field)",
        "mark.index strictly increases (C12), the state stack is balanced per document (C02)",
    ], "E6 writer/reader inventories per field, call facts of the boundary handlers (with constant arguments), dominance of the tag reset by "
       "!keep_tags, must-write-before-read for scratch buffers. Decides that no field is left unaccounted for, not that A '...' B yields "
       "the concatenated events.")


def writers_of(F, owner, fld):
    out = {}
    for k, f in F.fns.items():
        if f.crate != "saphyr_parser" or "::test" in k:
            continue
        ws = cfg.field_writes(f, owner, fld)
        if ws:
            out[k] = ws
    return out


def _observer_only(F, owner, fld):
    """The field observes the computation and cannot steer it: in every function, what is read from the field flows (through temporaries,
    arithmetic and calls of functions outside the two crates such as Ord::max or saturating_add) only back into the field itself, or out of
    a pure accessor (one straight-line block, no calls).  It never reaches a branch condition, a call of a crate function, or another
    place."""
    def reads(p):
        return cfg.touches_field(p, owner, fld)
    for k, f in F.fns.items():
        if f.crate != "saphyr_parser" or "::test" in k or f.d.get("derived"):
            continue
        if not any(reads(p) for bi, si, s in cfg.stmts(f) if s["k"] == "assign" for p in cfg.rv_places(s["rv"])) and \
                not any(op_place(a) is not None and reads(op_place(a)) for _, t, _, _ in f.calls() for a in t["args"]):
            continue
        nblocks = [b for b in f.blocks if not b["cleanup"]]
        # a pure accessor: straight-line code (spliced helpers may add jumps), no calls, no branches, nothing written through self
        accessor = not list(f.calls()) and all(b["term"]["k"] in ("goto", "return", "assert") for b in nblocks) and \
            not any(s["k"] == "assign" and s["lhs"]["l"] == 1 and s["lhs"]["p"] for b in nblocks for s in b["stmts"])
        if accessor:
            continue
        # a read-only view: the receiver is a shared reference (nothing of the parser can be written through it) and nothing in the crates
        # but other such views calls it - what it computes from the field leaves the library and cannot come back into the parse
        def view(g, depth=0):
            nargs = g.d.get("arg_count", getattr(g, "arg_count", 1))
            if depth > 3 or len(g.locals) < 2 or not g.locals[1]["ty"].startswith("&") or any(g.locals[i]["ty"].startswith("&mut") for i in range(1, min(nargs, len(g.locals) - 1) + 1)):
                return False
            for cf, _, _ in F.callers_of(g.key):
                if "::test" in cf.key:
                    continue
                if not view(cf, depth + 1):
                    return False
            return True
        if view(f):
            continue
        T = set()
        changed = True
        while changed:
            changed = False
            for bi, b in enumerate(f.blocks):
                if b["cleanup"]:
                    continue
                for s in b["stmts"]:
                    if s["k"] != "assign":
                        continue
                    src = any(reads(p) or (p["l"] in T) for p in cfg.rv_places(s["rv"]))
                    if not src:
                        continue
                    lhs = s["lhs"]
                    if reads(lhs):
                        continue
                    if lhs["p"]:
                        return False          # stored somewhere else
                    if lhs["l"] == 0:
                        return False          # returned by something that is not a pure accessor
                    if lhs["l"] not in T:
                        T.add(lhs["l"])
                        changed = True
                t = b["term"]
                if t["k"] == "call":
                    tainted_arg = any((op_place(a) is not None and (reads(op_place(a)) or op_place(a)["l"] in T)) for a in t["args"])
                    if tainted_arg:
                        fr = t["f"].get("fn")
                        ck = (fr.get("resolved") or fr["key"]) if fr else None
                        if ck is None or ck in F.fns:
                            return False      # handed to code of the crates (or an indirect call)
                        d = t["dest"]
                        if reads(d):
                            pass
                        elif d["p"] or d["l"] == 0:
                            return False
                        elif d["l"] not in T:
                            T.add(d["l"])
                            changed = True
                if t["k"] == "switch":
                    p = op_place(t["discr"])
                    if p is not None and (reads(p) or p["l"] in T):
                        return False          # steers a branch
    return True


def readers_of(F, owner, fld):
    out = set()
    for k, f in F.fns.items():
        if f.crate != "saphyr_parser" or "::test" in k or f.d.get("derived"):
            continue
        for bi, b in enumerate(f.blocks):
            if b["cleanup"]:
                continue
            for s in b["stmts"]:
                if s["k"] == "assign":
                    for p in cfg.rv_places(s["rv"]):
                        if cfg.touches_field(p, owner, fld):
                            out.add(k)
            t = b["term"]
            if t["k"] == "call":
                for a in t["args"]:
                    p = op_place(a)
                    if p is not None and cfg.touches_field(p, owner, fld):
                        out.add(k)
    return out


def run(tier):
    rep = new_report(tier)
    F = facts.load()
    with open(os.path.join(facts.VERIF, "tables", "c15_fields.json")) as fh:
        table = json.load(fh)
    edges, _ = callgraph.build(F)
    boundary = [b for b in table["boundary_functions"]]
    for b in boundary:
        F.fn(b)
    # functions the boundary handlers run themselves (pulling the next token is not part of handling the boundary)
    pull = {PARSER + "::peek_token", PARSER + "::scan_next_token", PARSER + "::fetch_token"}
    e2 = {k: {x for x in v if x not in pull} for k, v in edges.items()}
    reach = callgraph.reachable(e2, boundary)
    nfields = 0
    for owner, ftab in table["fields"].items():
        adt = F.adt(owner)
        names = [fld["name"] for v in adt["variants"] for fld in v["fields"]]
        for nm in names:
            nfields += 1
            ent = ftab.get(nm)
            inst = "%s.%s" % (owner.split("::")[-1], nm)
            if ent is None:
                # auto-class CONFIG: only constructors/builders write it
                ws = writers_of(F, owner, nm)
                builders = all(F.fns[k].name.startswith("new") or F.fns[k].locals[1]["ty"].startswith(owner.replace("saphyr_parser::", "")) for k in ws)
                if ws and not builders and _observer_only(F, owner, nm):
                    rep.ok("field-class", inst, "OBSERVER (automatic): the field is only updated from its own value and read by accessor functions; it cannot "
                           "influence scanning or parsing")
                    continue
                rep.check(bool(ws) is False or builders, "field-classified", inst, "field %s has no class in tables/c15_fields.json and is written after construction: "
                          "it may carry state from one document into the next" % inst, site=adt["span"]["at"], detail=sorted(short(k) for k in ws))
                continue
            cls = ent["class"]
            ws = writers_of(F, owner, nm)
            wk = set(ws)
            ctor = {k for k in wk if F.fns[k].name.startswith("new")}
            if cls == "STREAM":
                rep.ok("field-class", inst, "STREAM: " + ent["reason"])
            elif cls == "CONFIG":
                nonb = [k for k in wk - ctor if not F.fns[k].locals[1]["ty"].startswith(("parser::Parser", "scanner::Scanner"))]
                rep.check(not nonb, "field-class", inst, "CONFIG field written through &mut self after construction", detail=[short(k) for k in nonb])
            elif cls == "PAIRED":
                allowed = set(ent["writers"])
                rep.check(wk - ctor <= allowed and (wk - ctor), "field-class", inst, "PAIRED field written outside its inc/dec pair: it can be left unbalanced at a document boundary",
                          detail=sorted(short(k) for k in (wk - ctor) - allowed))
            elif cls == "RESET":
                ok = True
                det = {}
                for callee in ent.get("calls", []):
                    if callee.startswith("std::"):
                        host = F.fn(ent["in"])
                        found = False
                        for w in cfg.field_writes(host, owner, nm):
                            if w["kind"] == "borrow_mut" and w.get("use") and w["use"]["callee"] == callee:
                                found = True
                                if ent.get("unless"):
                                    g = False
                                    for bi, b in enumerate(host.blocks):
                                        if not b["cleanup"] and b["term"]["k"] == "switch" and cfg.self_field_of_switch(host, bi) == [ent["unless"]]:
                                            m, other = cfg.switch_edge_blocks(host, bi)
                                            if 0 in m and cfg.dominated_by_edge(host, w["use"]["bb"], bi, m[0]):
                                                esc = cfg.escapes_without_edges(host, 0, {w["use"]["bb"]}, forbidden_edges={(bi, other)}, avoid=cfg.err_sink_blocks(host))
                                                g = esc is None
                                    found = found and g
                                else:
                                    # unconditional: every non-Err return passes it
                                    esc = cfg.escapes(host, 0, {w["use"]["bb"]}, cfg.err_sink_blocks(host))
                                    found = found and esc is None
                        ok = ok and found and ent["in"] in reach
                        det[callee] = found
                    else:
                        # a boundary function calls the resetter (with the constant argument, on every non-Err path), and the resetter writes the field
                        hit = False
                        for bk in boundary:
                            bf = F.fns[bk]
                            for bb, t, ck, fr in bf.calls():
                                if ck == callee:
                                    argok = True
                                    if "const_arg" in ent:
                                        argok = const_value(op_const(t["args"][1]) or {}) == ent["const_arg"]
                                    esc = cfg.escapes(bf, 0, {bb}, cfg.err_sink_blocks(bf))
                                    if argok and esc is None:
                                        hit = True
                        writes = callee in wk or any(k in wk for k in callgraph.reachable(edges, [callee]))
                        ok = ok and hit and writes
                        det[callee] = {"called_at_boundary": hit, "writes_field": writes}
                if ent.get("assigned_in"):
                    host = F.fn(ent["assigned_in"])
                    aw = [w for w in cfg.field_writes(host, owner, nm) if w["kind"] == "assign"]
                    wb = {w["bb"] for w in aw}
                    esc = cfg.escapes(host, 0, wb, cfg.err_sink_blocks(host)) if aw else [0]
                    ok = ok and esc is None
                    det["assigned_on_every_path"] = esc is None
                if ent.get("paired"):
                    pass
                rep.check(ok, "field-class", inst, "RESET field is no longer re-established by the document boundary handlers (%s)" % ent["reason"], detail=det)
            elif cls == "RESTORED":
                stack = ent["stack"]
                allowed = {ent["saved_in"], ent["restored_in"]} | set(ent.get("other_writers", []))
                det = {"writers": sorted(short(k) for k in wk - ctor)}
                okr = (wk - ctor) <= allowed
                # saved: a push onto the stack whose argument reads the field, before the field is written, on every accepting path
                sv = F.fn(ent["saved_in"])
                pushes = []
                for w in cfg.field_writes(sv, owner, stack):
                    if w["kind"] == "borrow_mut" and w.get("use") and (w["use"]["callee"] or "").endswith("::push"):
                        tcall = sv.blocks[w["use"]["bb"]]["term"]
                        if nm in (cfg.expr_fields_all(cfg.expr_operand(sv, tcall["args"][-1], 8)) if hasattr(cfg, "expr_fields_all") else cfg.expr_str(cfg.expr_operand(sv, tcall["args"][-1], 8))):
                            pushes.append(w["use"]["bb"])
                fw = [w["bb"] for w in cfg.field_writes(sv, owner, nm) if w["kind"] == "assign"]
                saved = bool(pushes) and cfg.escapes(sv, 0, set(pushes), cfg.err_sink_blocks(sv)) is None \
                    and all(any(pb in sv.dominators().get(b, ()) or pb == b for pb in pushes) for b in fw)
                det["saved_before_written"] = saved
                # restored: assigned from a pop of the stack on every accepting path
                rs = F.fn(ent["restored_in"])
                rws = []
                for w in cfg.field_writes(rs, owner, nm):
                    if w["kind"] == "assign" or w["kind"] == "call_dest":
                        e = cfg.expr_operand(rs, w["stmt"]["rv"]["a"], 10) if w["kind"] == "assign" and w["stmt"]["rv"]["k"] == "use" else None
                        txt = cfg.expr_str(e) if e else ""
                        if w["kind"] == "call_dest":
                            txt = " ".join(cfg.expr_str(cfg.expr_operand(rs, a, 10)) for a in w["term"]["args"])
                        if "::pop(" in txt and stack in txt:
                            rws.append(w["bb"])
                restored = bool(rws) and cfg.escapes(rs, 0, set(rws), cfg.err_sink_blocks(rs)) is None
                det["restored_on_every_path"] = restored
                # the stack itself is PAIRED
                paired = ftab.get(stack, {}).get("class") == "PAIRED"
                late = restore_is_final(F, owner, nm, rs, set(rws), wk)
                det["written_again_after_the_restore"] = late
                rep.check(not late, "restore-is-final", inst, "after %s has restored %s from %s it is written again (%s): the value the enclosing collection had is lost, "
                          "what follows the closing bracket is scanned as if it were somewhere else" % (short(ent["restored_in"]), nm, stack, ", ".join(late)),
                          site=rs.span)
                rep.check(okr and saved and restored and paired, "field-class", inst, "RESTORED field is no longer saved when a flow collection opens and restored from "
                          "the same stack when it closes (or has a new writer): it can keep a value set inside a collection after the collection, and the document, end", detail=det)
            elif cls == "RESET_BY":
                want = set(ent["writers_reset"])
                # the resetter assigns the constant `true`/initial value on every path
                okr = want <= wk
                rep.check(okr, "field-class", inst, "the function that re-establishes this field at a line start no longer writes it", detail=sorted(short(k) for k in wk))
            elif cls == "SCRATCH":
                rd = readers_of(F, owner, nm) | wk
                rd -= ctor
                reader = ent["reader"]
                okr = rd <= {reader}
                det = {"users": sorted(short(k) for k in rd)}
                if okr and reader in F.fns:
                    f = F.fns[reader]
                    clears = set()
                    for w in cfg.field_writes(f, owner, nm):
                        if w["kind"] == "borrow_mut" and w.get("use") and (w["use"]["callee"] or "").endswith("::clear"):
                            clears.add(w["use"]["bb"])
                    # first use on every path is a clear: no use of the field is reachable from entry while avoiding the clear blocks ... approximated by
                    # dominance: some clear dominates every other use
                    uses = set()
                    for bi, b in enumerate(f.blocks):
                        if b["cleanup"]:
                            continue
                        for s in b["stmts"]:
                            if s["k"] == "assign":
                                for p in cfg.rv_places(s["rv"]):
                                    if cfg.touches_field(p, owner, nm):
                                        uses.add(bi)
                    first = [c for c in clears if all(c in f.dominators().get(u, ()) or u == c or _borrow_block_of(f, c, owner, nm) == u for u in uses)]
                    okr = bool(first)
                    det["dominating_clear"] = bool(first)
                rep.check(okr, "field-class", inst, "SCRATCH buffer is used by another function or read before it is cleared: text can leak from one scalar/document into the next",
                          detail=det)
            elif cls == "SELF_INVALIDATING":
                # only Eq/Ne comparisons read it; its writers assign mark.index
                bad = []
                for k in readers_of(F, owner, nm):
                    f = F.fns[k]
                    for bi, si, s in cfg.stmts(f):
                        if s["k"] == "assign" and s["rv"]["k"] == "bin":
                            for o in (s["rv"]["a"], s["rv"]["b"]):
                                e = cfg.expr_operand(f, o, 4)
                                if cfg.expr_fields(e) == [nm] and s["rv"]["op"] not in ("Eq", "Ne"):
                                    bad.append("%s: %s" % (short(k), s["rv"]["op"]))
                for k, wsx in ws.items():
                    for w in wsx:
                        if w["kind"] == "assign" and k not in ctor:
                            e = cfg.expr_operand(F.fns[k], w["stmt"]["rv"]["a"], 5) if w["stmt"]["rv"]["k"] == "use" else ("?",)
                            if cfg.expr_fields(e) != ["mark", "index"]:
                                bad.append("%s assigns %s" % (short(k), cfg.expr_str(e)))
                rep.check(not bad, "field-class", inst, "the field is no longer only compared for equality with / assigned from mark.index", detail=bad)
            elif cls == "NONE":
                resets = [k for k in wk if k in reach]
                # a finding until some boundary-reachable function re-establishes the initial value
                rep.check(bool(resets), "unaccounted-field", inst, "no document-boundary handler re-establishes this field: " + ent["reason"], site=adt["span"]["at"],
                          detail={"writers": sorted(short(k) for k in wk)})
            else:
                rep.incomplete("unknown class %s for %s" % (cls, inst))
        for nm in ftab:
            rep.check(nm in names, "table-current", "%s.%s" % (owner.split("::")[-1], nm), "the field table names a field that no longer exists")
    rep.floor("fields classified", nfields, 30)
    loader_anchor_isolation(rep, F)
    block_scalar_stops_at_marker(rep, F)
    from . import markers
    rep.floor("document marker tests in the scanner", markers.check(rep, F), 4)
    # the marker tests (next_is_document_indicator / _start / _end) look at four characters: they tell a marker from content only when those
    # four have been requested before (the look-ahead contract of the Input trait, C01's `input-contract` rule, run here as a premise) - a test made
    # on a shorter buffer misses a `...` / `---` line and the next document is swallowed into the last scalar of this one
    if os.environ.get("VERIF_NO_PREMISE") != "1":
        from . import C01 as _C01
        _sub = _C01.run("quick")
        _prem = [v for v in _sub.violations if v["rule"] in ("input-contract", "class-unreachable-panic") and "next_is_document" in v["key"]]
        rep.check(not _prem, "marker-test-lookahead-premise", "next_is_document_*", "a document marker test can run on fewer characters than it looks at (%s): a marker line "
                  "at column 0 is missed and the following document becomes scalar text" % "; ".join(sorted({v["key"][:90] for v in _prem})[:3]),
                  detail={"violations_of_C01": len(_prem)})
    # a remembered absolute index is compared with the cursor's index, never with its column (a column agrees with the index on the first
    # line of a stream only: the same text would scan differently after an earlier document)
    from . import units
    rep.floor("comparisons between cursor coordinates of known unit", units.check(rep, F), 1)
    stream_start_consumes_nothing_of_its_own(rep, F)
    return rep


def restore_is_final(F, owner, nm, rs, restore_blocks, writer_fns):
    """sites in function rs that write field owner.nm - directly or by calling a function that writes it - on a path after a restore"""
    out = []
    after = set()
    for rb in restore_blocks:
        after |= cfg.blocks_reachable_from(rs, [rb])
        t = rs.blocks[rb]["term"]
        if t["k"] == "call":
            after.add(rb)          # the restore is a statement of rb: rb's own terminator comes after it
    after_calls = after
    after_stmts = after - set(restore_blocks)
    for w in cfg.field_writes(rs, owner, nm):
        if w["bb"] in after_stmts and w["bb"] not in restore_blocks:
            out.append("a write at %s" % (w["stmt"]["sp"]["at"].split(":", 1)[1] if w.get("stmt") else "bb%d" % w["bb"]))
    for bb, t, ck, fr in rs.calls():
        if bb in after_calls and ck in writer_fns and ck != rs.key:
            e = " ".join(cfg.expr_str(cfg.expr_operand(rs, a, 6)) for a in t["args"])
            if bb in restore_blocks and "::pop(" in e:
                continue
            out.append("a call of %s" % short(ck))
    return sorted(set(out))


def stream_start_consumes_nothing_of_its_own(rep, F, rule="stream-start-consumes-like-a-document-start"):
    """fetch_stream_start runs once, before the first document only.  If it takes characters from the input (a byte order mark, a
    shebang line, ...) under some character test, a document that follows a '...' line must lose the same characters under the same
    test - otherwise stream B parses differently alone (where its first characters meet fetch_stream_start) and after A (where they
    do not).  Decided structurally: the character tests of fetch_stream_start that guard a consuming call must also be called by the
    functions that run between documents (skip_to_next_token, fetch_next_token, fetch_document_indicator).  A stream start that
    consumes nothing satisfies the rule trivially (the tree as it stands)."""
    S = SCANNER + "::"
    f = F.fns.get(S + "fetch_stream_start")
    if f is None:
        raise facts.MissingAnchor("fetch_stream_start not found")

    def consuming(ck):
        return ck and (ck.endswith(("Input::skip", "Input::skip_n", "Input::raw_read_ch")) or ck.rsplit("::", 1)[-1].startswith(("skip", "read_", "fetch_while", "scan_")))
    cons = [(bb, t, ck) for bb, t, ck, fr in f.calls() if consuming(ck)]
    if not cons:
        rep.ok(rule, "fetch_stream_start consumes no input")
        return
    tests = sorted({ck for bb, t, ck, fr in f.calls() if ck and (ck.startswith("saphyr_parser::char_traits::") or ".next_is" in ck or "::next_is" in ck
                                                                 or ck.endswith(("Input::peek", "Input::look_ch", "Input::peek_nth", "Input::next_char_is")))})
    between = set()
    for nm in ("skip_to_next_token", "fetch_next_token", "fetch_document_indicator", "fetch_more_tokens"):
        g = F.fns.get(S + nm)
        if g is not None:
            between |= {ck for bb, t, ck, fr in g.calls() if ck}
    own = [ck for ck in tests if ck.startswith("saphyr_parser::char_traits::") and ck not in between]

    def char_consts(g):
        out = set()
        for b in g.blocks:
            tt = b["term"]
            if b["cleanup"] or tt["k"] != "switch":
                continue
            e = cfg.expr_operand(g, tt["discr"], 8)
            es = cfg.expr_str(e)
            if "peek" in es or "look_ch" in es:
                out |= {v for v in tt["vals"] if v > 1}
                import re as _re
                out |= {int(x) for x in _re.findall(r"\('char', (\d+)\)", es)}
        return out
    mine = char_consts(f)
    theirs = set()
    for nm in ("skip_to_next_token", "fetch_next_token", "fetch_document_indicator", "fetch_more_tokens"):
        g = F.fns.get(S + nm)
        if g is not None:
            theirs |= char_consts(g)
    own += ["a comparison of the character at the cursor with U+%04X" % c for c in sorted(mine - theirs)]
    if not own and not tests:
        own = ["(unconditionally)"]
    rep.check(not own, rule, "fetch_stream_start", "fetch_stream_start takes characters from the input (%s) under the test %s, which none of the functions that run between "
              "documents makes: the first document of a stream is scanned differently from the same text after a '...' line"
              % (", ".join(sorted({short(ck) for _, _, ck in cons})), ", ".join(short(x) if "::" in x else x for x in own)), site=f.span)


def block_scalar_stops_at_marker(rep, F, rule="block-scalar-stops-at-marker"):
    """A document marker line (`...` as well as `---`) ends a top-level block scalar (otherwise `A ... B` swallows B into A's last
    scalar, and a following `--- B` becomes scalar text): in scan_block_scalar every path from the function entry to the call that
    reads a content line passes a test for that marker, or leaves the test's controlling condition (content indentation 0) on its
    other edge.  Checked once per marker."""
    f = F.fn(SCANNER + "::scan_block_scalar")
    cl = [bb for bb, t, ck, fr in f.calls() if ck and ck.endswith("Scanner::scan_block_scalar_content_line")]
    for marker, names, inst in (("...", ("next_is_document_end", "next_is_document_indicator"), "scan_block_scalar"),
                                ("---", ("next_is_document_start", "next_is_document_indicator"), "scan_block_scalar:document-start")):
        de = [bb for bb, t, ck, fr in f.calls() if fr and fr.get("trait") == INPUT and fr["name"] in names]
        if not cl or not de:
            rep.check(False, rule, inst, "scan_block_scalar does not test for the document marker `%s` before reading a content line "
                      "(content-line calls: %d, marker tests: %d): the marker line and everything after it become scalar text" % (marker, len(cl), len(de)), site=f.span)
            continue
        D = f.dominators()
        forbidden = set()
        for d in de:
            # nearest switch that decides whether the marker test runs
            doms = sorted([x for x in D.get(d, ()) if x != d and f.blocks[x]["term"]["k"] == "switch"], key=lambda x: -len(D.get(x, ())))
            for sw in doms:
                succs = f.succs(sw)
                on = [sx for sx in succs if cfg.dominated_by_edge(f, d, sw, sx)]
                if len(on) == 1 and len(set(succs)) == 2:
                    forbidden |= {(sw, sx) for sx in succs if sx != on[0]}
                    break
        seen, st, path = {0}, [0], {0: None}
        hit = None
        while st and hit is None:
            b = st.pop()
            if f.blocks[b]["cleanup"] or b in de:
                continue
            for sx in f.succs(b):
                if (b, sx) in forbidden or sx in seen:
                    continue
                seen.add(sx)
                path[sx] = b
                if sx in cl:
                    hit = sx
                    break
                st.append(sx)
        pth = []
        x = hit
        while x is not None:
            pth.append(x)
            x = path[x]
        rep.check(hit is None, rule, inst, "a content line of a block scalar at indentation 0 can be read without the line having been "
                  "tested for a document marker (`%s`): the marker and everything after it become scalar text" % marker, site=f.span, detail={"path": pth[::-1]})


def loader_anchor_isolation(rep, F):
    """'through the loading interface no anchor of an earlier document influences a later one': the loader's id -> node table is either
    emptied at a document boundary, or the parser's ids never repeat within a stream (the counter has one writer, an increment)."""
    owner = LOADER
    ladt = F.adt(owner)
    # the table is whatever field the Alias arm of on_event looks the id up in (no reliance on its name or container type)
    on = [f for k, f in F.fns.items() if f.name == "on_event" and f.d.get("impl_adt") == LOADER]
    tab = None
    if on:
        f0 = on[0]
        for bb, t, ck, fr in f0.calls():
            if ck and ck.split("::")[-1] in ("get", "get_mut", "index") and t["args"]:
                e = cfg.strip_reborrow(cfg.expr_operand(f0, t["args"][0], 8))
                for _ in range(3):
                    if e[0] == "ref":
                        e = e[1]
                    if e[0] == "place" and e[1][0] == "call" and "deref" in (e[1][1] or ""):
                        e = cfg.strip_reborrow(e[1][2][0])
                fl = cfg.expr_fields(e) if e[0] == "place" else None
                key_e = cfg.expr_str(cfg.expr_operand(f0, t["args"][1], 8)) if len(t["args"]) > 1 else ""
                if fl and len(fl) == 1 and "Alias" in key_e:
                    tab = fl[0]
    if tab is None:
        # write side: the field insert_new_node stores a clone of the node in, under the `id > 0` test
        for k, g in F.fns.items():
            if g.name == "insert_new_node" and g.d.get("impl_adt") == LOADER:
                for bb, t, ck, fr in g.calls():
                    if ck and ck.split("::")[-1] in ("insert", "push") and len(t["args"]) >= 2 and "clone" in cfg.expr_str(cfg.expr_operand(g, t["args"][-1], 6)):
                        e = cfg.strip_reborrow(cfg.expr_operand(g, t["args"][0], 6))
                        if e[0] == "ref":
                            e = e[1]
                        fl = cfg.expr_fields(e) if e[0] == "place" else None
                        if fl and len(fl) == 1:
                            tab = fl[0]
    if tab is None:
        raise facts.MissingAnchor("the loader's anchor table (the field the Alias arm of on_event looks an id up in) was not found in %s" % owner)
    cleared = []
    for k, f in F.fns.items():
        if f.crate != "saphyr":
            continue
        for w in cfg.field_writes(f, owner, tab):
            if w["kind"] == "borrow_mut" and w.get("use") and (w["use"]["callee"] or "").endswith("::clear"):
                cleared.append(short(k))
            if w["kind"] == "assign" and not f.name.startswith("new") and f.name != "default":
                cleared.append(short(k))
    cw = sorted(k for k, f in F.fns.items() if f.crate == "saphyr_parser" and cfg.field_writes(f, PARSER, "anchor_id_count")
                and not f.name.startswith("new") and not (f.arg_count >= 1 and not f.locals[1]["ty"].startswith("&") and "Parser" in f.locals[1]["ty"]))
    mono = True
    for k in cw:
        f = F.fns[k]
        for w in cfg.field_writes(f, PARSER, "anchor_id_count"):
            e = cfg.expr_operand(f, w["stmt"]["rv"]["a"], 6) if w["kind"] == "assign" and w["stmt"]["rv"]["k"] == "use" else ("?",)
            inc = e[0] == "place" and e[2] == [("field", "0")] and e[1][0] == "bin" and e[1][1] == "AddWithOverflow" and e[1][3][0] == "const" \
                and isinstance(e[1][3][1], int) and e[1][3][1] > 0 and cfg.expr_fields(e[1][2]) == ["anchor_id_count"]
            mono = mono and inc
    rep.check(bool(cleared) or mono, "loader-anchor-isolation", "anchor_id_count~%s" % tab,
              "the loader keeps its id -> node table across documents and the parser's anchor ids can repeat within a stream (counter written by %s): "
              "an alias can resolve to a node of an earlier document" % [short(x) for x in cw],
              detail={"anchor_map_cleared_in": cleared, "counter_writers": [short(x) for x in cw]})


def _borrow_block_of(f, call_bb, owner, nm):
    for w in cfg.field_writes(f, owner, nm):
        if w["kind"] == "borrow_mut" and w.get("use") and w["use"]["bb"] == call_bb:
            return w["bb"]
    return None
