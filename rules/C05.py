"""C05 — block scalars yield exactly the text YAML assigns to them.

The text of a block scalar is a value-level function of its lines and is not decided here.  Four clauses of the statement are, however,
finite tables in the shape of scan_block_scalar, and each is a necessary condition of the property (a wrong row gives a wrong text for
every scalar that uses the row).  They are extracted as guarded-path tables (engine E7: path enumeration over the MIR with symbolic
buffers, no execution) and compared with YAML 1.2.2 chapter 8:

 (a) header-table      c-b-block-header: the indicators may come in either order; '+' selects keep, '-' strip, neither clip; a digit
                       1-9 is the indentation increment (its value, peek - '0'), '0' is an error; every indicator read is consumed.
 (b) chomp-tail-table  8.1.1.2: after the last content line the scalar receives  strip: nothing | clip: the final line break
                       | keep: the final line break, then all trailing empty lines (in that order).
 (c) line-join-table   8.1.2/8.1.3: before a content line, literal style flushes the pending break and empty lines verbatim; folded style
                       does the same unless the previous and this line are both non-indented text, in which case the break becomes a
                       space (or is dropped when empty lines follow).  Both pending buffers are empty afterwards.
 (d) empty-tail-table  a scalar with no content line at the end of the stream: strip and clip give the empty string, keep gives the
                       empty lines; the line break that ends the header is never content (header-break-not-content).
"""
from .common import *
from engine import e7
from engine.e7 import Cons, TRUE, FALSE
from engine.facts import is_local, op_const, const_value, op_place

PID = "C05"
FN = SCANNER + "::scan_block_scalar"
CHOMP = "saphyr_parser::scanner::Chomping"
DIGITS = frozenset(range(0x30, 0x3A))
CONSUME = {"Scanner::skip_non_blank": 1, "Scanner::skip_blank": 1}
LOOKS = ("Input::lookahead", "Input::look_ch", "Input::peek", "Input::next_is_digit", "Scanner::unroll_non_block_indents", "Input::next_is_blank",
         "Input::next_is_z", "Input::next_is_document_end", "Marker::line", "std::cmp::Ord::max", "Input::next_is_break", "Input::next_is_breakz")


def new_report(tier):
    return make_report(PID, tier, "other", [
        "the tables in this file are a faithful transcription of YAML 1.2.2 sections 8.1.1 (block scalar headers, chomping) and 8.1.2/8.1.3 (literal and folded content)",
        "read_break appends exactly one normalised line feed for the break it consumes (C14 normalised-push)",
    ], "E7 guarded-path tables over the MIR of scan_block_scalar: every path of the header, of the per-line join, of the tail chomping and of "
       "the content-less end-of-stream case is enumerated with symbolic constraints on the cursor character, the chomping variant, the "
       "style flag and the emptiness of the pending-break buffers, and the resulting (guard -> effect) table is compared row by row with "
       "the specification's. Decides the four tables only: indentation detection, which lines are content, and the text itself are "
       "value-level and not decided.")


def promoted_variant(f, op):
    """variant name of an enum constant passed by reference (possibly promoted)"""
    l = is_local(op)
    for _ in range(4):
        if l is None:
            return None
        ds = cfg.defs_of_local(f, l)
        if len(ds) != 1 or ds[0][0] != "stmt":
            return None
        rv = ds[0][3]["rv"]
        if rv["k"] == "agg" and rv.get("adt") == CHOMP:
            return rv["variant"]
        if rv["k"] == "use":
            c = op_const(rv["a"])
            if c is not None and c.get("promoted") is not None:
                pb = f.d["promoted"][c["promoted"]]
                for b in pb["blocks"]:
                    for s in b["stmts"]:
                        if s["k"] == "assign" and s["rv"]["k"] == "agg" and s["rv"].get("adt") == CHOMP:
                            return s["rv"]["variant"]
                return None
            l = is_local(rv["a"])
        elif rv["k"] in ("ref", "copyforderef"):
            p = rv["p"]
            l = p["l"] if all(e["k"] == "deref" for e in p["p"]) else None
        else:
            return None
    return None


class BlockRec(e7.Recogniser):
    transparent = (e7.DEREF,) + LOOKS + ("String::with_capacity", "String::new", "String::reserve")

    def __init__(self, F, f):
        super().__init__(f)
        self.F = F
        # the chomping indicator may live in several variables (one per function after a helper was spliced in, temporaries of a returned
        # tuple): they hold the same value, which only constructor assignments change
        ch = [i for i, l in enumerate(f.locals) if l["ty"].endswith("scanner::Chomping")]
        if not [i for i in ch if f.locals[i].get("name")]:
            raise facts.MissingAnchor("scan_block_scalar: the chomping variable was not identified")
        self.chomps = set(ch)
        self.chomp = ch[0]
        from engine import e8 as _e8
        self._sym = _e8.SymRec(f)           # symbolic values along the path: resolves `?` / match on a value whose variant is known
        self.variants = [v["name"] for v in F.adt(CHOMP)["variants"]]
        self.vidx = {v["discr"]: v["name"] for v in F.adt(CHOMP)["variants"]}
        self.str_locals = {i for i, l in enumerate(f.locals) if l["ty"] == "std::string::String"}
        # increments: usize locals assigned (peek as usize) - ('0' as usize)
        self.init_of = {}
        for bb, t, ck, fr in f.calls():
            if ck in (e7.STR + "new", e7.STR + "with_capacity") and not t["dest"]["p"]:
                self.init_of[t["dest"]["l"]] = ("local", bb)

    def named_bool(self, op):
        """the named bool variable a switch operand is a plain copy of (possibly through `!`-free temporaries)"""
        f = self.f
        l = is_local(op)
        for _ in range(4):
            if l is None:
                return None
            if f.locals[l]["ty"] == "bool" and f.locals[l].get("name"):
                return l
            ds = cfg.defs_of_local(f, l)
            if len(ds) != 1 or ds[0][0] != "stmt" or ds[0][3]["rv"]["k"] != "use":
                return None
            l = is_local(ds[0][3]["rv"]["a"])
        return None

    def mutates_state(self, t):
        """does a call receive `&mut *self` or a `&mut String`"""
        f = self.f
        for a in t["args"]:
            l = is_local(a)
            if l is None:
                continue
            ty = f.locals[l]["ty"]
            if ty.startswith("&mut") and ("Scanner" in ty or "String" in ty or ty.startswith("&mut T") or "input" in ty.lower()):
                return True
        return False

    def _is_chomp_place(self, e):
        return False

    def _raw_chomp_discr(self, op):
        """the switch operand is `discriminant(v)` of one of the chomping holders (looked up on the raw statement, so that a holder with
        a single definition is not expanded into the expression it was moved from)"""
        f = self.f
        l = is_local(op)
        if l is None:
            return False
        ds = cfg.defs_of_local(f, l)
        return len(ds) == 1 and ds[0][0] == "stmt" and ds[0][3]["rv"]["k"] == "discr" and ds[0][3]["rv"]["p"]["l"] in self.chomps and not ds[0][3]["rv"]["p"]["p"]

    def _raw_chomp_ref(self, op):
        f = self.f
        l = is_local(op)
        for _ in range(3):
            if l is None:
                return False
            ds = cfg.defs_of_local(f, l)
            if len(ds) != 1 or ds[0][0] != "stmt":
                return False
            rv = ds[0][3]["rv"]
            if rv["k"] == "ref":
                if rv["p"]["l"] in self.chomps and not rv["p"]["p"]:
                    return True
                l = rv["p"]["l"] if [x["k"] for x in rv["p"]["p"]] == ["deref"] else None
            elif rv["k"] == "use":
                l = is_local(rv["a"])
            else:
                return False
        return False

    def buf_of_local(self, l):
        return self.init_of.get(l)

    # ---- guards
    def guard(self, bi, st):
        f = self.f
        t = f.blocks[bi]["term"]
        e = cfg.expr_operand(f, t["discr"], 8)
        if self._raw_chomp_discr(t["discr"]) or (e[0] == "discr" and e[1][0] in ("phi", "local") and e[1][1] in self.chomps):
            edges, listed = [], []
            for v, tg in zip(t["vals"], t["targets"]):
                edges.append((Cons([self.vidx[v]]), tg))
                listed.append(self.vidx[v])
            edges.append((Cons(neg=listed), t["otherwise"]))
            return (("chomp",), edges)
        if t["dty"] != "bool" or t["vals"] != [0]:
            from engine import e8 as _e8
            sv = _e8.operand_value(f, t["discr"], st)
            if sv[0] == "const" and isinstance(sv[1], int) and t["dty"] in ("isize", "usize", "u8", "i8", "u32", "i32"):
                # the variant tested is known on this path (an Option / ControlFlow built a few statements earlier)
                for v, tg in zip(t["vals"], t["targets"]):
                    if v == sv[1]:
                        return (("known", bi), [(TRUE, tg)])
                return (("known", bi), [(TRUE, t["otherwise"])])
            if t["dty"] == "char" and e[0] == "call" and e[1] and e[1].endswith(("Input::peek", "Input::look_ch")):
                # a match on the character at the cursor
                edges = [(Cons([v]), tg) for v, tg in zip(t["vals"], t["targets"])]
                edges.append((Cons(neg=t["vals"]), t["otherwise"]))
                return (("cur", st.get("epoch", 0)), edges)
            # any other multi-way test (the ControlFlow of a `?`, an Option ...) only forks the path
            edges = [(Cons([v]), tg) for v, tg in zip(t["vals"], t["targets"])]
            edges.append((Cons(neg=t["vals"]), t["otherwise"]))
            return (("opaque", "multi", bi), edges)
        tt, ft = t["otherwise"], t["targets"][0]
        while e[0] == "un" and e[1] == "Not":
            e = e[2]
            tt, ft = ft, tt
        if e[0] == "call" and e[1] in (e7.STR + "is_empty", "str::is_empty") and e7.buf_id(e[2][0]) is not None:
            b = e7.buf_id(e[2][0])
            return (("empty", b), [(TRUE, tt), (FALSE, ft)])
        if e[0] == "call" and e[1] in ("std::cmp::PartialEq::eq", "std::cmp::PartialEq::ne") or (e[0] == "call" and e[1] and e[1].startswith("<" + CHOMP + " as std::cmp::PartialEq")):
            # chomping ==/!= <constant variant>
            blk = f.blocks[e[3]]["term"]
            a0 = cfg.strip_reborrow(cfg.expr_operand(f, blk["args"][0], 10))
            v = promoted_variant(f, blk["args"][1])
            if self._raw_chomp_ref(blk["args"][0]) or (a0[0] == "ref" and a0[1][0] in ("phi", "local") and a0[1][1] in self.chomps):
                if v is None:
                    return None
                is_ne = blk["f"]["fn"]["name"] == "ne"
                yes, no = Cons([v]), Cons(neg=[v])
                return (("chomp",), [(no if is_ne else yes, tt), (yes if is_ne else no, ft)])
        if e == ("param", 2):
            return (("literal",), [(TRUE, tt), (FALSE, ft)])
        nb = self.named_bool(t["discr"])
        if nb is not None:
            neg = False
            return (("bool", nb), [(TRUE, t["otherwise"]), (FALSE, t["targets"][0])])
        if e[0] == "bin" and e[1] == "Eq" and any(x[0] == "place" and cfg.expr_fields(x) == ["mark", "line"] for x in (e[2], e[3])) and \
                any((x[0] == "call" and x[1] and x[1].endswith("Marker::line")) or (x[0] == "place" and x[1][0] != "param" and x[2][-1:] == [("field", "line")])
                    for x in (e[2], e[3])):
            return (("same-line",), [(TRUE, tt), (FALSE, ft)])
        if e[0] == "bin" and e[1] == "Eq" and e[2][0] == "call" and e[2][1] and e[2][1].endswith(("Input::peek", "Input::look_ch")) \
                and e[3][0] == "const" and isinstance(e[3][1], tuple):
            c = e[3][1][1]
            return (("cur", st.get("epoch", 0)), [(Cons([c]), tt), (Cons(neg=[c]), ft)])
        if e[0] == "call" and e[1] and e[1].endswith("Input::next_is_digit"):
            return (("cur", st.get("epoch", 0)), [(Cons(DIGITS), tt), (Cons(neg=DIGITS), ft)])
        # anything else only forks the path
        return (("opaque", cfg.expr_str(e)[:70], bi), [(TRUE, tt), (FALSE, ft)])

    # ---- effects
    def stmt(self, s, st):
        f = self.f
        self._sym.stmt(s, st)
        if s["k"] != "assign" or s["lhs"]["p"]:
            return None
        l = s["lhs"]["l"]
        rv = s["rv"]
        if l in self.chomps:
            if rv["k"] == "agg" and rv.get("adt") == CHOMP:
                # a temporary that is then moved into the variable is reported once, at the temporary
                return ("set_chomp", rv["variant"])
            if rv["k"] == "use":
                c = op_const(rv["a"])
                if c is None:
                    return None          # the value moves from one holder to another (variable <- temporary / tuple field)
            return ("set_chomp", "?")
        nm = f.locals[l].get("name")
        if f.locals[l]["ty"] == "usize" and nm and rv["k"] == "use":
            e = cfg.expr_operand(f, rv["a"], 8)
            if e == ("const", 0):
                return ("set_usize", l, "0")
            if e[0] == "place" and e[2] == [("field", "0")] and e[1][0] == "bin" and e[1][1] == "SubWithOverflow":
                a, b = e[1][2], e[1][3]
                if a[0] == "cast" and a[1] == "usize" and a[2][0] == "call" and a[2][1].endswith("Input::peek") and b == ("cast", "usize", ("const", ("char", 48))) \
                        or (a[0] == "cast" and a[2][0] == "call" and a[2][1].endswith("Input::peek") and b[0] == "const" and b[1] == 48):
                    return ("set_usize", l, "digit-value", st.get("epoch", 0))
            return None
        if l in self.str_locals and rv["k"] == "use" and nm:
            src = is_local(rv["a"])
            if src in self.str_locals:
                return ("move", l, self.buf_of_local(src) or ("var", src))
        return None

    def call(self, bi, t, ck, st):
        f = self.f
        from engine import e8 as _e8
        _e8.SymRec.call(self._sym, bi, t, ck, st)
        for k, n in CONSUME.items():
            if ck.endswith(k):
                st["epoch"] = st.get("epoch", 0) + 1
                return ("op", ("consume", st["epoch"] - 1))
        if ck.endswith("ScanError::new_str"):
            return ("op", ("err",))
        if ck == e7.STR + "new" and not t["dest"]["p"] and f.locals[t["dest"]["l"]].get("name") and st.get("region") == "empty-tail":
            return ("op", ("fresh", t["dest"]["l"]))
        if ck.endswith("Scanner::read_break"):
            return ("op", ("read_break", e7.buf_id(cfg.expr_operand(f, t["args"][1], 8)), None))
        if ck.endswith(("Scanner::skip_block_scalar_indent", "Scanner::skip_block_scalar_first_line_indent")):
            return "stop"
        r = super().call(bi, t, ck, st)
        if r == "stop" and not self.mutates_state(t):
            return "transparent"
        return r


def roles(F, f, rec):
    ops = e7.string_ops(f)
    dests = {b for bb, op, b, arg in ops if op == "push_str"}
    if len(dests) != 1:
        raise facts.MissingAnchor("scan_block_scalar: output string not identified")
    out = dests.pop()
    loops = f.natural_loops()
    inloop = set()
    for h, body in loops.items() if isinstance(loops, dict) else loops:
        inloop |= set(body)
    lb = hb = tb = None
    for bb, op, b, arg in ops:
        if op == "read_break":
            if bb in inloop:
                lb = b
            else:
                hb = b
    for bb, t, ck, fr in f.calls():
        if ck and ck.endswith("Scanner::skip_block_scalar_indent"):
            tb = e7.buf_id(cfg.expr_operand(f, t["args"][2], 8))
    if None in (lb, hb, tb) or len({lb, hb, tb, out}) != 4:
        raise facts.MissingAnchor("scan_block_scalar: buffer roles not identified (final break %s, header break %s, empty lines %s)" % (lb, hb, tb))
    return {"out": out, "lb": lb, "tb": tb, "hb": hb}


def _fmt_guards(f, g, R):
    out = []
    names = {R["lb"]: "final-break", R["tb"]: "empty-lines", R["hb"]: "header-break", R["out"]: "text"}
    for k, c in sorted(g.items(), key=str):
        if k[0] == "opaque":
            continue
        if k[0] == "empty":
            out.append("%s %s" % (names.get(k[1], e7.buf_name(f, k[1])), "empty" if c.admits(True) else "non-empty"))
        elif k[0] == "bool":
            out.append("%s=%s" % (f.locals[k[1]].get("name"), c))
        else:
            out.append("%s=%s" % ("/".join(map(str, k)), c))
    return ", ".join(out)


def header_table(rep, F, f, rec):
    """(a)"""
    ps = e7.paths(f, 0, rec, init_state={"epoch": 0})
    rows = set()
    n = 0
    for p in ps:
        # the header region ends at the call that skips the rest of the line (skip_ws_to_eol) or at an error
        why = p["why"]
        seq = []
        chomp = "Clip?"
        inc = None
        err = False
        consumed = set()
        for o in p["ops"]:
            if o[0] == "set_chomp":
                chomp = o[1]
            elif o[0] == "set_usize" and o[2] == "digit-value":
                inc = ("digit", o[3])
            elif o[0] == "consume":
                consumed.add(o[1])
            elif o[0] == "err":
                err = True
        cur = {k[1]: c for k, c in p["guards"].items() if k[0] == "cur"}
        # drop the first epoch: it is the '|' or '>' itself (consumed unconditionally before any test)
        rows.add((tuple(sorted((e, repr(c)) for e, c in cur.items())), chomp, inc, err, tuple(sorted(consumed)), why.split("::")[-1]))
    return ps, rows


def check_header(rep, F, f, rec):
    ps = e7.paths(f, 0, rec, init_state={"epoch": 0})
    ok_rows = 0
    bad = []
    seen_shapes = set()
    for p in ps:
        ops = p["ops"]
        chomp = None
        inc_epoch = None
        err = any(o[0] == "err" for o in ops)
        consumed = [o[1] for o in ops if o[0] == "consume"]
        for o in ops:
            if o[0] == "set_chomp":
                chomp = o[1]
            if o[0] == "set_usize" and o[2] == "digit-value":
                inc_epoch = o[3]
        cur = {k[1]: c for k, c in p["guards"].items() if k[0] == "cur"}
        # indicator positions are the epochs after the style character (epoch 0 is consumed before any test)
        ind = []
        for e in sorted(cur):
            c = cur[e]
            if c.pos is not None:
                if c.pos <= {0x2B}:
                    ind.append((e, "+"))
                elif c.pos <= {0x2D}:
                    ind.append((e, "-"))
                elif c.pos <= {0x30}:
                    ind.append((e, "0"))
                elif c.pos <= DIGITS - {0x30}:
                    ind.append((e, "d"))
                elif c.pos <= DIGITS:
                    ind.append((e, "D"))
                else:
                    ind.append((e, "other"))
        shape = "".join(s for _, s in ind)
        # expected result of the shape
        want_chomp = "Keep" if "+" in shape else ("Strip" if "-" in shape else "Clip")
        want_err = "0" in shape
        has_digit = "d" in shape
        desc = "header %r" % shape
        if not p["why"].endswith(("skip_ws_to_eol", "return")) and not err:
            continue  # path left the header region some other way (not expected)
        seen_shapes.add(shape)
        okp = True
        msg = []
        if want_err:
            if not err:
                okp = False
                msg.append("an indentation indicator 0 is accepted")
        else:
            if err:
                okp = False
                msg.append("a well-formed header is rejected")
            got = chomp or "Clip"
            if got != want_chomp:
                okp = False
                msg.append("chomping is %s, YAML says %s" % (got, want_chomp))
            if has_digit != (inc_epoch is not None):
                okp = False
                msg.append("the indentation digit is %s" % ("not stored" if has_digit else "stored without a digit having been read"))
            if has_digit and inc_epoch is not None:
                de = [e for e, s in ind if s == "d"][0]
                if de != inc_epoch:
                    okp = False
                    msg.append("the increment is computed from a character other than the digit")
            # every indicator read is consumed
            for e, s in ind:
                if s in "+-d" and e not in consumed:
                    okp = False
                    msg.append("indicator %r is tested but not consumed" % s)
        rep.check(okp, "header-table", desc if okp else desc + " " + _fmt_guards(f, p["guards"], {"lb": None, "tb": None, "hb": None, "out": None}),
                  "block scalar header handling differs from YAML 1.2 section 8.1.1: " + "; ".join(msg), site=f.span)
        ok_rows += 1
    need = {"", "+", "-", "+d", "-d", "d", "d+", "d-", "+0", "-0", "0"}
    missing = sorted(need - seen_shapes)
    rep.check(not missing, "header-table", "coverage", "some header forms of c-b-block-header have no path: %s" % missing, site=f.span, detail=sorted(seen_shapes))
    return ok_rows


def _regions(F, f, rec):
    """start blocks of the per-line join, the tail chomping and the content-less end-of-stream case"""
    content = [bb for bb, t, ck, fr in f.calls() if ck and ck.endswith("Scanner::scan_block_scalar_content_line")]
    if len(content) != 1:
        raise facts.MissingAnchor("scan_block_scalar: the call that reads a content line was not found")
    content = content[0]
    loops = f.natural_loops()
    items = loops.items() if isinstance(loops, dict) else loops
    cands = [(h, set(body)) for h, body in items if content in body]
    if not cands:
        raise facts.MissingAnchor("scan_block_scalar: the content loop was not found")
    head, body = min(cands, key=lambda x: len(x[1]))
    after = cfg.blocks_reachable_from(f, [b for x in body for b in f.succs(x) if b not in body])
    # blocks that test the chomping variable
    tests = []
    for bi, b in enumerate(f.blocks):
        if b["cleanup"] or b["term"]["k"] != "switch":
            continue
        g = rec.guard(bi, {})
        if g and g[0] == ("chomp",):
            tests.append(bi)
    tail = [b for b in tests if b in after and b not in body]
    empty = [b for b in tests if b not in after and b not in body]
    if not tail or not empty:
        raise facts.MissingAnchor("scan_block_scalar: tail chomping / content-less case not found (tests of the chomping variable: %s)" % tests)
    D = f.dominators()
    tail0 = [b for b in tail if all(b in D.get(x, ()) or x == b for x in tail)]
    empty0 = [b for b in empty if all(b in D.get(x, ()) or x == b for x in empty)]
    if not tail0 or not empty0:
        raise facts.MissingAnchor("scan_block_scalar: no dominating test of the chomping variable")

    def call_block_of(sw):
        # the comparison call feeding the switch sits in the predecessor
        e = cfg.expr_operand(f, f.blocks[sw]["term"]["discr"], 8)
        while e[0] == "un":
            e = e[2]
        return e[3] if e[0] == "call" else sw
    return {"content": content, "loop_head": head, "loop_body": body, "tail": call_block_of(tail0[0]), "empty": call_block_of(empty0[0])}


def _emitted(p, R, a):
    """symbols appended to the text on path p under assignment a; (list, leftovers, buffers_after)"""
    state = {R["lb"]: "empty" if a.get(("empty", R["lb"])) else "nonempty", R["tb"]: "empty" if a.get(("empty", R["tb"])) else "nonempty"}
    em, other = [], []
    for o in p["ops"]:
        if o[0] in ("push_str", "push", "clear", "read_break", "take"):
            op, b, arg = o
            if b == R["out"]:
                if op == "push_str" and arg[0] == "buf" and arg[1] in state:
                    if state[arg[1]] != "empty":
                        em.append("final-break" if arg[1] == R["lb"] else "empty-lines")
                elif op == "push" and arg[0] == "char":
                    em.append(repr(chr(arg[1])))
                else:
                    other.append(str(o))
            elif b in state and op == "clear":
                state[b] = "empty"
            elif b in state and op == "push" and arg == ("char", 10):
                state[b] = "nonempty"
                other.append("line feed appended to " + ("final-break" if b == R["lb"] else "empty-lines"))
            else:
                other.append(str(o))
    return em, other, state


def check_tail(rep, F, f, rec, R, G):
    ps = e7.paths(f, G["tail"], rec)
    ps = [p for p in ps if p["why"] == "return"]
    n = 0
    for v in rec.variants:
        for e_lb in (True, False):
            for e_tb in (True, False):
                a = {("chomp",): v, ("empty", R["lb"]): e_lb, ("empty", R["tb"]): e_tb}
                ms = e7.matching(ps, a)
                n += 1
                inst = "tail(%s,final-break=%s,empty-lines=%s)" % (v, "none" if e_lb else "some", "none" if e_tb else "some")
                lbp = [] if e_lb else ["final-break"]
                tbp = [] if e_tb else ["empty-lines"]
                if v == "Strip":
                    allowed = [[]]
                elif v == "Clip":
                    allowed = [lbp, lbp + [repr("\n")]]
                else:
                    allowed = [lbp + tbp, lbp + [repr("\n")] + tbp]
                got = []
                okv = bool(ms)
                for p in ms:
                    em, other, st = _emitted(p, R, a)
                    got.append(em)
                    if em not in allowed or other:
                        okv = False
                # clip and keep: the break implied by the end of input (a last content line without a line break) is appended on some
                # path of this case - which one is decided by the end-of-input test, rule implied-final-break
                if v in ("Clip", "Keep") and allowed[1] not in got:
                    okv = False
                rep.check(okv, "chomp-tail-table", inst, "tail chomping differs from YAML 1.2 section 8.1.1.2 (strip: nothing; clip: the final line break; keep: the final "
                          "line break then the trailing empty lines)", site=f.span, detail={"appended_on_some_path": got, "allowed": allowed})
    return n


def check_join(rep, F, f, rec, R, G):
    ps = e7.paths(f, G["loop_head"], rec)
    ps = [p for p in ps if p["end"] == G["content"]]
    bools = sorted({k for p in ps for k in p["guards"] if k[0] == "bool"})
    n = 0
    import itertools
    for lit, e_lb, e_tb in itertools.product((True, False), repeat=3):
        for bv in itertools.product((True, False), repeat=len(bools)):
            a = {("literal",): lit, ("empty", R["lb"]): e_lb, ("empty", R["tb"]): e_tb}
            a.update(dict(zip(bools, bv)))
            ms = e7.matching(ps, a)
            n += 1
            inst = "join(%s,pending-break=%s,empty-lines=%s,%s)" % ("literal" if lit else "folded", "none" if e_lb else "some", "none" if e_tb else "some",
                                                                   ",".join("%s=%s" % (f.locals[k[1]].get("name"), v) for k, v in zip(bools, bv)))
            fold = (not lit) and (not e_lb) and not any(bv)
            lbp = [] if e_lb else ["final-break"]
            tbp = [] if e_tb else ["empty-lines"]
            want = (tbp if tbp else [repr(" ")]) if fold else lbp + tbp
            okv = bool(ms)
            got = []
            for p in ms:
                em, other, st = _emitted(p, R, a)
                got.append({"appended": em, "after": {("pending-break" if b == R["lb"] else "empty-lines"): s for b, s in st.items()}, "other": other})
                if em != want or other or st[R["lb"]] != "empty" or st[R["tb"]] != "empty":
                    okv = False
            rep.check(okv, "line-join-table", inst, "joining of block scalar lines differs from YAML 1.2 sections 8.1.2/8.1.3 (literal: break and empty lines verbatim; folded: "
                      "a single break between two non-indented text lines becomes a space, or is dropped when empty lines follow; both buffers empty afterwards)",
                      site=f.span, detail={"want": want, "got": got})
    rep.check(len(bools) == 2, "line-join-table", "more-indented-flags", "the per-line join is expected to depend on two flags (previous line / this line starts with a blank); "
              "found %d" % len(bools), site=f.span)
    return n


def check_empty(rep, F, f, rec, R, G):
    ps = e7.paths(f, G["empty"], rec, init_state={"region": "empty-tail"})
    ps = [p for p in ps if p["why"] == "return"]
    n = 0
    hb_used = []
    for v in rec.variants:
        for e_tb, same in ((True, True), (True, False), (False, False)):
            # still on the header's line => no line break was read => no empty lines can be pending
            a = {("chomp",): v, ("empty", R["tb"]): e_tb, ("same-line",): same}
            ms = e7.matching(ps, a)
            n += 1
            inst = "empty(%s,empty-lines=%s%s)" % (v, "none" if e_tb else "some", ",no break after the header" if same else "")
            okv = bool(ms)
            got = []
            for p in ms:
                res = None
                grown = False
                other = []
                for o in p["ops"]:
                    if o[0] == "fresh":
                        res = "empty string"
                    elif o[0] == "move":
                        res = {R["hb"]: "header-break", R["tb"]: "empty-lines", R["lb"]: "final-break"}.get(o[2], str(o[2]))
                    elif o[0] == "push" and o[1] == R["tb"] and o[2] == ("char", 10):
                        grown = True
                    elif o[0] in ("push_str", "push", "read_break", "clear"):
                        other.append(str(o))
                got.append(res + ("+line feed" if grown else "") if res else "nothing")
                if res == "header-break":
                    hb_used.append(inst)
                if v in ("Strip", "Clip"):
                    good = res == "empty string" and not grown
                else:
                    good = res == "empty-lines" or (res == "empty string" and e_tb and not grown)
                if not good or other:
                    okv = False
            rep.check(okv, "empty-tail-table", inst, "a block scalar without content at the end of the stream must be the empty string (strip, clip) or its "
                      "empty lines (keep)", site=f.span, detail={"result_on_some_path": got})
    rep.check(not hb_used, "header-break-not-content", "scan_block_scalar", "the line break that ends the block scalar header is used as scalar content",
              site=f.span, detail=sorted(set(hb_used)))
    return n


def run(tier):
    rep = new_report(tier)
    F = facts.load()
    f = F.fn(FN)
    rec = BlockRec(F, f)
    R = roles(F, f, rec)
    rep.extra["roles"] = {k: e7.buf_name(f, v) for k, v in R.items()}
    n = check_header(rep, F, f, rec)
    rep.floor("header paths", n, 11)
    G = _regions(F, f, rec)
    rep.extra["regions"] = {k: (v if isinstance(v, int) else len(v)) for k, v in G.items()}
    rep.floor("tail chomping cases", check_tail(rep, F, f, rec, R, G), 12)
    rep.floor("line join cases", check_join(rep, F, f, rec, R, G), 32)
    rep.floor("content-less cases", check_empty(rep, F, f, rec, R, G), 6)
    from . import blockindent
    rep.floor("explicit indentation cases", blockindent.check(rep, F), 80)
    rep.floor("end-of-input tests that append the implied final break", blockindent.implied_final_break(rep, F), 1)
    breaks_are_single_line_feeds(rep, F)
    # the rest of the header line (blanks and a comment) is skipped with Input::skip_ws_to_eol: what the string back-end's override takes for
    # "the rest of the line" must be what the provided body takes (a comment that runs over a lone CR swallows content lines) - C10's clause
    from . import C10 as _C10
    _C10.skip_ws_to_eol_agreement(rep, F, tier, "header-line-skip-agreement")
    # 'parent context: top level': the content lines of a block scalar at indentation 0 are the lines up to the next document marker; a
    # `...` / `---` line read as a content line puts the marker and whatever follows it into the scalar's text (C15's clause, run here
    # as a premise: every path to the content-line reader passes the marker test or leaves through the other edge of `indent == 0`)
    from . import C15 as _C15
    _C15.block_scalar_stops_at_marker(rep, F, rule="top-level-content-ends-at-marker")
    return rep


def breaks_are_single_line_feeds(rep, F, rule="break-consumed-as-a-whole", roots=None, what="a block scalar", floor=3):
    """'reports its content lines verbatim', 'keeps blank lines': a line break of the input (LF, CR or CR LF) is one break of the scalar.  The
    functions of the block-scalar family consume breaks only through the helpers that take a CR LF pair as a whole (read_break, skip_break,
    skip_linebreak); a direct skip_nl - which moves over one character - counts CR LF as two breaks (blank lines are doubled)."""
    S_ = SCANNER + "::"
    helpers = {S_ + "read_break", S_ + "skip_break", S_ + "skip_linebreak", S_ + "skip_nl"}
    fam, work = set(), list(roots or [FN])
    while work:
        k = work.pop()
        if k in fam or k in helpers or k not in F.fns:
            continue
        fam.add(k)
        for bb, t, ck, fr in F.fns[k].calls():
            if ck and ck.startswith(S_) and ck not in fam:
                work.append(ck)
    n = 0
    for k in sorted(fam):
        g = F.fns[k]
        whole = [ck for bb, t, ck, fr in g.calls() if ck in helpers and not ck.endswith("::skip_nl")]
        n += len(whole)
        for bb, t, ck, fr in g.calls():
            if ck == S_ + "skip_nl":
                rep.bad(rule, short(k), "a line break inside %s is consumed with skip_nl (one character) instead of read_break / skip_break: a CR LF "
                        "pair counts as two breaks" % what, site=site(g, t["sp"]))
        if whole:
            rep.ok(rule, short(k))
    rep.floor("break-consuming calls in the functions that scan %s" % what, n, floor)
