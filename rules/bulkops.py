"""The bulk operations of StrInput stop where the provided bodies stop (used by C10).

Input::skip_while_non_breakz / skip_while_blank / fetch_while_is_alpha have provided bodies that look at one character at a time
(`while P(look_ch()) { skip() }`) and StrInput overrides that walk the string directly.  Both are loops that go on or stop depending
on the unit at the cursor (a char, or a byte of the UTF-8 text).  E8 enumerates one round of each loop with that unit as the only
symbol and folds the guards over every value of it: the table "goes on / stops" of the override must equal that of the provided
body on ASCII, and for the lead/continuation bytes of a multi-byte character (byte-level overrides) be what the provided body does
for a non-ASCII character.  An override without a loop of its own that hands a one-argument test to an iterator adaptor is judged
by the folded table of that test.
"""
from .common import *
from engine import e7, e8, fold
from engine.e8 import Unknown

STR = "<%s as %s>::" % (STRINPUT, INPUT)
OPS = ("skip_while_non_breakz", "skip_while_blank", "fetch_while_is_alpha")
NEXTS = ("Iterator>::next", "Iterator::next", "::split_first_char")


def _strip(v):
    while v[0] == "cast":
        v = v[2]
    return v


class UnitRec(e8.SymRec):
    def __init__(self, F, f):
        super().__init__(f)
        self.F = F
        self.level = None
        self.tabs = {}
        self.domains = {}

    def _unit(self, v):
        v = _strip(v)
        if v[0] == "call" and v[1] and v[1].endswith(("Input::look_ch", "Input::peek")):
            return "char"
        x = v
        byte = False
        while x[0] == "proj":
            if x[2] == "index":
                byte = True
            x = x[1]
            x = _strip(x)
        if v[0] == "proj" and x[0] == "call" and x[1] and x[1].endswith("Try>::branch") and x[2]:
            x = _strip(x[2][0])          # `it.next()?`: the payload of Continue is the payload of the Some
        if v[0] == "proj" and x[0] == "call" and x[1]:
            if byte and x[1].endswith("::as_bytes"):
                return "byte"
            if not byte and x[1].endswith(NEXTS):
                return "byte" if "Bytes" in x[1] else "char"
        if v[0] == "proj" and x[0] == "in" and byte and self.f.locals[x[1]]["ty"] in ("&[u8]", "&mut [u8]"):
            return "byte"        # a byte slice taken before the loop (the only byte slices of these functions are views of the text)
        if v[0] == "adt":
            return None
        return None

    def leaf(self, v):
        k = self._unit(v)
        if k is not None:
            self.level = self.level or k
            return ("unit",)
        return None

    def interp(self, v, env):
        if self._unit(v) is not None and ("unit",) in env:
            return env[("unit",)]
        if v[0] == "cast" and v[1] == "char":
            return None
        if v[0] == "call" and v[1] and v[1].startswith("saphyr_parser::char_traits::") and len(v[2]) == 1:
            if v[1] not in self.tabs:
                self.tabs[v[1]] = frozenset(fold.predicate_table(self.F, v[1], alphabet=list(range(256)) + fold.ALPHABET))
            return int(e8.evaluate(v[2][0], env, self.interp) in self.tabs[v[1]])
        if v[0] == "call" and v[1] and (v[1].startswith(("u8::is_ascii", "char::is_ascii")) or v[1] in ("u8::is_ascii", "char::is_ascii")) and v[2]:
            c = e8.evaluate(v[2][0] if v[2][0][0] != "ref" else v[2][0][1], env, self.interp)
            return fold.Folder(self.F)._intrinsic(self.f, {"key": v[1]}, [c])
        return None

    def call_effect(self, bi, t, ck, st):
        return "transparent"


def loop_table(F, f):
    """{unit value: 'on' | 'stop' | 'both' | 'none'} for the single loop of f, the level ('char'/'byte'), or None if f has no loop"""
    loops = f.natural_loops()
    if not loops:
        return None, None
    # the loop that tests the unit: take the one with most blocks
    head, body = max(loops, key=lambda hb: len(hb[1]))
    rec = UnitRec(F, f)
    rec.domains = {("unit",): list(range(256)) + [c for c in fold.ALPHABET if c > 255]}
    outside = {b for b in range(len(f.blocks)) if b not in body}
    ps = e7.paths(f, head, rec, stop_at=outside, limit=5000)
    table = {}
    for u in rec.domains[("unit",)]:
        on = stop = False
        for p in ps:
            if ("unit",) not in p["guards"] or not p["guards"][("unit",)].admits(u):
                continue
            if p["why"] == "back-edge" and p["end"] == head:
                on = True
            elif p["why"] in ("stop", "return"):
                stop = True
        table[u] = "both" if on and stop else "on" if on else "stop" if stop else "none"
    return table, rec.level


def all_ops(F):
    """the reviewed bulk operations plus every other provided Input method that consumes and answers a count (rules/C12.derived_consumers)"""
    from . import C12
    return tuple(OPS) + tuple(sorted(nm for nm, kind in C12.derived_consumers(F).items() if kind == "bulk" and nm not in OPS))


def check(rep, F, rule="bulk-operation-agreement"):
    n = 0
    for nm in all_ops(F):
        ov, df = F.fns.get(STR + nm), F.fns.get(INPUT + "::" + nm)
        if ov is None or df is None:
            rep.ok(rule, nm, "no override" if ov is None else "no default")
            continue
        n += 1
        # the tables below judge one round of the loop; they speak for the operation only when the loop decides alone how far it goes: in an
        # override that has a loop of its own, every path from the entry to a return passes the loop's head (a test placed before the loop -
        # "nothing to skip unless the first byte is a space" - stops where the provided body goes on)
        _lp = ov.natural_loops()
        _heads = {h for h, b in (list(_lp.items()) if isinstance(_lp, dict) else list(_lp))}
        if _heads:
            _p = cfg.path_avoiding(ov, [0], _heads, set(cfg.return_blocks(ov)))
            rep.check(_p is None, rule, nm + ":exit-before-the-loop", "the string back-end's %s can return without entering its loop (a test ahead of the loop decides): it stops "
                      "on texts where the provided body goes on" % nm, site=ov.span, detail={"path": _p})
        try:
            tp, lp = loop_table(F, df)
            to, lo = loop_table(F, ov)
        except (Unknown, fold.Unsupported, fold.Diverged, RuntimeError) as ex:
            rep.incomplete("cannot tabulate %s: %s" % (nm, ex), ov.span)
            continue
        if tp is None or lp is None:
            rep.incomplete("the provided body of %s has no loop over the character at the cursor" % nm, df.span)
            continue
        hi = {tp[c] for c in fold.ALPHABET if c > 127}
        if len(hi) != 1 or any(tp[c] not in ("on", "stop") for c in range(128)):
            rep.incomplete("the provided body of %s is not a function of the character at the cursor alone" % nm, df.span)
            continue
        hi = hi.pop()
        if to is None or lo is None:
            # no loop of its own: a one-argument test handed to an iterator adaptor
            UNIT_TYS = ("u8", "&u8", "&&u8", "char", "&char", "(usize, char)", "&(usize, char)", "(usize, u8)", "&(usize, u8)")
            tests = [g for g in F.closures_of(ov.key) if g.arg_count == 2 and g.locals[0]["ty"] == "bool" and g.locals[2]["ty"] in UNIT_TYS]
            ok = False
            det = []
            for g in tests:
                try:
                    acc = set()
                    for c in range(256):
                        ty = g.locals[2]["ty"]
                        unit = ("tuple", 0, c) if "(" in ty else c
                        for _ in range(len(ty) - len(ty.lstrip("&"))):
                            unit = ("ref", unit)
                        if fold.Folder(F).call(g.key, [("zst",), unit]):
                            acc.add(c)
                except (fold.Unsupported, fold.Diverged) as ex:
                    det.append("%s: %s" % (short(g.key), ex))
                    continue
                on_p = {c for c in range(128) if tp[c] == "on"} | ({c for c in range(128, 256)} if hi == "on" else set())
                stop_p = set(range(256)) - on_p
                if acc == on_p or acc == stop_p:
                    ok = True
                else:
                    det.append("%s accepts a class that is neither where the provided body goes on nor where it stops: differs on %s" % (
                        short(g.key), ", ".join("0x%02X" % c for c in sorted((acc ^ stop_p) if len(acc ^ stop_p) < len(acc ^ on_p) else (acc ^ on_p))[:6])))
            rep.check(ok, rule, nm, "StrInput::%s does not stop where the provided body stops: %s" % (nm, "; ".join(det) or "no loop and no character test found"),
                      site=ov.span, detail=det)
            continue
        wrong = []
        dom = range(256) if lo == "byte" else list(range(128)) + [c for c in fold.ALPHABET if c > 127]
        for c in dom:
            want = tp[c] if c < 128 else (hi if lo == "byte" else tp[c])
            if to.get(c) != want:
                wrong.append("%s: override %s, provided body %s" % (("byte 0x%02X" % c) if lo == "byte" else "U+%04X" % c, to.get(c), want))
        rep.check(not wrong, rule, nm, "StrInput::%s and the provided body disagree on where to stop: %s" % (nm, "; ".join(wrong[:5])), site=ov.span,
                  detail={"units": len(dom), "level": lo, "disagreements": len(wrong)})
    return n


BYTE_OFFSET_PRODUCERS = ("str::len", "str::find", "str::as_bytes", "str::as_ptr", "offset_from", "char_indices", "Bytes as", "str::bytes", "[T]::len", "memchr")


def count_unit(rep, F, rule="bulk-count-is-in-characters"):
    """What skip_while_non_breakz / skip_while_blank / fetch_while_is_alpha return is added by the scanner to the cursor's index and
    column, which count characters (C12).  When the run the operation walks over can hold non-ASCII text (the provided body goes on at a
    non-ASCII character), the StrInput override has to count characters: a loop over bytes, a byte-level iterator adaptor, or a result
    computed from byte offsets (str::len, str::find, char_indices, pointer differences) reports bytes.  When the run is ASCII by
    construction (the provided body stops at every non-ASCII character) both counts coincide and any form is accepted."""
    n = 0
    for nm in all_ops(F):
        ov, df = F.fns.get(STR + nm), F.fns.get(INPUT + "::" + nm)
        if ov is None or df is None or ov.locals[0]["ty"] != "usize":
            continue
        try:
            tp, lp = loop_table(F, df)
        except (Unknown, fold.Unsupported, fold.Diverged, RuntimeError) as ex:
            rep.incomplete("cannot tabulate the provided body of %s: %s" % (nm, ex), df.span)
            continue
        if tp is None:
            rep.incomplete("the provided body of %s has no loop over the character at the cursor" % nm, df.span)
            continue
        hi = {tp[c] for c in fold.ALPHABET if c > 127}
        n += 1
        if hi == {"stop"}:
            rep.ok(rule, nm, "the run is ASCII by construction")
            continue
        why = []
        try:
            to, lo = loop_table(F, ov)
        except (Unknown, fold.Unsupported, fold.Diverged, RuntimeError) as ex:
            to, lo = None, None
        if to is not None and lo == "byte":
            why.append("its loop advances one byte per round")
        if to is None:
            for g in F.closures_of(ov.key):
                if g.arg_count == 2 and g.locals[0]["ty"] == "bool" and g.locals[2]["ty"] in ("u8", "&u8", "(usize, char)", "&(usize, char)", "(usize, u8)", "&(usize, u8)"):
                    why.append("it hands a test on %s to an iterator adaptor" % g.locals[2]["ty"])
        # the returned value
        rets = []
        for bi, si, s in cfg.stmts(ov):
            if s["k"] == "assign" and s["lhs"]["l"] == 0 and not s["lhs"]["p"]:
                rets.append(cfg.expr_str(cfg.expr_operand(ov, s["rv"]["a"], 10)) if s["rv"]["k"] == "use" else "?")
        for bb, t, ck, fr in ov.calls():
            if t["dest"] is not None and t["dest"]["l"] == 0 and not t["dest"]["p"]:
                rets.append("%s(%s)" % (ck, ", ".join(cfg.expr_str(cfg.expr_operand(ov, a, 10)) for a in t["args"])))
        for r in rets:
            hit = [x for x in BYTE_OFFSET_PRODUCERS if x in r]
            if hit:
                why.append("the value it returns is computed from %s" % " / ".join(hit))
        rep.check(not why, rule, nm, "StrInput::%s can walk over non-ASCII text and reports a number of bytes where the scanner adds a number of characters to the "
                  "cursor's index and column: %s" % (nm, "; ".join(why)), site=ov.span, detail={"returned": [r[:200] for r in rets]})
    return n
