#!/usr/bin/env python3
"""maintenance helper (never called by a check): append an entry to known_findings.json
usage: tools/kf.py <property> <key> <status> <what_fails> <input>"""
import json, sys
p = '/verif/known_findings.json'
d = json.load(open(p))
prop, key, status, what, inp = sys.argv[1:6]
d['findings'] = [e for e in d['findings'] if not (e['property'] == prop and e['key'] == key)]
d['findings'].append({"property": prop, "key": key, "what_fails": what, "input": inp, "status": status})
json.dump(d, open(p, 'w'), indent=1)
