"""C08 — scalar typing follows the YAML 1.2 core schema and never corrupts text.

Clauses decided: (a) text identity: every Scalar::String built by the resolver holds the parameter itself, and non-plain styles
return before any parser runs; (b) tag arm -> variant map: under tag:yaml.org,2002: the arms bool/int/float/null build only
Boolean/Integer/FloatingPoint/Null (or None), everything else String(v); ScalarOwned delegates to Scalar then into_owned;
(c) guarded delegation: std parsers that accept more than the schema (a leading sign after 0x/0o/+, `inf`/`nan`/`infinity` for f64)
are only reached on the true edge of a crate-local lexical predicate applied to the same text; (d) literal tables: the literals the
resolver compares against are core-schema literals with the right meaning, and the JSON literals are among them.
"""
import json
from .common import *
from engine import tables
from engine.facts import is_local, op_const, const_value, op_place

PID = "C08"
SC = "saphyr::scalar::Scalar"
F64_BITS = {0x7FF0000000000000: "inf", 0xFFF0000000000000: "-inf", 0x7FF8000000000000: "nan"}


def new_report(tier):
    return make_report(PID, tier, "proof", [
        "i64::from_str_radix and str::parse::<i64> accept an optional leading sign and otherwise exactly the digits of the radix; "
        "str::parse::<f64> accepts the decimal/exponent forms plus inf/infinity/nan in any case (std documentation)",
        "what the crate-local lexical predicates accept is not analysed: their presence and position are",
    ], "E2 def-use (text identity, argument provenance), string-match table extraction from the <str as PartialEq>::eq chains (E4), "
       "dominance of every permissive std parser by a crate-local predicate on the same text. Numeric value equality and 64-bit boundary "
       "behaviour are std's and are not decided.")


def string_matches(f):
    """list of (literal, eq_bb, true_target, false_target) for `<str as PartialEq>::eq(x, const LIT)` followed by a switch"""
    out = []
    for bb, t, ck, fr in f.calls():
        if not ck or not ck.endswith(("PartialEq::eq", "PartialEq::ne")) or len(t["args"]) != 2:
            continue
        is_ne = ck.endswith("PartialEq::ne")
        lit = None
        for a in t["args"]:
            c = op_const(a)
            if c is not None and "str" in c:
                lit = c["str"]
            elif c is None and is_local(a) is not None:
                # a literal behind a promoted reference (`handle == "..."` compares &String with &&str)
                l = cfg.resolve_copy_chain(f, is_local(a))
                for d in cfg.defs_of_local(f, l):
                    if d[0] == "stmt" and d[3]["rv"]["k"] in ("use", "ref", "copyforderef"):
                        src = d[3]["rv"].get("a") or {}
                        cc = op_const(src) if src else None
                        pl = d[3]["rv"].get("p")
                        if cc is None and pl is not None:
                            for d2 in cfg.defs_of_local(f, pl["l"]):
                                if d2[0] == "stmt" and d2[3]["rv"]["k"] == "use":
                                    cc = op_const(d2[3]["rv"]["a"])
                        if cc is not None and cc.get("promoted") is not None:
                            for pb in [f.d["promoted"][cc["promoted"]]]:
                                for blk in pb["blocks"]:
                                    for st in blk["stmts"]:
                                        if st["k"] == "assign" and st["rv"]["k"] == "use":
                                            c3 = op_const(st["rv"]["a"])
                                            if c3 is not None and "str" in c3:
                                                lit = c3["str"]
        if lit is None:
            continue
        nb = t["t"]
        tt = f.blocks[nb]["term"]
        if tt["k"] != "switch" or is_local(tt["discr"]) != t["dest"]["l"]:
            continue
        m, other = cfg.switch_edge_blocks(f, nb)
        # (literal, block, target when equal, target when different): `x != LIT` swaps the two edges
        out.append((lit, bb, m.get(0), other) if is_ne else (lit, bb, other, m.get(0)))
    return out


def arm_values(F, f, target):
    """what an arm builds: set of descriptions like 'Boolean(true)', 'Null', 'Some(f64 inf)', 'String', 'ctor:Integer'"""
    blocks, aggs, results, calls = tables.arm_walk(f, target)
    out = set()
    for b, s in aggs:
        rv = s["rv"]
        if rv["adt"] in (SC, "saphyr::scalar::ScalarOwned"):
            d = rv["variant"]
            if rv["ops"]:
                c = op_const(rv["ops"][0])
                if c is not None and const_value(c) is not None:
                    d += "(%s)" % str(const_value(c)).lower()
            out.add(d)
        elif rv["adt"] == "std::option::Option":
            d = rv["variant"]
            if rv["ops"]:
                c = op_const(rv["ops"][0])
                if c is not None and "floatbits" in c:
                    d += "(f64 %s)" % F64_BITS.get(c["floatbits"], hex(c["floatbits"]))
            out.add(d)
    for b, t in calls:
        for a in t["args"]:
            c = op_const(a)
            if c is not None and "fn" in c and c["fn"]["key"].startswith(SC + "::"):
                out.add("ctor:" + c["fn"]["key"].split("::")[-1])
        fr = t["f"].get("fn")
        if fr:
            out.add("call:" + fr["key"].split("::")[-1] + ("<%s>" % ",".join(x for x in fr["substs"] if x in ("i64", "f64", "bool")) if fr["key"] == "str::parse" else ""))
    return out


def owned_delegates(rep, F, rule):
    """the owned scalar resolver is the borrowed one followed by into_owned (so owned and borrowed node types resolve alike)"""
    for nm in ("parse_from_cow", "parse_from_cow_and_metadata"):
        f = F.fn("saphyr::scalar::ScalarOwned::" + nm)
        cs = [ck for _, _, ck, _ in f.calls()]
        for _, t, _, _ in f.calls():
            for a in t["args"]:
                c = op_const(a)
                if c is not None and "fn" in c:
                    cs.append(c["fn"]["key"])
        rep.check(SC + "::" + nm in cs and any(c and c.endswith("::into_owned") for c in cs) and not any(c and c.startswith("str::parse") for c in cs),
                  rule, nm, "ScalarOwned::%s no longer delegates to Scalar::%s and into_owned" % (nm, nm), site=f.span, detail=cs)


def quoted_is_string(rep, F, rule="quoted-is-string"):
    """every style other than Plain (single- and double-quoted, literal, folded) returns String(v) before any type resolution runs"""
    pfm = F.fn(SC + "::parse_from_cow_and_metadata")
    # non-plain styles return String(v) before any parser call: the style test dominates every parser call
    style_sw = None
    for bi, b in enumerate(pfm.blocks):
        if b["cleanup"] or b["term"]["k"] != "switch":
            continue
        e = cfg.expr_operand(pfm, b["term"]["discr"], 8)
        s = cfg.expr_str(e)
        if ("PartialEq::ne" in s or "PartialEq::eq" in s or "Ne(" in s or "Eq(" in s or "discr(" in s) and "arg2" in s:
            style_sw = bi
            break
    okstyle = False
    if style_sw is not None:
        m, other = cfg.switch_edge_blocks(pfm, style_sw)
        # the edge on which style != Plain: builds String(v) and returns; every other call sits behind the opposite edge
        for tg_q, tg_p in ((other, m.get(0)), (m.get(0), other)):
            if tg_q is None or tg_p is None:
                continue
            bl, aggs, results, calls = tables.arm_walk(pfm, tg_q)
            built = {s["rv"]["variant"] for _, s in aggs if s["rv"]["adt"] == SC}
            foreign = [t for _, t in calls if (t["f"].get("fn") or {}).get("key", "").startswith(("str::parse", SC + "::parse", "saphyr::loader::parse"))]
            others = [bb for bb, t, ck, fr in pfm.calls() if ck and (ck.startswith("str::parse") or ck == SC + "::parse_from_cow" or ck == "saphyr::loader::parse_f64")]
            if built == {"String"} and not foreign and others and all(cfg.dominated_by_edge(pfm, ob, style_sw, tg_p) for ob in others):
                okstyle = True
    rep.check(okstyle, rule, "parse_from_cow_and_metadata", "a non-plain scalar no longer returns String(v) before any type resolution runs",
              site=pfm.span)



def run(tier):
    rep = new_report(tier)
    F = facts.load()
    pfc = F.fn(SC + "::parse_from_cow")
    pfm = F.fn(SC + "::parse_from_cow_and_metadata")
    pf64 = F.fn("saphyr::loader::parse_f64")

    # 'an untagged plain scalar resolves to null / bool / int / float exactly when its text has that form': the text is handed back as a string
    # only after every number reading has been tried - each construction of Scalar::String in the untagged resolver is dominated by the decimal
    # integer attempt (str::parse) and by the float attempt (parse_f64).  A short-cut to String (by length, by first character, ...) placed
    # before them turns a number of that shape into text.
    _D = pfc.dominators()
    _str = [bi for bi, b in enumerate(pfc.blocks) if not b["cleanup"] for s_ in b["stmts"]
            if s_["k"] == "assign" and (s_.get("rv") or {}).get("k") == "agg" and (s_["rv"].get("agg") == "adt")
            and str(s_["rv"].get("adt", "")).endswith("scalar::Scalar") and s_["rv"].get("variant") == "String"]
    _f64 = [bb for bb, t, ck, fr in pfc.calls() if ck == pf64.key]
    _int = [bb for bb, t, ck, fr in pfc.calls() if ck == "str::parse"]
    for bi in _str:
        doms = set(_D.get(bi, ()))
        rep.check(bool(doms & set(_f64)) and bool(doms & set(_int)), "string-only-after-the-number-attempts", "parse_from_cow@String",
                  "the untagged resolver can return the text as a string without having tried to read it as a decimal integer and as a float "
                  "(a short-cut before the number attempts): a number of the short-cut's shape loads as a string", site=pfc.span,
                  detail={"block": bi, "float attempts": _f64, "integer attempts": _int})
    rep.floor("constructions of Scalar::String in the untagged resolver", len(_str), 1)

    # (a) text identity
    n = 0
    for f in (pfc, pfm):
        for bi, si, s in cfg.stmts(f):
            if s["k"] == "assign" and s["rv"]["k"] == "agg" and s["rv"].get("adt") == SC and s["rv"]["variant"] == "String":
                n += 1
                e = cfg.expr_operand(f, s["rv"]["ops"][0], 8)
                rep.check(e == ("param", 1), "text-identity", "%s:String#%d" % (short(f.key), n),
                          "a Scalar::String is built from something other than the untouched input text", site=site(f, s["sp"]), detail=cfg.expr_str(e))
    rep.floor("Scalar::String constructions in the resolver", n, 2)
    quoted_is_string(rep, F)

    # (a') the untagged reading (parse_from_cow: the type is guessed from the text) is reached only when the caller gave no tag: every
    # call of it is dominated by the None edge of a test on the `tag` parameter itself.  A test on something derived from the tag (a
    # filtered or mapped option) lets some tagged scalars - '!' (the non-specific tag forces a string), '!local', '!!str' - be typed
    # from their content.
    guess = [(bb, t) for bb, t, ck, fr in pfm.calls() if ck == SC + "::parse_from_cow"]
    rep.floor("calls of the untagged resolver in parse_from_cow_and_metadata", len(guess), 1)
    for bb, t in guess:
        ok = False
        seen = []
        for d in pfm.dominators().get(bb, ()):
            tt = pfm.blocks[d]["term"]
            if tt["k"] != "switch":
                continue
            e = cfg.expr_operand(pfm, tt["discr"], 8)
            m, other = cfg.switch_edge_blocks(pfm, d)
            none_edge = None
            if e == ("discr", ("param", 3)):
                none_edge = m.get(0, other if 1 in m else None)
            elif e[0] == "call" and e[1] in ("std::option::Option::is_none", "std::option::Option::is_some") and len(e[2]) == 1 \
                    and cfg.strip_reborrow(e[2][0]) in (("param", 3), ("ref", ("param", 3))):
                none_edge = other if e[1].endswith("is_none") else m.get(0)
            else:
                if "discr(" in cfg.expr_str(e) or "is_none" in cfg.expr_str(e) or "is_some" in cfg.expr_str(e):
                    seen.append(cfg.expr_str(e)[:120])
                continue
            if none_edge is not None and (bb == none_edge or cfg.dominated_by_edge(pfm, bb, d, none_edge)):
                ok = True
        rep.check(ok, "untagged-reading-only-without-a-tag", "parse_from_cow_and_metadata->parse_from_cow@%s" % ("bb%d" % bb if len(guess) > 1 else "call"),
                  "the text-based guess (parse_from_cow) is reached on a path where the `tag` argument itself was not found to be None: a scalar "
                  "that carries a tag ('!', a local tag, !!str) can be typed from its content instead of staying a string", site=site(pfm, t["sp"]),
                  detail={"other_option_tests_on_the_way": seen[:3]})

    # (b) tag arms
    sm = string_matches(pfm)
    lits = {l: (tt, ft) for l, bb, tt, ft in sm}
    rep.check("tag:yaml.org,2002:" in lits or any("tag:yaml.org,2002:" == l for l in lits), "tag-handle", "parse_from_cow_and_metadata",
              "the core-schema tag handle tag:yaml.org,2002: is no longer what selects the typed arms", detail=sorted(lits))
    want = {"bool": "Boolean", "int": "Integer", "float": "FloatingPoint", "null": "Null"}
    for suf, var in want.items():
        if suf not in lits:
            rep.bad("tag-arm", suf, "no arm for the core-schema tag !!%s" % suf, site=pfm.span)
            continue
        vals = arm_values(F, pfm, lits[suf][0])
        built = {v.split("(")[0].replace("ctor:", "") for v in vals if not v.startswith(("call:", "Some", "None"))}
        rep.check(built <= {var} and built, "tag-arm", suf, "the !!%s arm can build %s (only %s or BadValue/None is allowed)" % (suf, sorted(built), var),
                  site=pfm.span, detail=sorted(vals))
    # the default arms build String only
    # (every aggregate of Scalar in the function that is not in a typed arm is String) -- covered by counting variants overall
    allv = {}
    for bi, si, s in cfg.stmts(pfm):
        if s["k"] == "assign" and s["rv"]["k"] == "agg" and s["rv"].get("adt") == SC:
            allv[s["rv"]["variant"]] = allv.get(s["rv"]["variant"], 0) + 1
    rep.check(set(allv) <= {"String", "Null"}, "tag-arm", "direct-constructions", "parse_from_cow_and_metadata constructs a typed scalar outside the typed arms",
              detail=allv)
    # ScalarOwned delegates
    owned_delegates(rep, F, "owned-delegates")

    # (d) literal tables
    with open(os.path.join(facts.VERIF, "tables", "core_schema_literals.json")) as fh:
        core = json.load(fh)["literals"]
    found = {}
    for f in (pfc, pf64):
        for lit, bb, tt, ft in string_matches(f):
            vals = arm_values(F, f, tt)
            found[lit] = sorted(v for v in vals if not v.startswith("call:"))
    # the tagged !!null arm has its own literal list
    for lit, bb, tt, ft in string_matches(pfm):
        if lit in want or lit.startswith("tag:"):
            continue
        vals = arm_values(F, pfm, tt)
        found.setdefault(lit, sorted(v for v in vals if not v.startswith("call:")))
    rep.extra["resolver_literals"] = found
    for lit, vals in sorted(found.items()):
        exp = core.get(lit)
        rep.check(exp is not None and exp in vals and len([v for v in vals if v != "Some"]) == 1, "literal-meaning", repr(lit),
                  "the resolver gives the literal %r the meaning %s; the core schema says %s" % (lit, vals, exp), detail={"built": vals, "core_schema": exp})
    for req in ("~", "null", "true", "false", ".inf", "-.inf", ".nan"):
        rep.check(req in found, "literal-present", repr(req), "the resolver no longer recognises the core-schema literal %r" % req)
    rep.floor("literals compared by the resolver", len(found), 12)

    # (c) guarded delegation
    n = 0
    for f in (pfc, pf64, pfm):
        for bb, t, ck, fr in f.calls():
            kind = None
            if ck == "i64::from_str_radix":
                kind = "i64-radix"
            elif ck == "str::parse" and "i64" in fr["substs"]:
                kind = "i64"
            elif ck == "str::parse" and "f64" in fr["substs"]:
                kind = "f64"
            if kind is None:
                continue
            arg = tables.normalize(cfg.expr_operand(f, t["args"][0], 14))
            from_strip = bool(tables.find_calls(arg, "::strip_prefix"))
            needs = kind == "f64" or from_strip
            if not needs:
                rep.ok("guarded-delegation", "%s:%s(whole text)" % (short(f.key), kind), "a sign is part of the schema's decimal integer on the whole text")
                continue
            n += 1
            guarded = _guarded_by_local_predicate(F, f, bb, arg)
            what = {"f64": "str::parse::<f64> also accepts inf, infinity and nan in any case",
                    "i64": "str::parse::<i64> accepts a second sign after the stripped '+'",
                    "i64-radix": "i64::from_str_radix accepts a sign after the stripped 0x/0o prefix"}[kind]
            pref = ""
            sp = tables.find_calls(arg, "::strip_prefix")
            if sp:
                a1 = sp[0][2][1] if len(sp[0][2]) > 1 else None
                pref = "after strip_prefix(%s)" % (cfg.expr_str(a1) if a1 else "?")
            rep.check(guarded, "guarded-delegation", "%s:%s%s" % (short(f.key), kind, (" " + pref) if pref else ""),
                      "%s: without a lexical guard texts outside the core schema are typed as numbers" % what, site=site(f, t["sp"]),
                      detail={"argument": cfg.expr_str(arg)})
    rep.floor("permissive std parser calls needing a guard", n, 1)
    # (c') ... and the guard is the only way to say "not a number": in a function that answers Option<number> and owns a guarded parse,
    # every `None` it builds itself sits on the guard's false edge (a length limit, a fast exit for "long text" etc. would turn
    # numbers of the core schema into strings)
    n_none = rejects_only_by_guard(rep, F, pf64, "rejects-only-by-guard")
    # (c'') what the integer guard accepts: is_unsigned_digits(s, radix) folded over short strings (and long runs of digits) must be
    # "non-empty and every character is a digit of the radix" - a guard that refuses long or zero-padded spellings turns integers of
    # the core schema into strings
    import itertools
    from engine import fold as _fold
    gk = "saphyr::scalar::is_unsigned_digits"
    if gk in F.fns:
        wrong, ncase = [], 0
        try:
            for radix, digs in ((8, "01234567"), (10, "0123456789"), (16, "0123456789abcdefABCDEF")):
                cases = ["".join(t) for n_ in range(0, 4) for t in itertools.product("07a9fg+-", repeat=n_)]
                cases += [d * n_ for d in "07" for n_ in (15, 16, 17, 19, 20, 21, 22, 23, 40)]
                for sx in cases:
                    ncase += 1
                    got = bool(_fold.Folder(F).call(gk, [("ref", ("str", sx)), radix]))
                    want = sx != "" and all(c in digs for c in sx)
                    if got != want:
                        wrong.append("%r (radix %d): guard says %s" % (sx if len(sx) < 12 else sx[:3] + "...x%d" % len(sx), radix, got))
            rep.check(not wrong, "guard-language", "is_unsigned_digits", "the lexical guard of the prefixed integers does not accept exactly the non-empty runs of digits of the "
                      "radix: %s" % "; ".join(wrong[:4]), site=F.fns[gk].span, detail={"cases": ncase, "wrong": len(wrong)})
        except (_fold.Unsupported, _fold.Diverged) as ex:
            rep.extra["guard_language_not_decided"] = str(ex)
    # ... and what the float guard accepts: is_core_schema_number folded over every string of up to 4 characters over {0,1,.,e,E,+,-,x}
    # and some long spellings must be the core schema's decimal number [-+]?(\.[0-9]+|[0-9]+(\.[0-9]*)?)([eE][-+]?[0-9]+)?
    import re as _re
    fk = "saphyr::loader::is_core_schema_number"
    if fk in F.fns:
        rx = _re.compile(r"[-+]?(\.[0-9]+|[0-9]+(\.[0-9]*)?)([eE][-+]?[0-9]+)?\Z")
        wrong, ncase = [], 0
        try:
            cases = ["".join(t) for n_ in range(0, 5) for t in itertools.product("01.eE+-x", repeat=n_)]
            cases += ["1" * 30, "0." + "1" * 40, "-" + "9" * 25 + ".5", "1e" + "0" * 12 + "5", "." + "3" * 30, "1" * 25 + "e+10", "1.5e", "1_0", "1e1.5", "0x10"]
            for sx in cases:
                ncase += 1
                got = bool(_fold.Folder(F).call(fk, [("ref", ("str", sx))]))
                if got != bool(rx.match(sx)):
                    wrong.append("%r: guard says %s" % (sx if len(sx) < 14 else sx[:6] + "...x%d" % len(sx), got))
            rep.check(not wrong, "guard-language", "is_core_schema_number", "the lexical guard of floats does not accept exactly the decimal numbers of the core schema: %s"
                      % "; ".join(wrong[:4]), site=F.fns[fk].span, detail={"cases": ncase, "wrong": len(wrong)})
        except (_fold.Unsupported, _fold.Diverged) as ex:
            rep.extra["float_guard_language_not_decided"] = str(ex)
    rep.floor("None results built by the float resolver", n_none, 1)
    # (e) no parsed number is converted with a lossy `as`
    from engine import callgraph
    edges, _ = callgraph.build(F)
    reach = {k for k in callgraph.reachable(edges, [pfm.key, pfc.key]) if k in F.fns and F.fns[k].crate == "saphyr"}
    for k in list(reach):
        reach |= {c.key for c in F.closures_of(k)}
    INT = {"u8": (0, 8), "u16": (0, 16), "u32": (0, 32), "u64": (0, 64), "usize": (0, 64), "u128": (0, 128),
           "i8": (1, 8), "i16": (1, 16), "i32": (1, 32), "i64": (1, 64), "isize": (1, 64), "i128": (1, 128)}
    ncast = 0
    for k in sorted(reach):
        g = F.fns[k]
        for bi, si, st in cfg.stmts(g):
            if st["k"] != "assign" or st["rv"]["k"] != "cast":
                continue
            to = st["rv"].get("ty")
            a = st["rv"]["a"]
            l = is_local(a)
            frm = g.locals[l]["ty"] if l is not None else (op_const(a) or {}).get("ty")
            if to not in INT and to not in ("f32", "f64") or frm not in INT and frm not in ("f32", "f64", "char", "bool"):
                continue
            ncast += 1
            lossless = False
            if frm in INT and to in INT:
                (fs, fb), (ts, tb) = INT[frm], INT[to]
                lossless = (fs == ts and tb >= fb) or (fs == 0 and ts == 1 and tb > fb)
            elif frm in ("char", "bool", "u8") and to in INT:
                lossless = INT[to][1] >= 32 or frm != "char"
            elif frm in INT and to == "f64":
                lossless = INT[frm][1] <= 32
            elif frm == "f32" and to == "f64":
                lossless = True
            rep.check(lossless, "no-lossy-cast", "%s: %s as %s" % (short(k), frm, to), "the resolver converts a number with a lossy `as` (%s -> %s): values outside the target's "
                      "range silently become a different value instead of staying a string" % (frm, to), site=site(g, st["sp"]))
    rep.extra["numeric_casts_in_resolver"] = ncast
    rep.extra["resolver_functions"] = len(reach)
    rep.floor("functions reachable from the resolver", len(reach), 4)
    # a scalar's tag is what the resolver is given: `!!int` means the core schema only while '!!' is bound to tag:yaml.org,2002: in the document at hand - the handle table is written by the directive handler only and cleared with its document (C16's rules, run here as a premise)
    if os.environ.get("VERIF_NO_PREMISE") != "1":
        from . import C16 as _C16
        _sub = _C16.run("quick")
        _prem = [v for v in _sub.violations if v["rule"] in ('tags-writer', 'tags-reset-at-document-end', 'default-secondary-handle', 'lookup-in-directives', 'constant-handle-lookup', 'duplicate-handle-err')]
        rep.check(not _prem, "tag-handle-table-premise", "Parser.tags", "the table of tag handles no longer provably belongs to one document (%s): a tag can resolve through a "
                  "declaration of another document, or an undeclared handle be accepted" % "; ".join(sorted({"%s %s" % (v["rule"], v["key"].split(":", 1)[-1][:50]) for v in _prem})[:3]),
                  detail={"violations_of_C16": len(_prem)})
    return rep


def rejects_only_by_guard(rep, F, f, rule):
    guards = []
    for b2, blk in enumerate(f.blocks):
        tt = blk["term"]
        if blk["cleanup"] or tt["k"] != "switch":
            continue
        e = tables.normalize(cfg.expr_operand(f, tt["discr"], 14))
        neg = False
        while e[0] == "un" and e[1] == "Not":
            e = e[2]
            neg = not neg
        if e[0] != "call" or not e[1] or not e[1].startswith("saphyr::"):
            continue
        g = F.fns.get(e[1])
        if g is None or g.d.get("output") != "bool" or not any(_same_text(a, ("param", 1)) for a in e[2]):
            continue
        m, other = cfg.switch_edge_blocks(f, b2)
        false_tg = other if neg else m.get(0)
        if false_tg is not None:
            guards.append((b2, false_tg))
    n = 0
    for bi, si, st in cfg.stmts(f):
        if st["k"] == "assign" and st["rv"]["k"] == "agg" and st["rv"].get("adt") == "std::option::Option" and st["rv"].get("variant") == "None":
            n += 1
            ok = any(bi == tg or cfg.dominated_by_edge(f, bi, b2, tg) for b2, tg in guards)
            rep.check(ok, rule, "%s#None%d" % (short(f.key), n), "the resolver answers 'not a number' on a path that has not failed the lexical test of the core schema: "
                      "texts the schema defines as numbers are typed as strings", site=site(f, st["sp"]))
    return n


def _guarded_by_local_predicate(F, f, site_bb, arg):
    for b2 in f.dominators().get(site_bb, ()):
        tt = f.blocks[b2]["term"]
        if tt["k"] != "switch":
            continue
        e = tables.normalize(cfg.expr_operand(f, tt["discr"], 14))
        neg = False
        while e[0] == "un" and e[1] == "Not":
            e = e[2]
            neg = not neg
        if e[0] != "call" or not e[1] or not e[1].startswith("saphyr::"):
            continue
        g = F.fns.get(e[1])
        if g is None or g.d.get("output") != "bool":
            continue
        if not any(_same_text(a, arg) for a in e[2]):
            continue
        m, other = cfg.switch_edge_blocks(f, b2)
        true_tg = m.get(0) if neg else other
        if true_tg is not None and cfg.dominated_by_edge(f, site_bb, b2, true_tg):
            return True
    return False


def _same_text(a, b):
    def bare(e):
        while isinstance(e, tuple) and e and e[0] == "ref":
            e = e[1]
        if isinstance(e, tuple) and e and e[0] == "call" and e[1] and e[1].endswith(("Deref>::deref", "::as_ref", "::borrow", "::as_str")) and e[2]:
            return bare(e[2][0])
        if isinstance(e, tuple) and e and e[0] == "place" and all(x == "deref" for x in e[2]):
            return bare(e[1])
        return e
    return bare(a) == bare(b)
