// C07: a key that resolves to BadValue (tag mismatch) is mistaken for "no key pending".
use saphyr::{LoadableYamlNode, Yaml};
fn main() {
    let docs = Yaml::load_from_str("{!!int x: 1, b: 2}").unwrap();
    let m = docs[0].as_mapping().expect("mapping");
    println!("{:?}", docs[0]);
    // two key/value pairs in the source -> two entries, the second being b: 2
    let ok = m.len() == 2 && docs[0]["b"].as_integer() == Some(2);
    if ok { println!("PAIRS KEPT") } else { println!("PAIR LOST"); std::process::exit(1) }
}
