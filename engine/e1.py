"""E1 — cursor abstract interpreter (interprocedural, context-sensitive).

Interprets the MIR of the scanner and of the provided methods of `trait Input` over
  [lb, ub]   bounds on the number of characters currently buffered by the Input,
  env        a small partitioned environment of known integers / enum variants / Range cursors,
  flags      must-flags `consumed` (a character was consumed) and `enqueued` (a token was queued).
The nine required methods of the trait (plus buflen/bufmaxlen/buf_is_empty) are the primitive operations with the
transfer functions of the trait's documented contract.  Nothing is executed: this is a fixpoint over abstract states.
"""
from .facts import is_local, op_const, const_value, op_place
from . import cfg

INPUT = "saphyr_parser::input::Input"
INF = 10 ** 9
TOP = None

PRIMS = {"lookahead", "peek", "peek_nth", "skip", "skip_n", "raw_read_ch", "raw_read_non_breakz_ch", "buflen", "bufmaxlen", "buf_is_empty"}


class Violation(Exception):
    pass


class E1:
    def __init__(self, F, B, lemmas=None, widen_limit=None, token_field=("saphyr_parser::scanner::Scanner", "tokens")):
        self.F = F
        self.B = B
        self.memo = {}
        self.stack = []
        self.sites = {}        # (fnkey, bb) -> {"prim":..., "ok": n, "bad": [...]} obligations at Input primitive sites
        self.reports = []      # violations: dict(kind, fn, bb, detail, context)
        self.contexts = 0
        self.widen_limit = widen_limit or (B + 16)
        self.small_limit = 12
        self.lemmas = lemmas or []
        self.lemma_floors = {}   # fnkey -> list of (set(blocks), floor)
        self.lemma_log = []
        self.token_field = token_field
        self.touch = self._touching_functions()
        self.diverge_hits = {}
        self._prepare_lemmas()

    # ------------------------------------------------------------------------------------------
    def _touching_functions(self):
        """local functions from which an Input trait call or a token-queue push is reachable (others are pure for E1)"""
        F = self.F
        direct = set()
        callers = {}
        for k, f in F.fns.items():
            if f.crate != "saphyr_parser":
                continue
            for bb, t, ck, fr in f.calls():
                if fr is None:
                    continue
                if fr.get("trait") == INPUT:
                    direct.add(k)
                if ck and (ck.endswith("VecDeque::push_back") or ck.endswith("VecDeque::insert")):
                    direct.add(k)
                tg = fr.get("resolved") or ck
                if tg in F.fns:
                    callers.setdefault(tg, set()).add(k)
        for k, f in F.fns.items():
            if f.kind == "Closure" and f.d.get("closure_of") in F.fns:
                callers.setdefault(k, set()).add(f.d["closure_of"])
        seen = set(direct)
        st = list(direct)
        while st:
            k = st.pop()
            for c in callers.get(k, ()):
                if c not in seen:
                    seen.add(c)
                    st.append(c)
        return seen

    # ------------------------------------------------------------------------------------------
    # premise-checked relational lemmas
    def _prepare_lemmas(self):
        for lem in self.lemmas:
            f = self.F.fns.get(lem["fn"])
            if f is None:
                self.lemma_log.append({"lemma": lem["name"], "ok": False, "why": "function not found"})
                continue
            res = check_bounded_skip_lemma(self.F, f, lem)
            self.lemma_log.append({"lemma": lem["name"], "ok": res["ok"], "premises": res["premises"]})
            if res["ok"]:
                floor = lem["floor_const"]
                self.lemma_floors.setdefault(f.key, []).append((res["loop_blocks"], floor))

    # ------------------------------------------------------------------------------------------
    def site(self, fnkey, bb, prim):
        return self.sites.setdefault((fnkey, bb), {"prim": prim, "ok": 0, "bad": []})

    def require(self, cond, fnkey, bb, prim, what, st, ctx):
        s = self.site(fnkey, bb, prim)
        if cond:
            s["ok"] += 1
        else:
            if len(s["bad"]) < 3:
                s["bad"].append({"what": what, "lb": st[0], "ub": st[1] if st[1] < INF else "inf", "call_chain": [c[0] for c in self.stack] + [fnkey]})

    # ------------------------------------------------------------------------------------------
    def analyse(self, fnkey, lb, ub, args=(), floor=0):
        """returns list of exits: (lb, ub, consumed, enqueued, ret_value, kind) kind in {'ret'}"""
        key = (fnkey, lb, ub, args, floor)
        if key in self.memo:
            return self.memo[key]
        if any(c[0] == fnkey for c in self.stack):
            raise Violation("recursion through %s: E1 cannot analyse recursive scanner code" % fnkey)
        self.stack.append((fnkey, lb, ub, args))
        self.contexts += 1
        try:
            exits = self._run(fnkey, lb, ub, args, floor)
        finally:
            self.stack.pop()
        self.memo[key] = exits
        return exits

    def _run(self, fnkey, lb0, ub0, args, floor0):
        f = self.F.fns[fnkey]
        env0 = {}
        for i, a in enumerate(args):
            if a is not TOP:
                env0[i + 1] = a
        start = (0, self._envkey(env0))
        states = {start: (lb0, ub0, False, False)}  # (lb, ub, consumed, enqueued); flags are must-flags (AND at joins)
        work = [start]
        exits = {}
        seen_vals = {}   # (bb, local) -> set of values
        widened = {}     # bb -> set(locals)
        floors = self.lemma_floors.get(fnkey, [])
        steps = 0
        while work:
            key = work.pop()
            bb, envk = key
            lb, ub, cons, enq = states[key]
            env = dict(envk)
            steps += 1
            if steps > 400000:
                raise Violation("E1 did not converge in %s" % fnkey)
            fl = floor0
            for blocks, c in floors:
                if bb in blocks:
                    fl = max(fl, c)
            blk = f.blocks[bb]
            for s in blk["stmts"]:
                if s["k"] == "assign":
                    self._assign(f, env, s)
                elif s["k"] in ("dead", "live"):
                    env.pop(s["l"], None)
            t = blk["term"]
            k = t["k"]
            outs = []   # (target, env, lb, ub, cons, enq)
            if k == "goto":
                outs.append((t["t"], env, lb, ub, cons, enq))
            elif k in ("assert", "drop"):
                outs.append((t["t"], env, lb, ub, cons, enq))
            elif k == "switch":
                outs.extend(self._switch(f, bb, t, env, lb, ub, cons, enq))
            elif k == "return":
                rv = env.get(0, TOP)
                ek = rv if _hashable_small(rv) else TOP
                old = exits.get(ek)
                if old is None:
                    exits[ek] = (lb, ub, cons, enq)
                else:
                    exits[ek] = (min(old[0], lb), max(old[1], ub), old[2] and cons, old[3] and enq)
            elif k == "call":
                outs.extend(self._call(f, fnkey, bb, t, env, lb, ub, cons, enq, fl))
            # unreachable / resume / diverging: no successors
            for (tg, e2, l2, u2, c2, q2) in outs:
                if tg is None or f.blocks[tg]["cleanup"]:
                    continue
                if l2 > u2:
                    continue   # infeasible
                # widening of over-partitioned locals
                w = widened.get(tg)
                if w:
                    for l in w:
                        e2.pop(l, None)
                for l, v in list(e2.items()):
                    if v[0] in ("i", "tuple", "var", "range"):
                        sv = seen_vals.setdefault((tg, l), set())
                        sv.add(v)
                        # Range cursors (and the Option they yield) must stay exact up to the capacity; plain integers are
                        # only needed for a handful of constants (look-ahead sizes, escape lengths): counters are widened early
                        lim = self.widen_limit if v[0] in ("range", "var") else self.small_limit
                        if len(sv) > lim:
                            widened.setdefault(tg, set()).add(l)
                            e2.pop(l, None)
                nk = (tg, self._envkey(e2))
                old = states.get(nk)
                new = (l2, u2, c2, q2)
                if old is not None:
                    new = (min(old[0], l2), max(old[1], u2), old[2] and c2, old[3] and q2)
                if old != new:
                    states[nk] = new
                    work.append(nk)
        return [(v[0], v[1], v[2], v[3], rk) for rk, v in exits.items()]

    @staticmethod
    def _envkey(env):
        return tuple(sorted(env.items()))

    # ------------------------------------------------------------------------------------------
    def _val(self, f, env, op):
        c = op_const(op)
        if c is not None:
            v = const_value(c)
            if isinstance(v, bool):
                return ("i", int(v))
            if isinstance(v, int):
                return ("i", v)
            if isinstance(v, tuple) and v[0] == "char":
                return ("i", v[1])
            return TOP
        p = op_place(op)
        if p is None:
            return TOP
        return self._place_val(f, env, p)

    def _place_val(self, f, env, p):
        v = env.get(p["l"], TOP)
        if not p["p"]:
            return v
        if v is TOP:
            return TOP
        proj = p["p"]
        # (x as Variant).i  on ("var", idx, payload)
        i = 0
        while i < len(proj):
            e = proj[i]
            if e["k"] == "downcast":
                i += 1
                continue
            if e["k"] == "field":
                if v is TOP:
                    return TOP
                if v[0] == "var":
                    v = v[2] if e["i"] == 0 else TOP
                elif v[0] == "tuple":
                    v = v[1 + e["i"]] if e["i"] < len(v) - 1 else TOP
                else:
                    return TOP
                i += 1
                continue
            if e["k"] == "deref":
                if v is not TOP and v[0] == "ref":
                    v = env.get(v[1], TOP)
                    i += 1
                    continue
                return TOP
            return TOP
        return v

    def _assign(self, f, env, s):
        lhs = s["lhs"]
        rv = s["rv"]
        if lhs["p"]:
            base = lhs["l"]
            bv = env.get(base, TOP)
            if bv is not TOP:
                if bv[0] == "ref" and lhs["p"][0]["k"] == "deref":
                    env.pop(bv[1], None)
                else:
                    env.pop(base, None)
            return
        l = lhs["l"]
        v = self._rvalue(f, env, rv)
        if v is TOP:
            env.pop(l, None)
        else:
            env[l] = v

    def _rvalue(self, f, env, rv):
        k = rv["k"]
        if k == "use":
            return self._val(f, env, rv["a"])
        if k == "copyforderef":
            return self._place_val(f, env, rv["p"])
        if k == "ref":
            p = rv["p"]
            if not p["p"]:
                return ("ref", p["l"])
            if p["p"] == [{"k": "deref"}]:
                v = env.get(p["l"], TOP)
                if v is not TOP and v[0] == "ref":
                    return v
            return TOP
        if k == "cast":
            v = self._val(f, env, rv["a"])
            if v is not TOP and v[0] == "i" and rv["kind"] == "IntToInt":
                return v
            return TOP
        if k == "un":
            v = self._val(f, env, rv["a"])
            if v is TOP:
                return TOP
            if rv["op"] == "Not":
                if v[0] == "i" and v[1] in (0, 1):
                    return ("i", 1 - v[1])
                if v[0] in ("isempty", "bufcmp", "not"):
                    return v[1] if v[0] == "not" else ("not", v)
            return TOP
        if k == "bin":
            a = self._val(f, env, rv["a"])
            b = self._val(f, env, rv["b"])
            op = rv["op"]
            if a is not TOP and b is not TOP and a[0] == "i" and b[0] == "i":
                x, y = a[1], b[1]
                if op in ("Add", "AddUnchecked"):
                    return ("i", x + y)
                if op in ("Sub", "SubUnchecked"):
                    return ("i", x - y)
                if op == "Mul":
                    return ("i", x * y)
                if op == "AddWithOverflow":
                    return ("tuple", ("i", x + y), ("i", 0))
                if op == "SubWithOverflow":
                    return ("tuple", ("i", x - y), ("i", 1 if x - y < 0 else 0))
                if op == "MulWithOverflow":
                    return ("tuple", ("i", x * y), ("i", 0))
                if op in ("Lt", "Le", "Gt", "Ge", "Eq", "Ne"):
                    r = {"Lt": x < y, "Le": x <= y, "Gt": x > y, "Ge": x >= y, "Eq": x == y, "Ne": x != y}[op]
                    return ("i", int(r))
                return TOP
            # comparisons of buflen() against a constant
            if a is not TOP and a[0] == "buflen" and b is not TOP and b[0] == "i" and op in ("Lt", "Le", "Gt", "Ge", "Eq", "Ne"):
                return ("bufcmp", op, b[1])
            if b is not TOP and b[0] == "buflen" and a is not TOP and a[0] == "i" and op in ("Lt", "Le", "Gt", "Ge", "Eq", "Ne"):
                flip = {"Lt": "Gt", "Le": "Ge", "Gt": "Lt", "Ge": "Le", "Eq": "Eq", "Ne": "Ne"}[op]
                return ("bufcmp", flip, a[1])
            return TOP
        if k == "discr":
            v = self._place_val(f, env, rv["p"])
            if v is TOP:
                return TOP
            if v[0] == "var":
                return ("i", v[1])
            if v[0] == "rawopt":
                return ("rawdiscr",)
            return TOP
        if k == "agg":
            if rv.get("agg") == "adt":
                if rv["adt"] == "std::ops::Range":
                    a = self._val(f, env, rv["ops"][0])
                    b = self._val(f, env, rv["ops"][1])
                    if a is not TOP and b is not TOP and a[0] == "i" and b[0] == "i":
                        return ("range", a[1], b[1])
                    return TOP
                payload = self._val(f, env, rv["ops"][0]) if len(rv["ops"]) >= 1 else TOP
                if not _hashable_small(payload):
                    payload = TOP
                return ("var", rv["vidx"], payload)
            return TOP
        return TOP

    # ------------------------------------------------------------------------------------------
    def _switch(self, f, bb, t, env, lb, ub, cons, enq):
        v = self._val(f, env, t["discr"])
        vals, tgs, other = t["vals"], t["targets"], t["otherwise"]
        outs = []
        if v is not TOP and v[0] == "i":
            for val, tg in zip(vals, tgs):
                if val == v[1]:
                    return [(tg, dict(env), lb, ub, cons, enq)]
            return [(other, dict(env), lb, ub, cons, enq)]
        neg = False
        while v is not TOP and v[0] == "not":
            v = v[1]
            neg = not neg
        if v is not TOP and v[0] in ("isempty", "bufcmp") and 0 in vals:
            f_tg = tgs[vals.index(0)]
            t_tg = other
            if neg:
                f_tg, t_tg = t_tg, f_tg
            if v[0] == "isempty":
                # true: buffer empty
                if lb == 0:
                    outs.append((t_tg, dict(env), 0, 0, cons, enq))
                if ub >= 1:
                    outs.append((f_tg, dict(env), max(lb, 1), ub, cons, enq))
                return outs
            op, k = v[1], v[2]
            tr, fa = _refine_cmp(op, k, lb, ub)
            if tr is not None:
                outs.append((t_tg, dict(env), tr[0], tr[1], cons, enq))
            if fa is not None:
                outs.append((f_tg, dict(env), fa[0], fa[1], cons, enq))
            return outs
        if v is not TOP and v[0] == "rawdiscr":
            for val, tg in list(zip(vals, tgs)) + [(None, other)]:
                if val == 1:
                    outs.append((tg, dict(env), 0, 0, True, enq))
                elif val == 0 or (val is None and 0 not in vals):
                    outs.append((tg, dict(env), 0, min(max(ub, 1), 1), cons, enq))
                elif val is None and 1 not in vals:
                    outs.append((tg, dict(env), 0, 0, True, enq))
            return outs
        seen = set()
        for tg in tgs + [other]:
            if tg not in seen:
                seen.add(tg)
                outs.append((tg, dict(env), lb, ub, cons, enq))
        return outs

    # ------------------------------------------------------------------------------------------
    def _call(self, f, fnkey, bb, t, env, lb, ub, cons, enq, floor):
        fr = t["f"].get("fn")
        dest = t["dest"]
        tg = t["t"]
        key = fr["key"] if fr else None
        res = (fr.get("resolved") if fr else None)
        argv = [self._val(f, env, a) for a in t["args"]]

        def out(dv, l2=lb, u2=ub, c2=cons, q2=enq):
            e2 = dict(env)
            # a tracked local whose reference is handed to an unknown callee may be changed by it
            if not dest["p"]:
                if dv is TOP:
                    e2.pop(dest["l"], None)
                else:
                    e2[dest["l"]] = dv
            else:
                e2.pop(dest["l"], None)
            return (tg, e2, l2, u2, c2, q2)

        if tg is None:
            # diverging call (panic): remember that it was reached
            self.diverge_hits.setdefault((fnkey, bb), []).append((lb, ub, [c[0] for c in self.stack]))
            return []
        st = (lb, ub)
        ctx = None
        if fr is not None and fr.get("trait") == INPUT and fr["name"] in PRIMS and (res is None or res == key):
            name = fr["name"]
            B = self.B
            if name == "lookahead":
                n = argv[1] if len(argv) > 1 else TOP
                if n is TOP or n[0] != "i":
                    self.require(False, fnkey, bb, name, "look-ahead request of unknown size (must be a constant or bufmaxlen())", st, ctx)
                    return [out(TOP, lb, INF)]
                self.require(n[1] <= B, fnkey, bb, name, "look-ahead request of %d exceeds the buffer capacity %d" % (n[1], B), st, ctx)
                return [out(TOP, max(lb, n[1]), max(ub, n[1]))]
            if name == "peek":
                self.require(lb >= 1, fnkey, bb, name, "peek() without a prior lookahead covering it", st, ctx)
                return [out(TOP, max(lb, 1), max(ub, 1))]
            if name == "peek_nth":
                n = argv[1] if len(argv) > 1 else TOP
                if n is TOP or n[0] != "i":
                    self.require(False, fnkey, bb, name, "peek_nth() with an index the analysis cannot bound", st, ctx)
                    return [out(TOP)]
                self.require(lb >= n[1] + 1, fnkey, bb, name, "peek_nth(%d) without a prior lookahead(%d)" % (n[1], n[1] + 1), st, ctx)
                return [out(TOP, max(lb, n[1] + 1), max(ub, n[1] + 1))]
            if name == "skip":
                self.require(lb >= 1, fnkey, bb, name, "skip() of a character that was not looked ahead", st, ctx)
                nl, nu = max(lb - 1, 0), max(ub - 1, 0)
                if floor:
                    nl = max(nl, min(floor, nu))
                return [out(TOP, nl, nu, True)]
            if name == "skip_n":
                n = argv[1] if len(argv) > 1 else TOP
                if n is TOP or n[0] != "i":
                    self.require(False, fnkey, bb, name, "skip_n() with a count the analysis cannot bound", st, ctx)
                    return [out(TOP, 0, ub, True)]
                self.require(lb >= n[1], fnkey, bb, name, "skip_n(%d) of characters that were not looked ahead" % n[1], st, ctx)
                return [out(TOP, max(lb - n[1], 0), max(ub - n[1], 0), True if n[1] > 0 else cons)]
            if name == "raw_read_ch":
                self.require(ub == 0, fnkey, bb, name, "raw read while the buffer may hold characters (reorders input)", st, ctx)
                return [out(TOP, 0, 0, True)]
            if name == "raw_read_non_breakz_ch":
                self.require(ub == 0, fnkey, bb, name, "raw read while the buffer may hold characters (reorders input)", st, ctx)
                return [out(("rawopt",), 0, 0)]
            if name == "buflen":
                self.site(fnkey, bb, name)["ok"] += 1
                return [out(("buflen",))]
            if name == "bufmaxlen":
                self.site(fnkey, bb, name)["ok"] += 1
                return [out(("i", B))]
            if name == "buf_is_empty":
                self.site(fnkey, bb, name)["ok"] += 1
                return [out(("isempty",))]
        # token queue
        if key in ("std::collections::VecDeque::push_back", "std::collections::VecDeque::insert", "std::collections::VecDeque::push_front"):
            e = cfg.strip_reborrow(cfg.expr_operand(f, t["args"][0]))
            while e[0] == "ref":
                e = e[1]
            fl = cfg.expr_fields(e) if e[0] == "place" else None
            if fl and fl[0] == self.token_field[1]:
                return [out(TOP, lb, ub, cons, True)]
            return [out(TOP)]
        # Range iteration
        if key == "std::iter::IntoIterator::into_iter" and argv and argv[0] is not TOP and argv[0][0] == "range":
            return [out(argv[0])]
        if key == "std::iter::Iterator::next" and argv and argv[0] is not TOP and argv[0][0] == "ref":
            l = argv[0][1]
            r = env.get(l, TOP)
            if r is not TOP and r[0] == "range":
                e2 = dict(env)
                if r[1] < r[2]:
                    e2[l] = ("range", r[1] + 1, r[2])
                    dv = ("var", 1, ("i", r[1]))
                else:
                    dv = ("var", 0, TOP)
                e2[dest["l"]] = dv
                return [(tg, e2, lb, ub, cons, enq)]
        if key == "std::ops::Try::branch" and argv and argv[0] is not TOP and argv[0][0] == "var":
            # Result: Ok (0) -> Continue (0), Err (1) -> Break (1).  Option: None (0) -> Break (1), Some (1) -> Continue (0)
            _res = (fr.get("resolved") or "") if fr else ""
            is_option = "option::Option" in _res or any("option::Option" in (x or "") for x in ((fr or {}).get("substs") or []))
            return [out(("var", (1 - argv[0][1]) if is_option else argv[0][1], TOP))]
        if key == "std::ops::FromResidual::from_residual":
            return [out(("var", 1, TOP))]
        # local callee touching the input: descend
        target = None
        if fr is not None:
            if res in self.F.fns:
                target = res
            elif key in self.F.fns:
                target = key
        if target is not None and target in self.touch and fr.get("trait") != INPUT or (target is not None and fr.get("trait") == INPUT and target in self.touch):
            cal = self.F.fns[target]
            cargs = []
            for i in range(cal.arg_count):
                v = argv[i] if i < len(argv) else TOP
                cargs.append(v if (v is not TOP and v[0] == "i") else TOP)
            exits = self.analyse(target, lb, ub, tuple(cargs), floor)
            outs = []
            for (l2, u2, c2, q2, rk) in exits:
                e2 = dict(env)
                # callee may write through &mut references handed to it
                for v in argv:
                    if v is not TOP and v[0] == "ref":
                        e2.pop(v[1], None)
                if not dest["p"]:
                    if rk is TOP:
                        e2.pop(dest["l"], None)
                    else:
                        e2[dest["l"]] = rk
                outs.append((tg, e2, l2, u2, cons or c2, enq or q2))
            return outs
        # unknown callee: kills locals whose reference it receives
        e2 = dict(env)
        for v in argv:
            if v is not TOP and v[0] == "ref":
                e2.pop(v[1], None)
        if not dest["p"]:
            e2.pop(dest["l"], None)
        return [(tg, e2, lb, ub, cons, enq)]


def _hashable_small(v):
    return v is TOP or (isinstance(v, tuple) and v[0] in ("i", "var", "isempty", "bufcmp", "not", "rawopt") and len(repr(v)) < 80)


def _refine_cmp(op, k, lb, ub):
    """for `buflen <op> k`: ((lb,ub) on true or None if infeasible, (lb,ub) on false or None)"""
    def clip(l, u):
        return (l, u) if l <= u else None
    if op == "Ge":
        return clip(max(lb, k), ub), clip(lb, min(ub, k - 1))
    if op == "Gt":
        return clip(max(lb, k + 1), ub), clip(lb, min(ub, k))
    if op == "Lt":
        return clip(lb, min(ub, k - 1)), clip(max(lb, k), ub)
    if op == "Le":
        return clip(lb, min(ub, k)), clip(max(lb, k + 1), ub)
    if op == "Eq":
        return (clip(max(lb, k), min(ub, k)), (lb, ub))
    if op == "Ne":
        return ((lb, ub), clip(max(lb, k), min(ub, k)))
    return (lb, ub), (lb, ub)


# ------------------------------------------------------------------------------------------------
# Lemma: bounded skip loop
#   if P < bufmaxlen() - c { lookahead(bufmaxlen()); while self.mark.col < P && <cond> { skip_blank() } ... }
# premises (all checked on the MIR):
#   P1 the loop is dominated by the true edge of  Lt(P, Sub(bufmaxlen(), c))
#   P2 lookahead(bufmaxlen()) is executed between that edge and the loop head, with no consuming call in between
#   P3 every iteration of the loop passes the true edge of Lt(self.mark.col, P); P is not assigned in the loop
#   P4 the loop body consumes through exactly one call of the unit-step helper, which consumes one character and
#      adds one to mark.col
# conclusion: at most P - col <= P <= B-c-1 characters are consumed in the loop, so lb >= c+1 throughout and after it.

def check_bounded_skip_lemma(F, f, lem):
    prem = {}
    res = {"ok": False, "premises": prem, "loop_blocks": set()}
    loops = f.natural_loops()
    cand = None
    for head, body in loops:
        # innermost loops whose only local call is the unit-step helper
        calls = []
        for b in body:
            t = f.blocks[b]["term"]
            if t["k"] == "call":
                fr = t["f"].get("fn")
                calls.append((b, fr["key"] if fr else None, fr))
        local_calls = [c for c in calls if c[1] in F.fns and (c[2].get("trait") != INPUT)]
        if len(local_calls) == 1 and local_calls[0][1] == lem["step_fn"]:
            prims = [c[2]["name"] for c in calls if c[2] and c[2].get("trait") == INPUT]
            if all(p in ("peek",) for p in prims):
                if cand is None or len(body) < len(cand[1]):
                    cand = (head, body, local_calls[0][0])
    if cand is None:
        prem["loop-found"] = False
        return res
    head, body, step_bb = cand
    prem["loop-found"] = True
    # P3: a switch in the loop on Lt(self.mark.col, P) whose false edge leaves the loop and true edge dominates the step call
    p3 = False
    P = None
    for b in body:
        t = f.blocks[b]["term"]
        if t["k"] != "switch":
            continue
        e = cfg.expr_operand(f, t["discr"], 6)
        if e[0] == "bin" and e[1] == "Lt" and cfg.expr_fields(e[2]) == ["mark", "col"] and e[3][0] in ("param",):
            m = {v: tg for v, tg in zip(t["vals"], t["targets"])}
            if 0 in m and m[0] not in body and cfg.dominated_by_edge(f, step_bb, b, t["otherwise"]):
                P = e[3]
                p3 = True
    # P not assigned in the function at all (it is a by-value parameter never redefined)
    if P is not None:
        p3 = p3 and not cfg.defs_of_local(f, P[1])
    prem["P3 iteration guarded by mark.col < P, P loop-invariant"] = p3
    # P1: dominated by true edge of Lt(P, Sub(bufmaxlen(), c))
    p1 = False
    c_found = None
    guard_bb = None
    for b in f.dominators().get(head, ()):
        t = f.blocks[b]["term"]
        if t["k"] != "switch":
            continue
        e = cfg.expr_operand(f, t["discr"], 8)
        if e[0] == "bin" and e[1] == "Lt" and e[2] == P:
            r = e[3]
            # (SubWithOverflow(bufmaxlen(), c)).0
            if r[0] == "place" and r[2] == [("field", "0")] and r[1][0] == "bin" and r[1][1] in ("SubWithOverflow", "Sub"):
                r = r[1]
            if r[0] == "bin" and r[1] in ("Sub", "SubWithOverflow") and r[2][0] == "call" and r[2][1] == INPUT + "::bufmaxlen" and r[3][0] == "const":
                if cfg.dominated_by_edge(f, head, b, t["otherwise"]):
                    p1 = True
                    c_found = r[3][1]
                    guard_bb = b
    prem["P1 loop dominated by P < bufmaxlen() - c"] = p1
    prem["c"] = c_found
    # P2: lookahead(bufmaxlen()) on every path from the guard edge to the loop head, no consuming call in between
    p2 = False
    if p1:
        la = []
        for b, t, ck, fr in f.calls():
            if fr and fr.get("trait") == INPUT and fr["name"] == "lookahead":
                e = cfg.expr_operand(f, t["args"][1], 6)
                if e[0] == "call" and e[1] == INPUT + "::bufmaxlen":
                    la.append(b)
        start = f.blocks[guard_bb]["term"]["otherwise"]
        between = cfg.blocks_reachable_from(f, [start], avoid=[head])
        consuming = [b for b in between if f.blocks[b]["term"]["k"] == "call" and (f.blocks[b]["term"]["f"].get("fn") or {}).get("key") in F.fns
                     and (f.blocks[b]["term"]["f"]["fn"].get("trait") != INPUT)]
        path = cfg.path_avoiding(f, [guard_bb], la, [head]) if start not in la else None
        # path_avoiding explores successors of guard_bb: restrict to the true edge by checking start explicitly
        esc = None
        if start not in la:
            esc = cfg.path_avoiding(f, [start], la, [head]) if start != head else [head]
        p2 = bool(la) and esc is None and not consuming
    prem["P2 lookahead(bufmaxlen()) between the guard and the loop, nothing consumed in between"] = p2
    # P4: unit step helper consumes once and adds one to mark.col
    step = F.fns.get(lem["step_fn"])
    p4 = False
    if step is not None:
        skips = [1 for b, t, ck, fr in step.calls() if fr and fr.get("trait") == INPUT and fr["name"] == "skip"]
        others = [fr["name"] for b, t, ck, fr in step.calls() if fr and fr.get("trait") == INPUT and fr["name"] != "skip"]
        colw = []
        for bi, si, s in cfg.stmts(step):
            if s["k"] == "assign" and cfg.place_fields(s["lhs"]) == ["mark", "col"]:
                colw.append(cfg.expr_operand(step, s["rv"].get("a", {}), 6) if s["rv"]["k"] == "use" else None)
        okcol = len(colw) == 1 and colw[0] is not None and colw[0][0] == "place" and colw[0][2] == [("field", "0")] and colw[0][1][0] == "bin" \
            and colw[0][1][1] in ("AddWithOverflow", "Add") and colw[0][1][3] == ("const", 1) and cfg.expr_fields(colw[0][1][2]) == ["mark", "col"]
        p4 = len(skips) == 1 and not others and okcol and not step.natural_loops()
    prem["P4 unit step: one skip(), mark.col += 1"] = p4
    ok = p1 and p2 and p3 and p4 and c_found is not None and c_found + 1 >= lem["floor_const"] and lem["floor_const"] >= 1
    # the conclusion lb >= c+1 is only as strong as the guard's constant
    res["ok"] = ok
    res["loop_blocks"] = set(body) if ok else set()
    return res
