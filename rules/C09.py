"""C09 — emit then load returns the same tree (round trip).

Three agreement clauses between sibling tables, each a necessary condition of the round trip:
 (a) escape agreement: every byte -> escape-string entry of escape_str decodes, with the scanner's extracted escape table (C04), to that
     byte; the bytes the scanner treats specially inside double quotes (quote, backslash, line breaks, NUL) are all escaped;
 (b) quoting covers the resolver: every way the resolver can type a plain scalar has a counterpart that makes need_quotes true
     (each literal, each prefix path, each std parser);
 (c) float spelling: the FloatingPoint arm of emit_node does not hand the value to Display alone (integral floats would print
     without '.', inf/NaN in a spelling the core schema does not read as a float).
 (d) nesting-level balance and (e) newline-then-indent over the emitter's functions (emitter_layout).
Round-trip equality itself, the amount of indentation, complex keys and the multiline_strings path are not decided.
"""
import json
from .common import *
from engine import tables, fold
from engine.facts import is_local, op_const, const_value, op_place
from . import C04, C08

PID = "C09"
EM = "saphyr::emitter::"


def new_report(tier):
    return make_report(PID, tier, "other", [
        "str::parse::<i64>/<f64> in need_quotes accept at least what the same parsers accept in the resolver (same std functions)",
        "<f64 as Debug> always prints a fractional part or an exponent for finite values (std)",
    ], "E4 table extraction on both sides (escape_str's byte switch, need_quotes' tests incl. folded character-set closures and its literal "
       "list, the resolver's literals/prefixes/parsers from C08's extraction, the scanner's escape table from C04's) and their comparison; "
       "callee rule on the FloatingPoint arm of emit_node; path-sensitive level counting and a newline/indent typestate over every function "
       "of the emitter. Necessary conditions only: round-trip equality is a value-level property.")


def escape_str_table(F):
    f = F.fn(EM + "escape_str")
    out = {}
    sw = None
    for bi, b in enumerate(f.blocks):
        t = b["term"]
        if not b["cleanup"] and t["k"] == "switch" and t["dty"] == "u8" and len(t["vals"]) > 10:
            sw = bi
    if sw is None:
        raise facts.MissingAnchor("escape_str: byte switch not found")
    t = f.blocks[sw]["term"]
    for v, tg in zip(t["vals"], t["targets"]):
        lit = None
        b = tg
        for _ in range(4):
            for s in f.blocks[b]["stmts"]:
                if s["k"] == "assign" and s["rv"]["k"] == "use":
                    c = op_const(s["rv"]["a"])
                    if c is not None and "str" in c:
                        lit = c["str"]
            if lit is not None:
                break
            nx = f.succs(b)
            if len(nx) != 1:
                break
            b = nx[0]
        out[v] = lit
    return out, f


def need_quotes_tests(F):
    """the disjuncts of need_quotes as data"""
    f = F.fn(EM + "need_quotes")
    fo = fold.Folder(F)
    tests = {"starts_with_chars": set(), "contains_chars": set(), "literals": set(), "prefixes": set(), "suffix_chars": set(), "parsers": set(), "is_empty": False}

    def scan(g):
        for bb, t, ck, fr in g.calls():
            if ck == "str::is_empty":
                tests["is_empty"] = True
            elif ck in ("str::starts_with", "str::contains", "str::ends_with"):
                e = cfg.expr_operand(g, t["args"][1], 6)
                c = op_const(t["args"][1])
                if e[0] == "closure":
                    s = set()
                    for cp in fold.ALPHABET:
                        try:
                            if fo.call(e[1], [("zst",), cp]):
                                s.add(cp)
                        except fold.Diverged:
                            pass
                    tests["starts_with_chars" if ck == "str::starts_with" else "contains_chars"] |= s
                elif c is not None:
                    v = const_value(c)
                    if isinstance(v, tuple):
                        if ck == "str::starts_with":
                            tests["prefixes"].add(chr(v[1]))
                        elif ck == "str::ends_with":
                            tests["suffix_chars"].add(chr(v[1]))
                        else:
                            tests["contains_chars"].add(v[1])
                    elif isinstance(v, str):
                        if ck == "str::starts_with":
                            tests["prefixes"].add(v)
            elif ck == "[T]::contains":
                # the literal list lives in a promoted array
                for pb in g.d.get("promoted", []):
                    has_array = any(st["k"] == "assign" and st["rv"]["k"] == "agg" and st["rv"].get("agg") == "array" for blk in pb["blocks"] for st in blk["stmts"])
                    if not has_array:
                        continue
                    for blk in pb["blocks"]:
                        for st in blk["stmts"]:
                            if st["k"] != "assign":
                                continue
                            for o in cfg.rv_operands(st["rv"]):
                                c = op_const(o)
                                if c is not None and "str" in c:
                                    tests["literals"].add(c["str"])
            elif ck == "str::parse":
                tests["parsers"] |= {x for x in fr["substs"] if x in ("i64", "f64")}
            elif ck in F.fns and ck.startswith(f.key):
                scan(F.fns[ck])
    scan(f)
    return tests, f


def nq(tests, text):
    if text == "":
        return tests["is_empty"]
    if ord(text[0]) in tests["starts_with_chars"]:
        return True
    if any(ord(c) in tests["contains_chars"] for c in text):
        return True
    if text in tests["literals"]:
        return True
    if any(text.startswith(p) for p in tests["prefixes"]):
        return True
    if text[0] == " " and " " in tests["prefixes"] or text[-1] in tests["suffix_chars"]:
        return True
    return False


EMITTER = "saphyr::emitter::YamlEmitter"


def _writes(f):
    """per block: what the block's call writes to the output: ('nl',) for a constant piece ending in a line feed, ('indent',) for
    write_indent, ('content', what) for anything else that produces output (constant pieces, formatted values, escape_str, emit_*)"""
    out = {}
    pending_const = {}
    for bb, t, ck, fr in f.calls():
        if ck is None:
            continue
        if ck == "std::fmt::Arguments::from_str":
            c = op_const(t["args"][0])
            if c is not None and "str" in c and not t["dest"]["p"]:
                pending_const[t["dest"]["l"]] = c["str"]
            continue
        if ck in ("std::fmt::Write::write_fmt", "std::fmt::Write::write_str", "std::fmt::Write::write_char"):
            lit = None
            a = t["args"][1]
            l = is_local(a)
            if l is not None and l in pending_const:
                lit = pending_const[l]
            c = op_const(a)
            if c is not None and "str" in c:
                lit = c["str"]
            if lit is not None and lit.endswith("\n"):
                out[bb] = ("nl", lit)
            elif lit == "":
                continue
            else:
                out[bb] = ("content", repr(lit) if lit is not None else "formatted value")
        elif ck == EMITTER + "::write_indent":
            out[bb] = ("indent",)
        elif ck.startswith(EMITTER + "::emit_") or ck == EM + "escape_str":
            out[bb] = ("content", short(ck))
    return out


def _level_steps(f):
    """per (block, stmt index): +1 / -1 / ('set', expr) for assignments to self.level"""
    out = {}
    for w in cfg.field_writes(f, EMITTER, "level"):
        if w["kind"] != "assign":
            out[(w["bb"], w.get("idx", 0))] = ("set", "borrowed")
            continue
        st = w["stmt"]
        e = cfg.expr_operand(f, st["rv"]["a"], 6) if st["rv"]["k"] == "use" else ("?",)
        step = None
        if e[0] == "place" and e[2] == [("field", "0")] and e[1][0] == "bin" and e[1][1] in ("AddWithOverflow", "SubWithOverflow") \
                and cfg.expr_fields(e[1][2]) == ["level"] and e[1][3][0] == "const" and isinstance(e[1][3][1], int):
            step = e[1][3][1] if e[1][1].startswith("Add") else -e[1][3][1]
        out[(w["bb"], w["idx"])] = step if step is not None else ("set", cfg.expr_str(e)[:60])
    return out


def emitter_layout(rep, F):
    """(d) nesting-level balance: along every path on which a function of the emitter returns without an error, the increments and
    decrements of `level` cancel (a collection's siblings are indented alike); only dump() assigns level outright.
    (e) after a line feed the next thing written is the indentation: no content, and no nested emit call, directly follows a newline
    (except in dump(), whose root node starts at column 0)."""
    n = 0
    for k, f in sorted(F.fns.items()):
        if f.d.get("impl_adt") != EMITTER or f.kind != "AssocFn":
            continue
        steps = _level_steps(f)
        wr = _writes(f)
        if not steps and not wr:
            continue
        n += 1
        by_bb = {}
        for (bb, si), v in steps.items():
            by_bb.setdefault(bb, []).append((si, v))
        resid = {bb for bb, t, ck, fr in f.calls() if ck and ck.endswith("::from_residual")} | set(cfg.err_sink_blocks(f))
        bad_level, bad_nl = None, None
        seen = {}
        stack = [(0, 0, "content", (0,))]
        while stack:
            bb, d, st, path = stack.pop()
            if (bb, d, st) in seen:
                continue
            seen[(bb, d, st)] = path
            if bb in resid or f.blocks[bb]["cleanup"]:
                continue
            for si, v in sorted(by_bb.get(bb, [])):
                if isinstance(v, tuple):
                    if f.name != "dump":
                        bad_level = bad_level or ("level assigned %s" % v[1], path)
                    d = 0
                else:
                    d += v
            if abs(d) > 6:
                bad_level = bad_level or ("level changes by more than 6 along a path (a loop body does not restore it)", path)
                continue
            w = wr.get(bb)
            if w is not None:
                if w[0] == "nl":
                    st = "newline"
                elif w[0] == "indent":
                    st = "content"
                elif st == "newline" and f.name != "dump":
                    bad_nl = bad_nl or ("%s is written directly after a line feed" % w[1], path)
                else:
                    st = "content"
            t = f.blocks[bb]["term"]
            if t["k"] == "return":
                if d != 0 and f.name != "dump":
                    bad_level = bad_level or ("returns Ok with level changed by %+d" % d, path)
                continue
            for sx in f.succs(bb):
                stack.append((sx, d, st, path + (sx,) if len(path) < 60 else path))
        rep.check(bad_level is None, "level-balance", short(k), "the nesting level is not restored on a successful return: following siblings are emitted at the "
                  "wrong indentation and reload into a different tree" + (": " + bad_level[0] if bad_level else ""), site=f.span,
                  detail={"path": list(bad_level[1]) if bad_level else None})
        rep.check(bad_nl is None, "newline-then-indent", short(k), "content follows a line feed without the indentation being written first: a nested node "
                  "restarts at column 0 and reloads at the wrong depth" + (": " + bad_nl[0] if bad_nl else ""), site=f.span,
                  detail={"path": list(bad_nl[1]) if bad_nl else None})
    rep.floor("emitter functions with layout obligations", n, 6)


def run(tier):
    rep = new_report(tier)
    F = facts.load()
    named, hexlen, _, _ = C04.scanner_escape_table(F)
    # (a) escape agreement
    etab, ef = escape_str_table(F)
    rep.floor("escape_str entries", len(etab), 30)
    for byte, lit in sorted(etab.items()):
        dec = None
        if lit and lit.startswith("\\") and len(lit) >= 2:
            c = ord(lit[1])
            if c in named and len(lit) == 2:
                dec = named[c]
            elif c in hexlen and len(lit) == 2 + hexlen[c]:
                try:
                    dec = int(lit[2:], 16)
                except ValueError:
                    dec = None
        rep.check(dec == byte, "escape-agreement", "0x%02x" % byte,
                  "escape_str writes %r for byte 0x%02x, which the scanner decodes to %s" % (lit, byte, "U+%04X" % dec if dec is not None else "an error"),
                  site=ef.span)
    special = {0x22, 0x5C, 0x00} | {cp for cp in fold.predicate_table(F, "saphyr_parser::char_traits::is_break")}
    for b in sorted(special):
        rep.check(b in etab, "escape-covers-special", "0x%02x" % b, "byte 0x%02x is special to the scanner inside double quotes but escape_str passes it through" % b,
                  site=ef.span)

    # (b) quoting covers the resolver
    tests, nf = need_quotes_tests(F)
    rep.extra["need_quotes"] = {"literals": sorted(tests["literals"]), "prefixes": sorted(tests["prefixes"]), "parsers": sorted(tests["parsers"]),
                                "starts_with_chars": "".join(chr(c) for c in sorted(tests["starts_with_chars"])),
                                "contains_chars": sorted(tests["contains_chars"])[:60]}
    pfc = F.fn(C08.SC + "::parse_from_cow")
    pf64 = F.fn("saphyr::loader::parse_f64")
    lits = set()
    for f in (pfc, pf64):
        for lit, bb, tt, ft in C08.string_matches(f):
            lits.add(lit)
    rep.floor("resolver literals", len(lits), 12)
    for lit in sorted(lits):
        rep.check(nq(tests, lit), "quotes-cover-literal", repr(lit),
                  "the string %r is emitted without quotes but the resolver reads the bare text back as a typed value" % lit, site=nf.span)
    # prefix paths of the resolver
    npre = 0
    for bb, t, ck, fr in pfc.calls():
        if ck == "str::strip_prefix":
            c = op_const(t["args"][1])
            v = const_value(c) if c else None
            pre = chr(v[1]) if isinstance(v, tuple) else v
            npre += 1
            covered = any(pre.startswith(p) for p in tests["prefixes"]) or ord(pre[0]) in tests["starts_with_chars"]
            # '+<digits>' is also accepted by str::parse::<i64> on the whole text, which need_quotes mirrors
            if pre == "+" and "i64" in tests["parsers"]:
                covered = True
            rep.check(covered, "quotes-cover-prefix", repr(pre),
                      "the resolver types texts starting with %r (prefix path) but need_quotes has no matching test: such strings are emitted bare and reload as numbers" % pre,
                      site=nf.span)
    rep.floor("resolver prefix paths", npre, 1)
    # std parsers mirrored
    rparsers = set()
    for f in (pfc, pf64):
        for bb, t, ck, fr in f.calls():
            if ck == "str::parse":
                rparsers |= {x for x in fr["substs"] if x in ("i64", "f64")}
    for p in sorted(rparsers):
        rep.check(p in tests["parsers"], "quotes-mirror-parser", p, "the resolver uses str::parse::<%s> but need_quotes does not" % p, site=nf.span)
    rep.floor("std parsers used by the resolver", len(rparsers), 1)
    # a character the scanner takes away before a token (the arms of skip_to_next_token: blanks, breaks, the comment sign - and whatever
    # else it is taught to skip) cannot lead a plain scalar: a string that starts with one must be quoted
    stn = F.fn(SCANNER + "::skip_to_next_token")
    skipped = set()
    for bi, b in enumerate(stn.blocks):
        tt = b["term"]
        if b["cleanup"] or tt["k"] != "switch":
            continue
        es = cfg.expr_str(cfg.expr_operand(stn, tt["discr"], 6))
        if ("look_ch" in es or "Input::peek(" in es) and "Eq(" not in es and len(tt["vals"]) >= 2:
            skipped |= {v for v, tg in zip(tt["vals"], tt["targets"]) if tg != tt["otherwise"]}
        elif "Eq(" in es and ("look_ch" in es or "Input::peek(" in es):
            import re as _re2
            skipped |= {int(x) for x in _re2.findall(r"\('char', (\d+)\)", es)}
    rep.floor("characters skipped between tokens", len(skipped), 4)
    for c in sorted(skipped):
        rep.check(nq(tests, chr(c) + "a"), "quotes-cover-skipped-character", "U+%04X" % c, "the scanner skips U+%04X when it looks for the next token, but need_quotes does "
                  "not quote a string that starts with it: emitted bare at the start of a line, the character is taken for layout and lost" % c, site=nf.span)
    # ... and they are disjuncts of need_quotes on the whole text: a path that answers "no quotes needed" has run every one of them (a
    # length limit, a fast exit or any other conjunct in front of a parser lets texts the loader types as numbers out bare)
    nparse = 0
    truths = {bi for bi, si, st in cfg.stmts(nf) if st["k"] == "assign" and st["lhs"]["l"] == 0 and not st["lhs"]["p"] and st["rv"]["k"] == "use"
              and op_const(st["rv"]["a"]) is not None and const_value(op_const(st["rv"]["a"])) is True}
    for bb, t, ck, fr in nf.calls():
        if ck == "str::parse" and {x for x in fr["substs"] if x in ("i64", "f64")}:
            nparse += 1
            ty = sorted(x for x in fr["substs"] if x in ("i64", "f64"))[0]
            arg = cfg.strip_reborrow(cfg.expr_operand(nf, t["args"][0], 8))
            whole_text = arg in (("param", 1), ("ref", ("param", 1))) or (arg[0] == "place" and arg[1] == ("param", 1) and all(x == "deref" for x in arg[2]))
            esc = cfg.flag_reach(nf, 0, cfg.return_blocks(nf), avoid=truths | {bb})
            rep.check(esc is None and whole_text, "quotes-number-test-unconditional", "parse::<%s>" % ty,
                      "need_quotes can answer `false` without having run str::parse::<%s> on the whole text%s: a string that spells a number the loader accepts "
                      "is emitted bare and reloads as a number" % (ty, "" if whole_text else " (it parses %s)" % cfg.expr_str(arg)[:60]), site=site(nf, t["sp"]),
                      detail={"escaping_path": esc})
    rep.floor("number parsers in need_quotes", nparse, 2)

    emitter_layout(rep, F)
    # (b') integer spelling: the emitter writes an Integer with Display; the inverse of <i64 as Display> is str::parse::<i64> on the whole,
    # unmodified text (sign included - the magnitude of i64::MIN alone does not fit), and the resolver must reach it before the float parser
    pi = [bb for bb, t, ck, fr in pfc.calls() if ck == "str::parse" and "i64" in fr["substs"]
          and not tables.find_calls(tables.normalize(cfg.expr_operand(pfc, t["args"][0], 12)), "::strip_prefix")
          and cfg.strip_reborrow(tables.normalize(cfg.expr_operand(pfc, t["args"][0], 12)))[0] in ("ref", "place", "call", "param")]
    whole = []
    for bb, t, ck, fr in pfc.calls():
        if bb in pi:
            e = cfg.expr_str(tables.normalize(cfg.expr_operand(pfc, t["args"][0], 12)))
            if "arg1" in e and "strip" not in e and "trim" not in e and "[" not in e:
                whole.append(bb)
    pff = [bb for bb, t, ck, fr in pfc.calls() if ck == "saphyr::loader::parse_f64"]
    rep.check(len(whole) >= 1 and all(any(w in pfc.dominators().get(x, ()) for w in whole) for x in pff), "integer-spelling", "parse_from_cow",
              "the resolver no longer applies str::parse::<i64> to the whole plain text before trying a float: some integer the emitter writes with Display "
              "(i64::MIN, whose magnitude alone does not fit) reloads as a float", site=pfc.span)
    # (c) float spelling
    en = F.fn(EM + "YamlEmitter::emit_node")
    sc = F.adt(C08.SC)
    fidx = [v["discr"] for v in sc["variants"] if v["name"] == "FloatingPoint"][0]
    arm = None
    for bb, p, adt in tables.discr_switches(en):
        if adt == C08.SC:
            m, other = cfg.switch_edge_blocks(en, bb)
            arm = (bb, m.get(fidx, other), [tg for v, tg in m.items() if v != fidx] + [other])
    if arm is None:
        rep.incomplete("emit_node: match on the scalar kind not found", en.span)
        return rep
    blocks = cfg.blocks_reachable_from(en, [arm[1]], avoid=[x for x in arm[2] if x != arm[1]])
    # restrict to blocks dominated by the arm edge
    blocks = {b for b in blocks if cfg.dominated_by_edge(en, b, arm[0], arm[1])}
    disp = dbg = 0
    consts = set()
    for b in blocks:
        t = en.blocks[b]["term"]
        for s in en.blocks[b]["stmts"]:
            if s["k"] == "assign":
                for o in cfg.rv_operands(s["rv"]):
                    c = op_const(o)
                    if c is not None and "str" in c:
                        consts.add(c["str"])
        if t["k"] == "call":
            fr = t["f"].get("fn")
            k = fr["key"] if fr else ""
            for a in t["args"]:
                c = op_const(a)
                if c is not None and "str" in c:
                    consts.add(c["str"])
            if k == "core::fmt::rt::Argument::new_display":
                ty = en.local_ty(is_local(t["args"][0])) if is_local(t["args"][0]) is not None else ""
                if "f64" in ty or "OrderedFloat" in ty:
                    disp += 1
            if k in ("core::fmt::rt::Argument::new_debug", "core::fmt::rt::Argument::new_lower_exp"):
                dbg += 1
    ok = disp == 0 and {".nan", ".inf", "-.inf"} <= consts and dbg >= 1
    rep.check(ok, "float-spelling", "emit_node[FloatingPoint]",
              "floats are written with Display alone: 1.0 is emitted as `1` (reloads as an integer) and inf/NaN in a spelling that is not a core-schema float",
              site=en.span, detail={"display_on_float": disp, "debug_or_exp": dbg, "constants": sorted(consts)})
    # literal block scalars (multiline_strings): the characters the emitter is willing to write raw into a block scalar must not be
    # characters the scanner ends a line at (other than the line feed the emitter itself splits lines at), nor the end-of-input
    # padding: table of the character test of is_valid_literal_block_scalar against the parser's is_break / is_breakz (both folded)
    lit = [k for k in F.fns if k.startswith("saphyr::char_traits::is_valid_literal_block_scalar::{closure") and F.fns[k].arg_count == 2
           and F.fns[k].locals[2]["ty"] == "char"]
    rep.floor("character tests of the literal-block decision", len(lit), 1)
    brk = fold.predicate_table(F, "saphyr_parser::char_traits::is_breakz")
    for k in lit:
        fo = fold.Folder(F)
        wrong = []
        try:
            for cp in fold.ALPHABET:
                if cp != 10 and cp in brk and fo.call(k, [("zst",), cp]):
                    wrong.append("U+%04X" % cp)
        except (fold.Unsupported, fold.Diverged) as ex:
            rep.incomplete("cannot fold %s: %s" % (short(k), ex), F.fns[k].span)
            continue
        rep.check(not wrong, "literal-block-charset", short(k), "a string containing %s may be written raw into a literal block scalar, where the scanner reads it as "
                  "a line break (or the end of input): the text does not load back" % ", ".join(wrong), site=F.fns[k].span)
    # the rest of the literal-block path: which strings take it, how their lines are indented, and never for simple keys
    from . import literalblock
    rep.floor("strings folded through the literal-block predicate", literalblock.representable(rep, F), 400)
    rep.floor("line-feed-to-text segments of the literal-block loop", literalblock.indented(rep, F), 5)
    rep.floor("rounds of the literal-block loop that write a line feed", literalblock.every_line_written(rep, F), 2)
    rep.floor("calls of emit_literal_block", literalblock.not_for_keys(rep, F), 1)
    # the amount of indentation: level x best_indent blanks
    from . import indentwidth
    rep.extra["indentation_width_cases"] = indentwidth.check(rep, F)
    # every scalar key is emitted as an implicit key: one of exactly 1024 characters must still be read back as a key
    from . import keylimit
    keylimit.check(rep, F, rule="emitted-key-within-limit")
    return rep
