"""C03 — block and flow structure parses to the node tree the document denotes.

That the event stream is the tree a text denotes is a behavioural equality over all layouts and is NOT decided here.  One structural
part is: the scanner's collection tokens are produced in matched pairs with the bookkeeping that later closes them, and the Key token is
put where the candidate key was recorded.  If any of these pairings breaks, every document that uses the construct nests wrongly (or is
rejected), whatever its layout.  Clauses (each over every path of the named functions, E7 path tables):

 (a) block-start-pairs-indent   roll_indent enqueues its token argument exactly when it pushes a block indent (needs_block_end = true),
                                once; the Block*Start token kinds are built only as that argument; nobody else pushes a block indent.
 (b) block-end-pairs-indent     every pop of the indent stack either is guarded by "the top is not a block indent" or tests the popped
                                entry and enqueues exactly one BlockEnd when it was a block indent; BlockEnd is built nowhere else.
 (c) flow-token-pairs-level     the '[' '{' fetcher enqueues its token argument on exactly the paths on which increase_flow_level
                                succeeded, the ']' '}' fetcher after decrease_flow_level; the four flow collection token kinds are built
                                only as those arguments, except the implicit mapping of (d).
 (d) implicit-mapping-pairing   in fetch_value the implicit-mapping state becomes Inside exactly on the paths that enqueue one
                                FlowMappingStart; end_implicit_mapping enqueues FlowMappingEnd exactly when the state is Inside and
                                resets it; Inside is written nowhere else.
 (e) key-insertion-index        a candidate key records tokens_parsed + tokens.len(); the Key token (and an implicit FlowMappingStart,
                                and a BlockMappingStart through roll_indent) is inserted at recorded - tokens_parsed; tokens_parsed is
                                written only where a token is taken from the queue, by +1.
"""
from .common import *
from engine import e7
from engine.e7 import Cons, TRUE, FALSE
from engine.facts import is_local, op_const, const_value, op_place

PID = "C03"
S = SCANNER + "::"
TT = "saphyr_parser::scanner::TokenType"
IMS = "saphyr_parser::scanner::ImplicitMappingState"


def new_report(tier):
    return make_report(PID, tier, "other", [
        "the parser turns matched Start/End tokens into matched collection events (C02)",
        "VecDeque::push_back / insert at index i put the token at the end / before the i-th queued token (std; insert_token is a thin wrapper, checked)",
    ], "E7 guarded-path tables over the MIR of the scanner functions that push or pop the indentation stack, change the flow level, touch "
       "the implicit-mapping state or enqueue a collection token: along every path the bookkeeping operation and the token are counted and "
       "must pair; provenance (def-use) of every construction of a collection token kind; expression shape of the key insertion index. "
       "Decides token/bookkeeping pairing only - that the tokens describe the denoted tree for a given layout is behavioural and not decided.")


def token_kind(f, op):
    """kind of the token an operand holds: a TokenType variant name, ('param', n), or ('expr', text)"""
    e = cfg.expr_operand(f, op, 8)
    if e[0] == "adt" and e[1].endswith("scanner::Token"):
        ty = e[3][1]
        if ty[0] == "adt" and ty[1] == TT:
            return ty[2]
        if ty[0] == "param":
            return ("param", ty[1])
        return ("expr", cfg.expr_str(ty)[:60])
    return ("expr", cfg.expr_str(e)[:60])


class ScanRec(e7.Recogniser):
    def __init__(self, F, f):
        super().__init__(f)
        self.F = F

    def _self_field(self, op):
        e = cfg.strip_reborrow(cfg.expr_operand(self.f, op, 6))
        if e[0] == "ref":
            e = e[1]
        for _ in range(3):
            if e[0] == "place" and e[1][0] == "call" and e[1][1] and ("deref" in e[1][1]):
                e = cfg.strip_reborrow(e[1][2][0])
                if e[0] == "ref":
                    e = e[1]
        return cfg.expr_fields(e) if e[0] == "place" else None

    def guard(self, bi, st):
        f = self.f
        t = f.blocks[bi]["term"]
        e = cfg.expr_operand(f, t["discr"], 8)
        if t["dty"] == "bool" and t["vals"] == [0]:
            tt, ft = t["otherwise"], t["targets"][0]
            while e[0] == "un" and e[1] == "Not":
                e = e[2]
                tt, ft = ft, tt
            if e[0] == "place" and e[2] and e[2][-1] == ("field", "needs_block_end"):
                base = e[1]
                if base[0] == "call" and base[1] == "std::option::Option::unwrap" and base[2][0][0] == "call" and base[2][0][1] == "std::vec::Vec::pop":
                    return (("popped-is-block", base[2][0][3]), [(TRUE, tt), (FALSE, ft)])
                return (("top-is-block",), [(TRUE, tt), (FALSE, ft)])
            if e[0] == "call" and e[1] and e[1].startswith("<" + IMS + " as std::cmp::PartialEq") or (e[0] == "call" and e[1] in ("std::cmp::PartialEq::eq", "std::cmp::PartialEq::ne")):
                blk = f.blocks[e[3]]["term"]
                v = self._const_variant(blk["args"][1], IMS)
                if v is not None:
                    ne = blk["f"]["fn"]["name"] == "ne"
                    yes, no = Cons([v]), Cons(neg=[v])
                    return (("implicit-state",), [(no if ne else yes, tt), (yes if ne else no, ft)])
            l = is_local(t["discr"])
            nb = self._named_bool(t["discr"])
            if nb is not None:
                return (("bool", nb), [(TRUE, t["otherwise"]), (FALSE, t["targets"][0])])
            return (("opaque", bi), [(TRUE, tt), (FALSE, ft)])
        # multi-way switches (Option / Result discriminants ...): fork
        edges = [(Cons([v]), tg) for v, tg in zip(t["vals"], t["targets"])]
        edges.append((Cons(neg=t["vals"]), t["otherwise"]))
        return (("opaque", bi), edges)

    def _named_bool(self, op):
        f = self.f
        l = is_local(op)
        for _ in range(4):
            if l is None:
                return None
            if f.locals[l]["ty"] == "bool" and f.locals[l].get("name"):
                return l
            ds = cfg.defs_of_local(f, l)
            if len(ds) != 1 or ds[0][0] != "stmt" or ds[0][3]["rv"]["k"] != "use":
                return None
            l = is_local(ds[0][3]["rv"]["a"])
        return None

    def _const_variant(self, op, adt):
        f = self.f
        l = is_local(op)
        for _ in range(4):
            if l is None:
                return None
            ds = cfg.defs_of_local(f, l)
            if len(ds) != 1 or ds[0][0] != "stmt":
                return None
            rv = ds[0][3]["rv"]
            if rv["k"] == "agg" and rv.get("adt") == adt:
                return rv["variant"]
            if rv["k"] == "use":
                c = op_const(rv["a"])
                if c is not None and c.get("promoted") is not None:
                    for b in f.d["promoted"][c["promoted"]]["blocks"]:
                        for s in b["stmts"]:
                            if s["k"] == "assign" and s["rv"]["k"] == "agg" and s["rv"].get("adt") == adt:
                                return s["rv"]["variant"]
                    return None
                l = is_local(rv["a"])
            elif rv["k"] in ("ref", "copyforderef"):
                p = rv["p"]
                l = p["l"] if all(x["k"] == "deref" for x in p["p"]) else None
            else:
                return None
        return None

    def stmt(self, s, st):
        f = self.f
        if s["k"] != "assign":
            return None
        lhs = s["lhs"]
        # *<&mut ImplicitMappingState> = Variant
        if lhs["p"] == [{"k": "deref"}] and "ImplicitMappingState" in f.locals[lhs["l"]]["ty"]:
            e = cfg.expr_operand(f, s["rv"]["a"], 4) if s["rv"]["k"] == "use" else ("?",)
            return ("implicit-set", e[2] if e[0] == "adt" else "?")
        if lhs["p"] and s["rv"]["k"] == "use":
            fl = cfg.place_fields(lhs)
            if fl == ["flow_mapping_started"]:
                c = op_const(s["rv"]["a"])
                return ("flow-mapping-started", const_value(c) if c else "?")
        return None

    def call(self, bi, t, ck, st):
        f = self.f
        if ck.endswith("VecDeque::push_back") and self._self_field(t["args"][0]) == ["tokens"]:
            return ("op", ("enqueue", token_kind(f, t["args"][1]), "back", None))
        if ck == S + "insert_token":
            return ("op", ("enqueue", token_kind(f, t["args"][2]), "insert", cfg.expr_operand(f, t["args"][1], 8)))
        if ck == "std::vec::Vec::push":
            fl = self._self_field(t["args"][0])
            if fl == ["indents"]:
                e = cfg.expr_operand(f, t["args"][1], 4)
                b = e[3][1][1] if e[0] == "adt" and e[3][1][0] == "const" else "?"
                return ("op", ("indent-push", b))
            if fl == ["implicit_flow_mapping_states"]:
                e = cfg.expr_operand(f, t["args"][1], 4)
                return ("op", ("implicit-push", e[2] if e[0] == "adt" else "?"))
        if ck == "std::vec::Vec::pop":
            fl = self._self_field(t["args"][0])
            if fl == ["indents"]:
                return ("op", ("indent-pop", bi))
            if fl == ["implicit_flow_mapping_states"]:
                return ("op", ("implicit-pop",))
        if ck == S + "increase_flow_level":
            return ("op", ("flow-inc", bi))
        if ck == S + "decrease_flow_level":
            return ("op", ("flow-dec", bi))
        if ck.endswith("ScanError::new_str") or ck.endswith("::from_residual"):
            return ("op", ("err",))
        if ck.startswith(S) and ck in self.F.fns:
            return ("op", ("call", ck[len(S):]))
        return "transparent"


def all_paths(F, key):
    f = F.fn(key)
    rec = ScanRec(F, f)
    ps = e7.paths(f, 0, rec, limit=20000)
    return f, rec, ps


def constructions(F, variants):
    """every statement that builds one of the TokenType variants, in non-derived functions of the parser crate:
    list of (fn, bb, idx, variant)"""
    out = []
    for k, f in sorted(F.fns.items()):
        if f.crate != "saphyr_parser" or f.d.get("derived") or "::test" in k:
            continue
        for bi, si, s in cfg.stmts(f):
            if s["k"] == "assign" and s["rv"]["k"] == "agg" and s["rv"].get("adt") == TT and s["rv"].get("variant") in variants:
                out.append((f, bi, si, s["rv"]["variant"]))
    return out


def argument_sources(F, callee, argi):
    """for every call of callee: (caller fn, bb, variant or None) of the TokenType argument"""
    out = []
    for k, f in sorted(F.fns.items()):
        for bb, t, ck, fr in f.calls():
            if ck == callee:
                e = cfg.expr_operand(f, t["args"][argi], 6)
                v = e[2] if e[0] == "adt" and e[1] == TT else None
                # the defining statement of the aggregate (to match against constructions())
                l = is_local(t["args"][argi])
                site = None
                if l is not None:
                    ds = cfg.defs_of_local(f, l)
                    if len(ds) == 1 and ds[0][0] == "stmt":
                        site = (f.key, ds[0][1], ds[0][2])
                out.append((f, bb, v, site))
    return out


def clause_a(rep, F):
    f, rec, ps = all_paths(F, S + "roll_indent")
    ps = [p for p in ps if p["why"] == "return"]
    bad = []
    for p in ps:
        pushes = [o for o in p["ops"] if o[0] == "indent-push"]
        enq = [o for o in p["ops"] if o[0] == "enqueue"]
        okp = len(pushes) == len(enq) <= 1 and all(o[1] is True for o in pushes) and all(o[1] == ("param", 4) for o in enq)
        if okp and pushes:
            okp = p["ops"].index(pushes[0]) < p["ops"].index(enq[0])
        if not okp:
            bad.append({"pushes": [str(o) for o in pushes], "enqueued": [str(o[1]) for o in enq]})
    rep.check(not bad and ps, "block-start-pairs-indent", "roll_indent", "a path of roll_indent pushes a block indent without enqueueing the start token (or the reverse): "
              "the BlockEnd that unroll_indent later emits for that indent has no matching start", site=f.span, detail=bad[:4])
    rep.extra.setdefault("paths", {})["roll_indent"] = len(ps)
    # the token argument is a Block*Start constant at every call
    srcs = argument_sources(F, S + "roll_indent", 3)
    used = set()
    for cf, bb, v, site in srcs:
        rep.check(v in ("BlockSequenceStart", "BlockMappingStart"), "block-start-pairs-indent", "%s->roll_indent" % short(cf.key).split("::")[-1],
                  "roll_indent is given %s instead of a block collection start token" % v, site=cf.span)
        if site:
            used.add(site)
    rep.floor("roll_indent call sites", len(srcs), 3)
    for cf, bi, si, v in constructions(F, ("BlockSequenceStart", "BlockMappingStart")):
        rep.check((cf.key, bi, si) in used, "block-start-pairs-indent", "construction:%s in %s" % (v, short(cf.key)),
                  "a %s token is built outside a call of roll_indent: it would be enqueued without the indent that closes it" % v, site=cf.span)
    # nobody else pushes a block indent
    for k, g in sorted(F.fns.items()):
        if g.crate != "saphyr_parser" or g.d.get("impl_adt") != SCANNER or k == S + "roll_indent":
            continue
        r = ScanRec(F, g)
        for bb, t, ck, fr in g.calls():
            if ck == "std::vec::Vec::push" and r._self_field(t["args"][0]) == ["indents"]:
                o = r.call(bb, t, ck, {})[1]
                rep.check(o[1] is False, "block-start-pairs-indent", "indent-push in %s" % short(k), "a block indent (needs_block_end = true) is pushed outside roll_indent",
                          site=g.span)


def clause_b(rep, F):
    n = 0
    for k, g in sorted(F.fns.items()):
        if g.crate != "saphyr_parser" or g.d.get("impl_adt") != SCANNER:
            continue
        r = ScanRec(F, g)
        pops = [bb for bb, t, ck, fr in g.calls() if ck == "std::vec::Vec::pop" and r._self_field(t["args"][0]) == ["indents"]]
        if not pops:
            continue
        ps = e7.paths(g, 0, r, limit=20000)
        for pb in pops:
            n += 1
            seen = False
            bad = []
            for p in ps:
                idx = [i for i, o in enumerate(p["ops"]) if o == ("indent-pop", pb)]
                if not idx:
                    continue
                seen = True
                guarded_not_block = p["guards"].get(("top-is-block",)) is not None and not p["guards"][("top-is-block",)].admits(True)
                tested = p["guards"].get(("popped-is-block", pb))
                after = p["ops"][idx[0] + 1:]
                ends = [o for o in after if o[0] == "enqueue" and o[1] == "BlockEnd"]
                if guarded_not_block:
                    if ends:
                        bad.append("BlockEnd after popping a non-block indent")
                elif tested is None:
                    # the path ended (back edge) before the test could be seen only if the pop is the last op: then nothing was emitted
                    bad.append("the popped indent's needs_block_end is not tested")
                elif tested.admits(True) and not tested.admits(False):
                    if len(ends) != 1:
                        bad.append("a block indent is popped and %d BlockEnd tokens are enqueued" % len(ends))
                else:
                    if ends:
                        bad.append("BlockEnd enqueued for a non-block indent")
            rep.check(seen and not bad, "block-end-pairs-indent", "%s#pop" % short(k).split("::")[-1],
                      "popping the indent stack and emitting BlockEnd are not paired: " + "; ".join(sorted(set(bad))[:3]), site=g.span)
    rep.floor("pops of the indent stack", n, 3)
    cons = constructions(F, ("BlockEnd",))
    for cf, bi, si, v in cons:
        r = ScanRec(F, cf)
        has_pop = any(ck == "std::vec::Vec::pop" and r._self_field(t["args"][0]) == ["indents"] for bb, t, ck, fr in cf.calls())
        rep.check(has_pop, "block-end-pairs-indent", "construction:BlockEnd in %s" % short(cf.key), "a BlockEnd token is built in a function that does not pop the indent stack",
                  site=cf.span)
    rep.floor("BlockEnd constructions", len(cons), 1)


def clause_c(rep, F):
    for fn, op, kinds in (("fetch_flow_collection_start", "flow-inc", ("FlowSequenceStart", "FlowMappingStart")),
                          ("fetch_flow_collection_end", "flow-dec", ("FlowSequenceEnd", "FlowMappingEnd"))):
        f, rec, ps = all_paths(F, S + fn)
        bad = []
        n_ok = 0
        for p in ps:
            if p["why"] != "return":
                continue
            err = any(o[0] == "err" for o in p["ops"])
            enq = [i for i, o in enumerate(p["ops"]) if o[0] == "enqueue" and o[1] == ("param", 2)]
            lev = [i for i, o in enumerate(p["ops"]) if o[0] == op]
            other = [o for o in p["ops"] if o[0] == "enqueue" and o[1] != ("param", 2)]
            if err:
                if enq:
                    bad.append("the token is enqueued on an error path")
                continue
            n_ok += 1
            if len(enq) != 1 or len(lev) != 1 or lev[0] > enq[0]:
                bad.append("accepting path with %d token(s) and %d level change(s)" % (len(enq), len(lev)))
            if [o for o in p["ops"] if o[0] in ("flow-inc", "flow-dec") and o[0] != op]:
                bad.append("the opposite level change on the same path")
            if other:
                bad.append("another token enqueued directly: %s" % other[0][1])
        rep.check(n_ok > 0 and not bad, "flow-token-pairs-level", fn, "the flow collection token and the flow level change are not paired: " + "; ".join(sorted(set(bad))[:3]),
                  site=f.span)
        rep.extra.setdefault("paths", {})[fn] = len(ps)
        srcs = argument_sources(F, S + fn, 1)
        used = set()
        for cf, bb, v, site in srcs:
            rep.check(v in kinds, "flow-token-pairs-level", "%s->%s" % (short(cf.key).split("::")[-1], fn), "%s is given %s" % (fn, v), site=cf.span)
            if site:
                used.add(site)
        rep.floor("%s call sites" % fn, len(srcs), 2)
        allowed_elsewhere = {"FlowMappingStart": S + "fetch_value", "FlowMappingEnd": S + "end_implicit_mapping"}
        for cf, bi, si, v in constructions(F, kinds):
            okc = (cf.key, bi, si) in used or allowed_elsewhere.get(v) == cf.key
            rep.check(okc, "flow-token-pairs-level", "construction:%s in %s" % (v, short(cf.key)),
                      "a %s token is built outside the flow collection fetchers (and outside the implicit-mapping pair): the flow level would not follow it" % v, site=cf.span)


def clause_d(rep, F):
    f, rec, ps = all_paths(F, S + "fetch_value")
    bad = []
    n = 0
    for p in ps:
        if p["why"] != "return" or any(o[0] == "err" for o in p["ops"]):
            continue
        n += 1
        inside = [o for o in p["ops"] if o == ("implicit-set", "Inside")]
        starts = [o for o in p["ops"] if o[0] == "enqueue" and o[1] == "FlowMappingStart"]
        if len(inside) != len(starts) or len(starts) > 1:
            bad.append("%d x state := Inside, %d x FlowMappingStart" % (len(inside), len(starts)))
        if [o for o in p["ops"] if o[0] == "implicit-set" and o[1] != "Inside"]:
            bad.append("fetch_value writes another implicit-mapping state")
    rep.check(n > 0 and not bad, "implicit-mapping-pairing", "fetch_value", "the implicit flow mapping is opened and recorded inconsistently: " + "; ".join(sorted(set(bad))[:3]),
              site=f.span)
    rep.extra.setdefault("paths", {})["fetch_value"] = len(ps)
    g, rec, ps = all_paths(F, S + "end_implicit_mapping")
    bad = []
    n = 0
    for p in ps:
        if p["why"] != "return":
            continue
        n += 1
        ends = [o for o in p["ops"] if o[0] == "enqueue"]
        st = p["guards"].get(("implicit-state",))
        is_inside = st is not None and st.admits("Inside") and not st.admits("Possible")
        resets = [o for o in p["ops"] if o == ("implicit-set", "Possible")]
        if is_inside:
            if [o[1] for o in ends] != ["FlowMappingEnd"] or len(resets) != 1:
                bad.append("state Inside: enqueues %s, resets %d times" % ([str(o[1]) for o in ends], len(resets)))
        elif ends or resets:
            bad.append("state not Inside: enqueues %s" % [str(o[1]) for o in ends])
    rep.check(n >= 2 and not bad, "implicit-mapping-pairing", "end_implicit_mapping", "the implicit flow mapping is closed inconsistently: " + "; ".join(sorted(set(bad))[:3]),
              site=g.span)
    # the implicit-mapping states have one entry per open flow *sequence*: their top entry describes the current collection only while no flow
    # mapping is open inside that sequence, so the implicit mapping may be ended only where the innermost open collection is a sequence:
    # at the sequence's own `]` (fetch_flow_collection_end under tok == FlowSequenceEnd) or at a `,` that is not directly inside a `{`
    for k, h in sorted(F.fns.items()):
        if h.crate != "saphyr_parser" or h.d.get("impl_adt") != SCANNER:
            continue
        for bb, t, ck, fr in h.calls():
            if ck != S + "end_implicit_mapping":
                continue
            guarded = False
            for d in h.dominators().get(bb, ()):
                td = h.blocks[d]["term"]
                if td["k"] != "switch":
                    continue
                e = cfg.expr_operand(h, td["discr"], 12)
                txt = cfg.expr_str(e)
                # a test on the kind of the closing token (`matches!(tok, FlowSequenceEnd)`) or on the innermost entry of the per-collection
                # stack (is it a mapping?)
                if ("flow_mapping_levels" in txt and ("last" in txt or "is_some_and" in txt)) or ("discr(" in txt and "arg2" in txt):
                    guarded = True
                l = is_local(td["discr"])
                if l is not None and not guarded:
                    for dd in cfg.defs_of_local(h, cfg.resolve_copy_chain(h, l)):
                        if dd[0] == "call" and "flow_mapping_levels" in " ".join(cfg.expr_str(cfg.expr_operand(h, a, 10)) for a in dd[2]["args"]):
                            guarded = True
            rep.check(guarded, "implicit-mapping-pairing", "%s->end_implicit_mapping" % short(k).split("::")[-1],
                      "the implicit single-pair mapping of a flow sequence entry is ended without establishing that the innermost open flow collection "
                      "is that sequence: a `,` between the entries of a flow mapping nested in the pair's value closes the pair early "
                      "(`[ a: { b: c, d: e } ]` loses `d: e` from the inner mapping)", site=site(h, t["sp"]))
    # Inside is written only by fetch_value
    writers = set()
    for k, h in sorted(F.fns.items()):
        if h.crate != "saphyr_parser" or h.d.get("derived"):
            continue
        for bi, si, s in cfg.stmts(h):
            if s["k"] == "assign" and s["rv"]["k"] == "agg" and s["rv"].get("adt") == IMS and s["rv"].get("variant") == "Inside":
                writers.add(k)
    rep.check(writers == {S + "fetch_value"}, "implicit-mapping-pairing", "writers-of-Inside", "ImplicitMappingState::Inside is built outside fetch_value",
              detail=sorted(short(x) for x in writers))


def clause_e(rep, F):
    # recorded number
    f = F.fn(S + "save_simple_key")
    okr = False
    det = None
    for bi, si, s in cfg.stmts(f):
        if s["k"] == "assign" and cfg.place_fields(s["lhs"])[-1:] == ["token_number"] and s["rv"]["k"] == "use":
            e = cfg.expr_operand(f, s["rv"]["a"], 8)
            det = cfg.expr_str(e)
            if e[0] == "place" and e[2] == [("field", "0")] and e[1][0] == "bin" and e[1][1] == "AddWithOverflow":
                a, b = e[1][2], e[1][3]
                okr = cfg.expr_fields(a) == ["tokens_parsed"] and b[0] == "call" and b[1] and b[1].endswith("VecDeque::len") \
                    and ScanRec(F, f)._self_field_expr(b[2][0]) == ["tokens"]
    rep.check(okr, "key-insertion-index", "save_simple_key", "a candidate key no longer records tokens_parsed + tokens.len() as its token number", site=f.span, detail=det)
    # insertion index = recorded - tokens_parsed
    g, rec, ps = all_paths(F, S + "fetch_value")
    n = 0
    bad = []
    for bb, t, ck, fr in g.calls():
        if ck == S + "insert_token":
            n += 1
            e = cfg.expr_operand(g, t["args"][1], 16)
            okx = e[0] == "place" and e[2] == [("field", "0")] and e[1][0] == "bin" and e[1][1] == "SubWithOverflow" \
                and cfg.expr_fields(e[1][3]) == ["tokens_parsed"] and e[1][2][0] == "place" and e[1][2][2][-1:] == [("field", "token_number")] \
                and "simple_keys" in cfg.expr_str(e[1][2]) and "::last(" in cfg.expr_str(e[1][2])
            if not okx:
                bad.append(cfg.expr_str(e)[:120])
    rep.check(n >= 2 and not bad, "key-insertion-index", "fetch_value", "the Key / implicit FlowMappingStart token is not inserted at (recorded token number - tokens_parsed)",
              site=g.span, detail=bad)
    h = F.fn(S + "roll_indent")
    bad = []
    n = 0
    for bb, t, ck, fr in h.calls():
        if ck == S + "insert_token":
            n += 1
            e = cfg.expr_operand(h, t["args"][1], 10)
            okx = e[0] == "place" and e[2] == [("field", "0")] and e[1][0] == "bin" and e[1][1] == "SubWithOverflow" \
                and cfg.expr_fields(e[1][3]) == ["tokens_parsed"] and e[1][2] == ("place", ("param", 3), [("downcast", "Some"), ("field", "0")])
            if not okx:
                bad.append(cfg.expr_str(e)[:120])
    rep.check(n == 1 and not bad, "key-insertion-index", "roll_indent", "the block start token is not inserted at (given token number - tokens_parsed)", site=h.span, detail=bad)
    # callers hand roll_indent the recorded number (or None)
    for k, c in sorted(F.fns.items()):
        for bb, t, ck, fr in c.calls():
            if ck == S + "roll_indent":
                e = cfg.expr_operand(c, t["args"][2], 8)
                s_ = cfg.expr_str(e)
                okn = (e[0] == "adt" and e[2] == "None") or (e[0] == "adt" and e[2] == "Some" and "token_number" in s_)
                rep.check(okn, "key-insertion-index", "%s->roll_indent(number)" % short(k).split("::")[-1], "roll_indent is given a token number that is not a recorded candidate-key number: %s" % s_[:80],
                          site=c.span)
    # tokens_parsed: +1 where a token is popped from the queue
    ws = {}
    for k, c in sorted(F.fns.items()):
        if c.crate != "saphyr_parser":
            continue
        w = [x for x in cfg.field_writes(c, SCANNER, "tokens_parsed") if not c.name.startswith("new")]
        if w:
            ws[k] = w
    okw = True
    det = []
    for k, w in ws.items():
        c = F.fns[k]
        pops = [bb for bb, t, ck, fr in c.calls() if ck and ck.endswith("VecDeque::pop_front")]
        for x in w:
            e = cfg.expr_operand(c, x["stmt"]["rv"]["a"], 6) if x["kind"] == "assign" and x["stmt"]["rv"]["k"] == "use" else ("?",)
            inc = e[0] == "place" and e[2] == [("field", "0")] and e[1][0] == "bin" and e[1][1] == "AddWithOverflow" and e[1][3] == ("const", 1) \
                and cfg.expr_fields(e[1][2]) == ["tokens_parsed"]
            okw = okw and inc and len(pops) == 1
            det.append("%s: %s" % (short(k), cfg.expr_str(e)[:60]))
    rep.check(okw and len(ws) >= 1, "key-insertion-index", "tokens_parsed", "tokens_parsed is not advanced by exactly one per token taken from the queue", detail=det)


def _self_field_expr(self, e):
    e = cfg.strip_reborrow(e)
    if e[0] == "ref":
        e = e[1]
    return cfg.expr_fields(e) if e[0] == "place" else None


ScanRec._self_field_expr = _self_field_expr


def clause_f(rep, F):
    """insert_token is a thin wrapper: tokens.insert(pos, tok) after making room (shape only)"""
    f = F.fn(S + "insert_token")
    ins = [(bb, t) for bb, t, ck, fr in f.calls() if ck and ck.endswith("VecDeque::insert")]
    okf = len(ins) == 1
    if okf:
        bb, t = ins[0]
        okf = cfg.expr_operand(f, t["args"][1], 4) == ("param", 2) and cfg.expr_operand(f, t["args"][2], 4) == ("param", 3)
    rep.check(okf, "key-insertion-index", "insert_token", "insert_token no longer inserts its token argument at its position argument", site=f.span)


def clause_g(rep, F):
    """(f) omitted-node-keeps-token: a parser handler that reports an omitted node ("Nodes that the syntax leaves out appear as null
    scalars": Event::empty_scalar) decides so by looking at the next token; that token belongs to what follows (the ':' of the pair, the ','
    or ']' of the collection) and must still be pending when the handler returns.  Consuming it desynchronises the parser from the
    scanner: `[ ? : x ]` and `[ ? ]` are rejected.  Decided on every outcome of every state-machine handler (E5)."""
    from engine import e5
    from . import C02
    E = e5.E5(F) if hasattr(e5, "E5") else None
    if E is None:
        raise facts.MissingAnchor("engine E5 not available")
    table, _sm = C02.dispatch_table(F)
    roles = C02.load_roles()
    n = 0
    npair = 0
    seen = set()
    for st, d in sorted(table.items(), key=str):
        if d is None or d[0] == "unreachable" or d[0] not in F.fns:
            continue
        for key, args in [(d[0], tuple(d[1]))]:
            bad = []
            for o in E.outcomes(key, args):
                if o.get("kind") != "return":
                    continue
                r = o["result"]
                if r is e5.TOP or r[0] != "ok":
                    continue
                x = r[1]
                if x is e5.TOP or x[0] != "tuple" or x[1] is e5.TOP or x[1][0] != "event":
                    continue
                ev = x[1]
                if ev[1] == "Scalar" and ev[2] == ("empty",):
                    n += 1
                    if not o.get("slot"):
                        bad.append(o.get("trace", [])[-6:])
                    # key/value pairing: an omitted key is followed by its value, an omitted value by the next key
                    ent = roles["states"].get(st) or {}
                    fam = ent.get("family", {})
                    want = None
                    if ent.get("role") == "MapKey":
                        want = set(fam.get("values", []))
                    elif ent.get("role") == "MapValue":
                        want = {fam.get("key")}
                    if want and o.get("written") is not None:
                        npair += 1
                        rep.check(o["written"] in want, "omitted-node-next-state", "%s->%s" % (st, o["written"]),
                                  "after reporting an omitted %s the parser goes to state %s instead of %s: the null %s is not paired with the node that follows" % (
                                      "key" if ent["role"] == "MapKey" else "value", o["written"], " / ".join(sorted(x_ for x_ in want if x_)),
                                      "key" if ent["role"] == "MapKey" else "value"), site=F.fns[key].span)
            rep.check(not bad, "omitted-node-keeps-token", "%s%s" % (short(key).split("::")[-1], list(args) if args else ""),
                      "the handler reports an omitted node (empty scalar) after consuming the token that showed the node was omitted: that token is "
                      "the ':' / ',' / closing bracket of the enclosing construct and the parser loses it", site=F.fns[key].span, detail={"paths": bad[:3]})
    rep.floor("handler outcomes that report an omitted node", n, 10)
    rep.floor("omitted keys / values with a known next state", npair, 4)
    omitted_token_sets(rep, F, E, table)
    from . import dispatch
    rep.floor("rows of the token dispatch table compared with the specification", dispatch.check(rep, F), 500)
    from . import charclass
    rep.floor("character classes compared with their productions", charclass.check(rep, F, ["is_anchor_char", "is_flow", "is_digit", "is_blank_or_breakz"]), 3)
    key_candidate_settled(rep, F)
    # a flow collection (or quoted scalar) used as a key may be separated from its ':' by blanks, the value may follow the ':' directly
    from . import C13 as _C13
    rep.floor("writes of the adjacent-value position", _C13.adjacent_position_is_final(rep, F), 2)


# What each fetcher does with the pending simple-key candidate before it queues its token (the discipline of the reference scanner,
# yaml_parser_fetch_* in libyaml): a token that can begin a simple key saves a new candidate, every other token retires the pending one - a
# candidate left alive across an indicator lets a later ':' turn an earlier, finished node into a key.
CANDIDATE = {
    "fetch_stream_end": "remove", "fetch_directive": "remove", "fetch_document_indicator": "remove", "fetch_flow_collection_end": "remove",
    "fetch_flow_entry": "remove", "fetch_block_entry": "remove", "fetch_key": "remove",
    "fetch_flow_collection_start": "save", "fetch_anchor": "save", "fetch_tag": "save", "fetch_flow_scalar": "save", "fetch_plain_scalar": "save",
    "fetch_block_scalar": "either",          # a block scalar cannot be a simple key; libyaml removes, this scanner saves (the candidate goes stale at the line break)
}


def key_candidate_settled(rep, F, rule="key-candidate-settled"):
    S_ = SCANNER + "::"
    n = 0
    for nm, want in sorted(CANDIDATE.items()):
        f = F.fns.get(S_ + nm)
        if f is None:
            continue
        n += 1
        calls = {"save": {bb for bb, t, ck, fr in f.calls() if ck == S_ + "save_simple_key"},
                 "remove": {bb for bb, t, ck, fr in f.calls() if ck == S_ + "remove_simple_key"}}
        through = calls["save"] | calls["remove"] if want == "either" else calls[want]
        esc = (None if 0 in through else cfg.flag_reach(f, 0, cfg.return_blocks(f), avoid=through | cfg.err_sink_blocks(f))) if through else [0]
        rep.check(esc is None, rule, nm, "%s can queue its token without having %s the pending simple-key candidate: a ':' further on finds the candidate of an "
                  "earlier, finished node alive and makes that node a key (`[ a, : b ]` reads as `[ { a: ~, ~: b } ]`)" % (
                      nm, "retired (remove_simple_key)" if want == "remove" else "saved a new candidate (save_simple_key)" if want == "save" else "saved or retired"),
                  site=f.span, detail={"escaping_path": esc})
    rep.floor("fetchers whose handling of the key candidate is checked", n, 12)


# After an indicator token the node is left out exactly when the token that follows cannot start a node but may legally follow.  The sets are
# those of the token grammar the parser implements (libyaml's, spelled out in the comments of yaml_parser_parse_* and reproduced in
# YAML 1.2.2 chapter 7/8 productions): state -> (indicator token, tokens after which the node is omitted)
#   block_sequence      ::= BLOCK-SEQUENCE-START (BLOCK-ENTRY block_node?)* BLOCK-END
#   indentless_sequence ::= (BLOCK-ENTRY block_node?)+                       (followed by KEY / VALUE / BLOCK-END of the parent mapping)
#   block_mapping       ::= BLOCK-MAPPING-START ((KEY block_node_or_indentless_sequence?)? (VALUE block_node_or_indentless_sequence?)?)* BLOCK-END
#   flow_mapping        ::= FLOW-MAPPING-START (flow_mapping_entry FLOW-ENTRY)* flow_mapping_entry? FLOW-MAPPING-END
#   flow_mapping_entry / flow_sequence_entry ::= flow_node | KEY flow_node? (VALUE flow_node?)?
OMITTED_AFTER = {
    "BlockSequenceEntry": ("BlockEntry", {"BlockEntry", "BlockEnd"}),
    "IndentlessSequenceEntry": ("BlockEntry", {"BlockEntry", "Key", "Value", "BlockEnd"}),
    "BlockMappingKey": ("Key", {"Key", "Value", "BlockEnd"}),
    "BlockMappingValue": ("Value", {"Key", "Value", "BlockEnd"}),
    "FlowMappingKey": ("Key", {"Value", "FlowEntry", "FlowMappingEnd"}),
    "FlowMappingValue": ("Value", {"FlowEntry", "FlowMappingEnd"}),
    "FlowSequenceEntryMappingKey": (None, {"Value", "FlowEntry", "FlowSequenceEnd"}),
    "FlowSequenceEntryMappingValue": ("Value", {"FlowEntry", "FlowSequenceEnd"}),
}
NODE_START = {"Alias", "Anchor", "Tag", "Scalar", "FlowSequenceStart", "FlowMappingStart", "BlockSequenceStart", "BlockMappingStart"}


def omitted_token_sets(rep, F, E, table, rule="omitted-node-token-set"):
    """(g') the tokens after which a handler reports an omitted node: for each state of the table above, the kinds of the token looked at
    right after the indicator on the outcomes that report an empty scalar must contain every token of the grammar's set (a missing one
    sends a legal document to parse_node, which rejects it or reads the parent's next entry as this node) and no token that starts a
    node (that node would be dropped).  Decided on the E5 outcomes of the handler; tokens that cannot legally follow are C06's."""
    from engine import e5
    n = 0
    for st, (ind, want) in sorted(OMITTED_AFTER.items()):
        d = table.get(st)
        if d is None or d[0] == "unreachable" or d[0] not in F.fns:
            raise facts.MissingAnchor("state %s has no handler in the dispatch table" % st)
        got = set()
        for o in E.outcomes(d[0], tuple(d[1])):
            if o.get("kind") != "return":
                continue
            r = o["result"]
            if r is e5.TOP or r[0] != "ok" or r[1] is e5.TOP or r[1][0] != "tuple" or r[1][1] is e5.TOP or r[1][1][0] != "event":
                continue
            ev = r[1][1]
            if not (ev[1] == "Scalar" and ev[2] == ("empty",)):
                continue
            toks = [t for t in o.get("toks", []) if t is not None]
            if not toks:
                continue
            names = [frozenset(E.tok_names[k] for k in t) for t in toks]
            if ind is None:
                if len(names) == 1:
                    got |= names[0]
            elif len(names) >= 2 and names[-2] == frozenset([ind]):
                got |= names[-1]
        n += 1
        missing = sorted(want - got)
        extra = sorted(got & NODE_START)
        rep.check(not missing and not extra, rule, st,
                  "state %s: after %s the node is reported as omitted when the next token is one of %s; the grammar needs %s%s%s" % (
                      st, ind or "the start of the entry", sorted(got), sorted(want),
                      (": with %s next, a left-out node is no longer a null scalar (the document is rejected or the following entry is taken for this node)" % " / ".join(missing)) if missing else "",
                      (": %s starts a node, which is dropped" % " / ".join(extra)) if extra else ""),
                  site=F.fns[d[0]].span, detail={"reported_after": sorted(got)})
    rep.floor("states whose omitted-node token set is compared with the grammar", n, 8)


# where a node may start an indentless sequence (a block sequence at the indentation of its parent key) and whether it is in block context:
# YAML 1.2.2 productions s-l+block-node / s-l+block-indented / ns-l-compact-sequence and 8.2.1 ("the '-' ... is perceived as indentation" only for
# block mapping values and keys).  state family -> (block, indentless sequence allowed)
NODE_CONTEXT = {
    "BlockMapping": (1, 1),          # keys and values of a block mapping
    "BlockSequence": (1, 0),         # entries of a block sequence: a '-' after node properties is the next entry, not a nested sequence
    "IndentlessSequence": (1, 0),
    "BlockNode": (1, 0), "DocumentContent": (1, 0),
    "Flow": (0, 0),                  # anything inside a flow collection
}


def clause_h(rep, F):
    """(g) node-context: every state's handler parses its node with the (block, indentless-sequence-allowed) flags of its context."""
    from engine import e5
    from . import C02
    E = e5.E5(F)
    table, sm = C02.dispatch_table(F)
    PN = PARSER + "::parse_node"
    n = 0
    for st, d in sorted(table.items(), key=str):
        if d is None or d[0] not in F.fns:
            continue
        fam = next((k for k in NODE_CONTEXT if st.startswith(k)), None)
        got = set()
        if d[0] == PN:
            got.add(tuple(d[1]))
        for o in E.outcomes(d[0], tuple(d[1])):
            if o.get("kind") != "return":
                continue
            r = o["result"]
            if r is not e5.TOP and r[0] == "tail" and r[1] == PN:
                got.add(tuple(r[2]))
        if not got:
            continue
        n += 1
        if fam is None:
            rep.bad("node-context", st, "state %s parses a node but belongs to no known context family" % st, site=sm.span)
            continue
        rep.check(got == {NODE_CONTEXT[fam]}, "node-context", st, "state %s parses its node with (block, indentless sequence allowed) = %s; its context requires %s: "
                  "for instance an entry of an indentless sequence that has only an anchor would swallow the following entries as a nested sequence"
                  % (st, sorted(got), NODE_CONTEXT[fam]), site=F.fns[d[0]].span)
    rep.floor("states that parse a node", n, 12)


def run(tier):
    rep = new_report(tier)
    F = facts.load()
    clause_g(rep, F)
    clause_h(rep, F)
    clause_a(rep, F)
    clause_b(rep, F)
    clause_c(rep, F)
    clause_d(rep, F)
    clause_e(rep, F)
    clause_f(rep, F)
    return rep
