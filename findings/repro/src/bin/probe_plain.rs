use saphyr::{LoadableYamlNode, Yaml};
fn main() {
    for src in ["key: a\n  --- b\n", "key: a\n  ... b\n", "[a -, b]\n", "[-, b]\n", "key: a\n  ---\n", "a\n--- b", "|\na\n---\nb\n", "--- |\na\n--- b\n", "--- >\na\n---\nb\n", "a\n---\n", "a\n ---\n"] {
        println!("{src:?} -> {:?}", Yaml::load_from_str(src).map(|d| format!("{:?}", d)));
    }
}
