"""Inside a word of a plain scalar `#` is content (used by C04).

YAML 1.2.2 6.6 / 7.3.3: `#` begins a comment only after white space; `a#b` is the plain scalar "a#b".  scan_plain_scalar tests for `#`
at the head of its outer loop, where a new word may begin.  The clause checked here: on every path from a consumed content
character (skip_non_blank) to such a test, a blank or a line break has been consumed in between.  The paths are enumerated with
E7; the character tests met on the way (`next_is_blank()`, `next_is_break()`, `next_is_blank_or_break()`, `next_is_breakz()`,
`peek() == c`) constrain the character at the cursor *since the last consumption*, which is what rules out "the blank loop runs
zero times although a blank was just seen" - so no flag of the function has to be understood.
"""
from .common import *
from engine import e7, fold
from engine.e7 import Cons, TRUE, FALSE
from engine.facts import op_const, const_value

FN = SCANNER + "::scan_plain_scalar"
CONTENT = {SCANNER + "::skip_non_blank", SCANNER + "::skip_n_non_blank"}
SPACE = {SCANNER + "::skip_blank", SCANNER + "::skip_break", SCANNER + "::skip_nl", SCANNER + "::skip_ws_to_eol", SCANNER + "::read_break",
         SCANNER + "::skip_linebreak"}


class WordRec(e7.Recogniser):
    def __init__(self, F, f):
        self.f = f
        self.F = F
        self.ops_at = {}
        self.tabs = {}
        # the buffers that receive the character at the cursor and are only ever appended to
        grown, other = set(), set()
        for bb, t, ck, fr in f.calls():
            if not ck or not ck.startswith("std::string::String::") or not t["args"]:
                continue
            b = e7.buf_id(cfg.expr_operand(f, t["args"][0], 8))
            if ck.endswith("::push") and len(t["args"]) > 1:
                v = cfg.expr_operand(f, t["args"][1], 6)
                if v[0] == "call" and v[1] and v[1].endswith(("Input::peek", "Input::look_ch")) and b is not None and b[0] == "local":
                    grown.add(b)
            elif not ck.endswith(("::push_str", "::reserve", "::is_empty", "::len", "::with_capacity", "::capacity", "::as_str")):
                other.add(b)
        self.content_bufs = grown - other

    def table(self, method):
        """characters for which the provided body of Input::<method> answers true (folded with peek() = the character)"""
        if method not in self.tabs:
            key = INPUT + "::" + method
            out = set()
            for ch in fold.ALPHABET:
                if fold.Folder(self.F, {INPUT + "::peek": lambda a, ch=ch: ch}).call(key, [("ref", ("struct", {}))]):
                    out.add(ch)
            self.tabs[method] = frozenset(out)
        return self.tabs[method]

    def guard(self, bi, st):
        f = self.f
        t = f.blocks[bi]["term"]
        opaque = (("opaque", bi), [(Cons([v]), tg) for v, tg in zip(t["vals"], t["targets"])] + [(Cons(neg=t["vals"]), t["otherwise"])])
        if t["dty"] != "bool" or t["vals"] != [0]:
            return opaque
        e = cfg.expr_operand(f, t["discr"], 6)
        tt, ft = t["otherwise"], t["targets"][0]
        while e[0] == "un" and e[1] == "Not":
            e = e[2]
            tt, ft = ft, tt
        key = ("cur", st.get("epoch", 0))
        if e[0] == "call" and e[1] == "std::string::String::is_empty" and e7.buf_id(e[2][0]) in self.content_bufs:
            return (("content-buffer-empty",), [(FALSE, ft)])      # a content character has been pushed: the buffer is not empty
        if e[0] == "call" and e[1] and e[1].startswith(INPUT + "::next_is_") and len(e[2]) == 1:
            try:
                tab = self.table(e[1].rsplit("::", 1)[1])
            except (fold.Unsupported, fold.Diverged):
                return opaque
            return (key, [(Cons(tab), tt), (Cons(neg=tab), ft)])
        if e[0] == "call" and e[1] and e[1].endswith("Input::next_char_is") and len(e[2]) == 2 and e[2][1][0] == "const" and isinstance(e[2][1][1], tuple):
            c = e[2][1][1][1]
            return (key, [(Cons([c]), tt), (Cons(neg=[c]), ft)])
        if e[0] == "bin" and e[1] in ("Eq", "Ne") and e[3][0] == "const" and isinstance(e[3][1], tuple) and e[2][0] == "call" and e[2][1] \
                and e[2][1].endswith(("Input::peek", "Input::look_ch")):
            c = e[3][1][1]
            if e[1] == "Ne":
                tt, ft = ft, tt
            return (key, [(Cons([c]), tt), (Cons(neg=[c]), ft)])
        return opaque

    def call(self, bi, t, ck, st):
        if ck in CONTENT:
            st["epoch"] = st.get("epoch", 0) + 1
            return ("op", ("content",))
        if ck in SPACE:
            st["epoch"] = st.get("epoch", 0) + 1
            return ("op", ("space",))
        if ck.endswith(("ScanError::new_str", "ScanError::new")):
            return "stop"          # an error is being built: the path ends here (what follows is its propagation)
        if ck.startswith(SCANNER + "::skip") or ck.startswith(INPUT + "::skip") or ck.startswith(INPUT + "::raw_read"):
            st["epoch"] = st.get("epoch", 0) + 1
            return ("op", ("consume?", ck))
        return "transparent"


def check(rep, F, rule="comment-test-after-blank"):
    f = F.fn(FN)
    rec = WordRec(F, f)
    tests = set()
    for bi, b in enumerate(f.blocks):
        t = b["term"]
        if b["cleanup"] or t["k"] != "switch":
            continue
        e = cfg.expr_operand(f, t["discr"], 6)
        while e[0] == "un" and e[1] == "Not":
            e = e[2]
        if e[0] == "bin" and e[1] in ("Eq", "Ne") and e[3] == ("const", ("char", 35)) and e[2][0] == "call" and e[2][1] and e[2][1].endswith(("Input::peek", "Input::look_ch")):
            tests.add(bi)
    starts = [(bb, t["t"]) for bb, t, ck, fr in f.calls() if ck in CONTENT and t["t"] is not None]
    rep.floor("tests for '#' in scan_plain_scalar", len(tests), 1)
    rep.floor("content consumptions in scan_plain_scalar", len(starts), 2)
    n = 0
    for cb, start in starts:
        ps = e7.paths(f, start, rec, stop_at=tests | {c for c, _ in starts}, limit=20000)
        bad = [p for p in ps if p["why"] == "stop" and p["end"] in tests and not any(o == ("space",) for o in p["ops"])]
        n += len(ps)
        rep.check(not bad, rule, "scan_plain_scalar#content@%d" % (starts.index((cb, start)) + 1),
                  "after a content character of a plain scalar the test for '#' (comment) can be reached without a blank or line break having been "
                  "consumed: '#' inside a word would end the scalar", site=site(f, f.blocks[cb]["term"]["sp"]),
                  detail={"paths": len(ps), "offending": [{"guards": {str(k): repr(c) for k, c in p["guards"].items() if k[0] == "cur"}, "ops": [str(o) for o in p["ops"]]} for p in bad[:2]]})
    # once a plain scalar has started, indicator characters are content (YAML 1.2.2 7.3.3: only the first character is restricted): no
    # error may be reached from a content character on a path that pins the character at the cursor to one indicator
    IND = set(map(ord, "-?:,[]{}#&*!|>'\"%@`"))
    work = [start for cb, start in starts]
    done_starts = set()
    offending = []
    npaths = 0
    while work:
        st0 = work.pop()
        if st0 in done_starts:
            continue
        done_starts.add(st0)
        ps = e7.paths(f, st0, rec, stop_at={c for c, _ in starts}, limit=40000)
        npaths += len(ps)
        for p in ps:
            if p["why"] == "back-edge" and p["end"] is not None and any(o[0] in ("space", "consume?") for o in p["ops"]):
                work.append(p["end"])      # go on from the loop head with what was learnt about earlier characters forgotten
            if not (p["why"].startswith("call ") and p["why"].endswith(("ScanError::new_str", "ScanError::new"))):
                continue
            last = max([k_[1] for k_ in p["guards"] if k_[0] == "cur"], default=None)
            pinned = [c for k_, c in p["guards"].items() if k_[0] == "cur" and k_[1] == last and c.pos is not None and len(c.pos) == 1 and set(c.pos) <= IND]
            if pinned:
                offending.append((st0, pinned))
    rep.check(not offending, "indicator-error-after-content", "scan_plain_scalar",
              "after a content character of a plain scalar an error is raised because the character at the cursor is the indicator %s: inside a plain scalar "
              "indicators are ordinary text (only its first character is restricted)" % ", ".join(sorted({repr(chr(next(iter(c.pos)))) for _, cs in offending for c in cs})),
              site=f.span, detail={"paths": npaths, "offending": len(offending), "segments_started_at": sorted(done_starts)})
    rep.extra["plain_word"] = {"paths": n, "tests": len(tests), "content_sites": len(starts), "content_buffers": [e7.buf_name(f, b) for b in rec.content_bufs]}
    return n


def bom_not_content(rep, F, rule="bom-not-content"):
    """A byte order mark at the very start of the stream is not content (YAML 1.2.2 5.2; C18: a text that starts with a BOM loads to the
    same documents whether it is decoded from bytes - the decoder strips the mark - or given as a string).  fetch_stream_start, the
    first thing the scanner runs, is tabulated (E7) over the character at the cursor: U+FEFF is consumed (one character), anything
    else is left alone."""
    f = F.fns.get(SCANNER + "::fetch_stream_start")
    if f is None:
        raise facts.MissingAnchor("fetch_stream_start not found")
    rec = WordRec(F, f)
    ps = [p for p in e7.paths(f, 0, rec, limit=2000) if p["why"] == "return"]
    n = 0
    for c, what in ((0xFEFF, "a byte order mark"), (ord("a"), "a letter"), (ord("-"), "an indicator"), (0, "the end of input")):
        ms = e7.matching(ps, {("cur", 0): c})
        got = sorted({len([o for o in p["ops"] if o[0] in ("content", "space", "consume?")]) for p in ms})
        want = [1] if c == 0xFEFF else [0]
        n += 1
        rep.check(bool(ms) and got == want, rule, "stream starts with %s" % what, "at the start of the stream, with %s at the cursor, fetch_stream_start consumes %s character(s); "
                  "it must consume %d (a leading U+FEFF is the byte order mark, not part of the first scalar)" % (what, got, want[0]), site=f.span)
    return n
