"""An implicit key may be at most 1024 characters long (used by C06 and C09).

C06: "an implicit key longer than 1024 characters" is rejected - and one of exactly 1024 characters is not (the emitter writes every
scalar key as an implicit key, C09).  The scanner decides this where it retires candidate keys: a comparison between the index at
which the candidate started and the cursor's index (both of unit `index`, rules/units.py) with a constant.  That comparison is folded
(E8) over distances 0, 1, 1023, 1024, 1025 and 5000 and must say "too long" exactly for the distances above 1024.
"""
from .common import *
from engine import e8
from engine.e8 import Unknown
from . import units

LIMIT = 1024


class KeyRec(e8.SymRec):
    def _idx(self, v):
        """'cur' for self.mark.index, 'key' for any other Marker's index"""
        while v[0] == "cast":
            v = v[2]
        if v[0] == "proj" and v[2] == "field" and v[3] == "index":
            inner = v[1]
            if inner[0] == "proj" and inner[2] == "field" and inner[3] == "mark" and inner[1] == ("proj", ("in", 1), "deref", None):
                return "cur"
            if inner[0] == "in" and self._copy_of_cursor(inner[1]):
                return "cur"
            return "key"
        return None

    def _copy_of_cursor(self, l):
        """local l is assigned once, from self.mark (`let mark = self.mark;`)"""
        f = self.f
        defs = cfg.defs_of_local(f, l)
        if len(defs) != 1 or defs[0][0] != "stmt" or defs[0][3]["rv"]["k"] != "use":
            return False
        e = cfg.expr_operand(f, defs[0][3]["rv"]["a"], 4)
        return e[0] == "place" and e[1] == ("param", 1) and [x for x in e[2] if x != "deref"] == [("field", "mark")]

    def leaf(self, v):
        k = self._idx(v)
        return (k,) if k else None

    def interp(self, v, env):
        k = self._idx(v)
        if k and (k,) in env:
            return env[(k,)]
        return None


def check(rep, F, rule="implicit-key-length-limit"):
    n = 0
    for k, f in sorted(F.fns.items()):
        if f.d.get("impl_adt") != SCANNER or "::test" in k:
            continue
        rec = None
        for bi, blk in enumerate(f.blocks):
            if blk["cleanup"]:
                continue
            for st_ in blk["stmts"]:
                if st_["k"] != "assign" or st_["rv"]["k"] != "bin" or st_["rv"]["op"] not in ("Lt", "Le", "Gt", "Ge"):
                    continue
                a = cfg.expr_operand(f, st_["rv"]["a"], 8)
                b = cfg.expr_operand(f, st_["rv"]["b"], 8)
                if "index" not in cfg.expr_str(a) + cfg.expr_str(b):
                    continue
                consts = [c for c in _consts(a) + _consts(b) if isinstance(c, int) and c >= 256]
                if not consts:
                    continue
                rec = rec or KeyRec(f)
                stt = e8.straightline_state(f, bi, rec)
                v = stt.get(st_["lhs"]["l"])
                if v is None or {("cur",), ("key",)} - e8.symbols(v, rec.leaf):
                    continue
                n += 1
                table = {}
                try:
                    for d in (0, 1, LIMIT - 1, LIMIT, LIMIT + 1, 5000):
                        table[d] = bool(e8.evaluate(v, {("key",): 7, ("cur",): 7 + d}, rec.interp))
                except Unknown as ex:
                    rep.incomplete("cannot fold the key-length comparison in %s: %s" % (short(k), ex), f.span)
                    continue
                want = {d: d > LIMIT for d in table}
                rep.check(table == want, rule, short(k), "the candidate key is retired as too long for the distances %s; it must be exactly for distances above %d "
                          "(a key of %d characters is an implicit key, one of %d is not)" % (sorted(d for d, t in table.items() if t), LIMIT, LIMIT, LIMIT + 1),
                          site=site(f, st_["sp"]), detail={"table": {str(d): t for d, t in sorted(table.items())}})
    return n


def _consts(e):
    out = []
    if isinstance(e, tuple):
        if e and e[0] == "const":
            out.append(e[1])
        for x in e:
            if isinstance(x, (tuple, list)):
                out += _consts(tuple(x)) if isinstance(x, list) else _consts(x)
    return out
