//! C09: with multiline_strings(true) the emitter wrote a literal block scalar for strings the two headers it knows (`|`, `|-`) cannot
//! represent (first line starting with a space, two trailing line feeds, line feeds only), wrote the content of a root scalar at
//! column 0 (a `...` / `---` line is then a document marker, a leading tab an error) and used the block style for mapping keys.
use saphyr::{LoadableYamlNode, Yaml, YamlEmitter, Scalar};
fn rt(y: &Yaml) -> (String, Result<String, String>) {
    let mut out = String::new();
    { let mut e = YamlEmitter::new(&mut out); e.multiline_strings(true); e.dump(y).unwrap(); }
    let back = Yaml::load_from_str(&out).map(|d| format!("{:?}", d.get(0))).map_err(|e| e.to_string());
    (out, back)
}
fn main() {
    let mut bad = 0;
    for s in ["a\nb", "a\n\n", " a\nb", "\n a", "\n", "a\nb\n", "...\nb", "---\nb", "a\n b", "\ta\nb", "a\n "] {
        for wrap in 0..3 {
            let v = Yaml::Value(Scalar::String(s.into()));
            let y = match wrap { 0 => v.clone(), 1 => Yaml::Sequence(vec![v.clone()]), _ => { let mut m = saphyr::Mapping::new(); m.insert(Yaml::Value(Scalar::String("k".into())), v.clone()); Yaml::Mapping(m) } };
            let (out, back) = rt(&y);
            let want = format!("{:?}", Some(&y));
            let ok = back.as_deref() == Ok(want.as_str());
            if !ok { bad += 1; println!("{s:?} wrap{wrap}: emitted {out:?} -> {back:?}"); }
        }
    }
    // key
    let mut m = saphyr::Mapping::new(); m.insert(Yaml::Value(Scalar::String("a\nb".into())), Yaml::Value(Scalar::Integer(1)));
    let (out, back) = rt(&Yaml::Mapping(m));
    println!("key: emitted {out:?} -> {back:?}");
    if !back.as_deref().is_ok_and(|b| b.contains("Mapping")) { bad += 1; }
    println!("{}", if bad == 0 { "ROUND TRIP" } else { "TEXT CHANGED OR REJECTED" });
    std::process::exit(if bad == 0 { 0 } else { 1 });
}
