#!/usr/bin/env python3
"""maintenance helper: freeze the function and field inventory of the current /repo tree as the reference for engine/normalize.py
(run after a deliberate change of /repo such as a fix commit; never run by a check)"""
import json, os, sys
os.environ["VERIF_NO_NORMALIZE"] = "1"
sys.path.insert(0, "/verif")
from engine import facts
F = facts.load()
fns = {}
for k, f in sorted(F.fns.items()):
    if f.crate not in ("saphyr_parser", "saphyr"):
        continue
    callees = sorted({ck for _, _, ck, _ in f.calls() if ck})
    fns[k] = {"sig": [f.d.get("inputs"), f.d.get("output")], "impl": f.d.get("impl_adt"), "kind": f.kind, "pub": bool(f.d.get("pub")),
              "trait": f.d.get("impl_trait") or f.d.get("trait_of"), "blocks": len(f.blocks), "callees": callees}
adts = {}
for p, a in sorted(F.adts.items()):
    if p.startswith(("saphyr_parser::", "saphyr::")):
        adts[p] = [[(fld["name"], fld["ty"]) for fld in v["fields"]] for v in a["variants"]]
json.dump({"note": "reference inventory (saphyr-parser and saphyr): function keys with signature / callee fingerprints and ADT field lists. engine/normalize.py maps "
                   "renamed private functions and fields back to these names and inlines private helpers that are not listed",
           "functions": sorted(fns), "fingerprints": fns, "adts": adts}, open("/verif/tables/known_functions.json", "w"), indent=0)
print(len(fns), "functions,", len(adts), "types")
