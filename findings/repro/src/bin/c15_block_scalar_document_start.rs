//! C15 / C03: a `---` line at column 0 starts a new document also while a top-level block scalar (content at indentation 0) is being
//! read; only `...` was tested for, so the marker line and the whole next document became scalar text.
use saphyr::{LoadableYamlNode, Yaml};
fn main() {
    let mut ok = true;
    for src in ["--- |\na\n--- b\n", "|\na\n---\nb\n", "--- >\na\n---\nb\n", "--- |\na\n...\n--- b\n"] {
        let got = Yaml::load_from_str(src);
        println!("{src:?} -> {:?}", got.as_ref().map(|d| format!("{:?}", d)));
        ok &= matches!(got, Ok(ref d) if d.len() == 2 && d[0].as_str() == Some("a\n") && d[1].as_str() == Some("b"));
    }
    println!("{}", if ok { "TWO DOCUMENTS" } else { "SWALLOWED" });
    std::process::exit(if ok { 0 } else { 1 });
}
