"""E8: the table of one round of a loop whose state is a few integers (symbolic path execution over expression trees).

Where E7 records *which operations* a path performs, E8 records *what values* the loop-carried integer locals have at the end of
the path, as expression trees over the values they had at the loop head (("in", local)) and over the calls made on the path.  A
rule supplies an interpretation of the leaf calls (for instance `as_hex(peek_nth(1))` = the high nibble of the escaped byte), a
finite domain for each symbol, and the expected table; guards are turned into e7.Cons constraints by evaluating the discriminant
tree over the domain of the one symbol it depends on.  Nothing of the crate is executed: trees are built from MIR statements and
folded over enumerated domains, exactly as fold.predicate_table does for the character predicates.
"""
from . import e7, cfg
from .e7 import Cons, TRUE, FALSE
from .facts import op_const, const_value, op_place

MASK = {"u8": 0xFF, "u16": 0xFFFF, "u32": 0xFFFFFFFF, "u64": (1 << 64) - 1, "usize": (1 << 64) - 1}


class Unknown(Exception):
    pass


class Overflow(Unknown):
    """a checked operation leaves its type for this value: execution does not continue past it"""
    pass


def operand_value(f, op, st):
    c = op_const(op)
    if c is not None:
        v = const_value(c)
        if isinstance(v, tuple) and v and v[0] == "char":
            v = v[1]
        if isinstance(v, bool):
            v = int(v)
        return ("const", v) if isinstance(v, int) else ("opaque", str(c.get("ty")))
    p = op_place(op)
    if p is None:
        return ("opaque", "?")
    return place_value(f, p, st)


def _self_field(p):
    """name of the field if the place is (*_1).<field>, else None"""
    if p["l"] == 1 and len(p["p"]) == 2 and p["p"][0]["k"] == "deref" and p["p"][1]["k"] == "field":
        return p["p"][1]["n"]
    return None


def place_value(f, p, st):
    fld = _self_field(p)
    if fld is not None and ("field", fld) in st:
        return st[("field", fld)]
    v = st.get(p["l"], ("in", p["l"]))
    for e in p["p"]:
        if e["k"] == "field" and v[0] == "ovf" and e["i"] == 0:
            v = ("bin", v[1], v[2], v[3], v[4])
        elif e["k"] == "field" and v[0] == "ovf" and e["i"] == 1:
            v = ("opaque", "overflow-flag")
        elif e["k"] == "deref" and v[0] == "ref":
            v = v[1]
        elif e["k"] == "downcast" and v[0] == "adt":
            v = v if v[3] == e["i"] else ("opaque", "downcast to another variant")
        elif e["k"] == "field" and v[0] == "adt" and e["i"] < len(v[4]):
            v = v[4][e["i"]]
        elif e["k"] == "field" and v[0] == "tup" and e["i"] < len(v[1]):
            v = v[1][e["i"]]
        else:
            v = ("proj", v, e["k"], e.get("n", e.get("i")))
    return v


def rvalue_value(f, rv, st, ty):
    k = rv["k"]
    if k == "use":
        return operand_value(f, rv["a"], st)
    if k == "bin":
        a, b = operand_value(f, rv["a"], st), operand_value(f, rv["b"], st)
        op = rv["op"]
        if op.endswith("WithOverflow"):
            return ("ovf", op[:-len("WithOverflow")], a, b, ty_of_operand(f, rv["a"]))
        return ("bin", op, a, b, ty_of_operand(f, rv["a"]))
    if k == "un":
        return ("un", rv["op"], operand_value(f, rv["a"], st))
    if k == "cast":
        return ("cast", rv["ty"], operand_value(f, rv["a"], st))
    if k in ("ref", "rawptr"):
        return ("ref", place_value(f, rv["p"], st))
    if k == "copyforderef":
        return place_value(f, rv["p"], st)
    if k == "discr":
        v = place_value(f, rv["p"], st)
        return ("const", v[3]) if v[0] == "adt" else ("discr", v)
    if k == "agg" and rv.get("agg") == "tuple":
        return ("tup", tuple(operand_value(f, o, st) for o in rv["ops"]))
    if k == "agg" and rv.get("agg") == "adt":
        return ("adt", rv["adt"], rv["variant"], rv.get("vidx", 0), tuple(operand_value(f, o, st) for o in rv["ops"]))
    return ("opaque", k)


def ty_of_operand(f, op):
    c = op_const(op)
    if c is not None:
        return c.get("ty")
    p = op_place(op)
    if p is None:
        return None
    if p["p"]:
        return p["p"][-1].get("ty")
    return f.locals[p["l"]]["ty"]


def symbols(v, leaf):
    """the set of symbols a value tree depends on; `leaf(v)` names the symbol of a leaf the rule interprets (or None)"""
    s = leaf(v)
    if s is not None:
        return {s}
    if v[0] == "in":
        return {v}
    if v[0] == "const":
        return set()
    if v[0] in ("opaque", "proj", "discr"):
        return {("opaque",)}
    if v[0] == "adt":
        out = set()
        for y in v[4]:
            out |= symbols(y, leaf)
        return out
    if v[0] == "tup":
        out = set()
        for y in v[1]:
            out |= symbols(y, leaf)
        return out
    out = set()
    for x in v[1:]:
        if isinstance(x, tuple) and x and isinstance(x[0], str):
            out |= symbols(x, leaf)
        elif isinstance(x, tuple):
            for y in x:
                if isinstance(y, tuple) and y and isinstance(y[0], str):
                    out |= symbols(y, leaf)
    return out


def evaluate(v, env, interp):
    """fold a value tree; env: symbol -> int; interp(v, env) -> int or None for rule-interpreted leaves"""
    r = interp(v, env)
    if r is not None:
        return r
    k = v[0]
    if k == "const":
        return v[1]
    if k == "in":
        if v in env:
            return env[v]
        raise Unknown("no value for %r" % (v,))
    if k == "cast":
        x = evaluate(v[2], env, interp)
        return x & MASK[v[1]] if v[1] in MASK else x
    if k == "un":
        x = evaluate(v[2], env, interp)
        if v[1] == "Not":
            return int(not x) if x in (0, 1) else ~x
        raise Unknown("unary " + v[1])
    if k == "bin":
        a, b = evaluate(v[2], env, interp), evaluate(v[3], env, interp)
        op = v[1]
        m = MASK.get(v[4])
        if op == "Add":
            r = a + b
        elif op == "Sub":
            r = a - b
        elif op == "Mul":
            r = a * b
        elif op == "Shl":
            r = a << b
        elif op == "Shr":
            r = a >> b
        elif op == "BitAnd":
            r = a & b
        elif op == "BitOr":
            r = a | b
        elif op == "BitXor":
            r = a ^ b
        elif op in ("Eq", "Ne", "Lt", "Le", "Gt", "Ge"):
            return int({"Eq": a == b, "Ne": a != b, "Lt": a < b, "Le": a <= b, "Gt": a > b, "Ge": a >= b}[op])
        else:
            raise Unknown("binary " + op)
        if m is not None and not (0 <= r <= m):
            if op in ("Add", "Sub", "Mul"):
                raise Overflow("overflow")    # a checked operation would panic; the caller decides what that means
            r &= m
        return r
    if k == "call" and v[1]:
        nm = v[1].rsplit("::", 1)[-1]
        if nm in ("unwrap_or", "unwrap_or_default") and v[1].startswith(("std::option::Option", "std::result::Result", "core::option::Option", "core::result::Result")):
            o = evaluate_opt(v[2][0], env, interp)
            if o[0] == "some":
                return o[1]
            return evaluate(v[2][1], env, interp) if nm == "unwrap_or" else 0
        if nm in ("max", "min", "saturating_sub", "saturating_add", "wrapping_sub", "wrapping_add", "abs_diff", "pow") and len(v[2]) == 2 \
                and v[1].startswith(("std::", "core::", "<usize", "<isize", "<u32", "<i32", "<u8", "<u64", "<i64")):
            a, b = evaluate(v[2][0], env, interp), evaluate(v[2][1], env, interp)
            unsigned = any(("::%s::" % t) in v[1] or v[1].startswith("<%s " % t) for t in ("usize", "u32", "u8", "u64", "u16"))
            if nm == "max":
                return max(a, b)
            if nm == "min":
                return min(a, b)
            if nm == "abs_diff":
                return abs(a - b)
            if nm == "saturating_sub" and unsigned:
                return max(a - b, 0)
            if nm == "wrapping_sub" and unsigned:
                return (a - b) & MASK["usize"]
            if nm in ("saturating_add", "wrapping_add") and a + b <= MASK["u32"]:
                return a + b
        raise Unknown("cannot fold call of %s" % v[1])
    raise Unknown("cannot fold %s" % k)


def _unsigned_target(key):
    return key.startswith(("<usize ", "<u32 ", "<u8 ", "<u64 ", "<u16 ")) or any(("::%s::" % t) in key for t in ("usize", "u32", "u8", "u64", "u16"))


def evaluate_opt(v, env, interp):
    """fold a value of Option / Result type to ('some', int) | ('none',)"""
    if v[0] == "adt" and v[2] in ("Some", "Ok") and len(v[4]) == 1:
        return ("some", evaluate(v[4][0], env, interp))
    if v[0] == "adt" and v[2] in ("None", "Err"):
        return ("none",)
    if v[0] == "call" and v[1]:
        nm = v[1].rsplit("::", 1)[-1]
        if nm in ("try_from", "try_into") and len(v[2]) == 1:
            a = evaluate(v[2][0], env, interp)
            tgt = v[1] if nm == "try_from" else v[1].split(" as ", 1)[-1]
            if nm == "try_into":
                # <isize as TryInto<usize>>::try_into
                unsigned = any(("TryInto<%s>" % t) in v[1] for t in ("usize", "u32", "u8", "u64", "u16"))
            else:
                unsigned = _unsigned_target(tgt)
            return ("some", a) if (a >= 0 or not unsigned) else ("none",)
        if nm in ("checked_sub", "checked_add") and len(v[2]) == 2 and _unsigned_target(v[1]):
            a, b = evaluate(v[2][0], env, interp), evaluate(v[2][1], env, interp)
            r = a - b if nm == "checked_sub" else a + b
            return ("some", r) if 0 <= r <= MASK["u32"] else ("none",)
    raise Unknown("cannot fold optional value %s" % (v[1] if v[0] == "call" else v[0]))


class SymRec(e7.Recogniser):
    """path recogniser that executes statements symbolically.  Subclasses give: leaf(v), interp(v, env), domain(symbol),
    and call_effect(bi, t, ck, st) for calls with effects the rule records."""
    domains = {}

    def __init__(self, f):
        self.f = f
        self.ops_at = {}

    def leaf(self, v):
        return None

    def interp(self, v, env):
        return None

    def stmt(self, s, st):
        if s["k"] == "assign" and not s["lhs"]["p"]:
            st[s["lhs"]["l"]] = rvalue_value(self.f, s["rv"], st, self.f.locals[s["lhs"]["l"]]["ty"])
        elif s["k"] == "assign" and _self_field(s["lhs"]) is not None:
            # a store into a field of self: later reads of the field on this path see the stored value
            st[("field", _self_field(s["lhs"]))] = rvalue_value(self.f, s["rv"], st, s["lhs"]["p"][1].get("ty"))
        return None

    def call(self, bi, t, ck, st):
        r = self.call_effect(bi, t, ck, st)
        if r == "stop":
            return "stop"
        if t["dest"] is not None and not t["dest"]["p"]:
            args = tuple(operand_value(self.f, a, st) for a in t["args"])
            v = ("call", ck, args)
            if ck.endswith("as std::ops::Try>::branch") and args and args[0][0] == "adt":
                a = args[0]
                if a[2] in ("Ok", "Some"):
                    v = ("adt", "std::ops::ControlFlow", "Continue", 0, a[4])
                else:
                    v = ("adt", "std::ops::ControlFlow", "Break", 1, (a,))
            st[t["dest"]["l"]] = v
        return r

    def call_effect(self, bi, t, ck, st):
        return "transparent"

    def guard(self, bi, st):
        f = self.f
        t = f.blocks[bi]["term"]
        v = operand_value(f, t["discr"], st)
        syms = symbols(v, self.leaf)
        edges_all = [(val, tg) for val, tg in zip(t["vals"], t["targets"])]
        if len(syms) == 1:
            (sym,) = syms
            dom = self.domains.get(sym if sym[0] != "in" else ("in", sym[1]))
            if dom is not None:
                by = {}
                try:
                    for x in dom:
                        try:
                            r = evaluate(v, {sym: x}, self.interp)
                        except Overflow:
                            continue          # no execution gets here with this value
                        by.setdefault(r, set()).add(x)
                except Unknown:
                    by = None
                if by is not None:
                    edges = []
                    rest = set().union(*by.values()) if by else set()
                    for val, tg in edges_all:
                        edges.append((Cons(by.get(val, set())), tg))
                        rest -= by.get(val, set())
                    edges.append((Cons(rest), t["otherwise"]))
                    return (sym, edges)
        if not syms:
            try:
                r = evaluate(v, {}, self.interp)
                for val, tg in edges_all:
                    if val == r:
                        return (("const", bi), [(TRUE, tg)])
                return (("const", bi), [(TRUE, t["otherwise"])])
            except Unknown:
                pass
        st[("@cond", bi)] = v       # kept so that a full assignment can still decide the edge (matches())
        return (("opaque", bi), [(Cons([val]), tg) for val, tg in edges_all] + [(Cons(neg=[val for val, _ in edges_all]), t["otherwise"])])


def matches(p, env, interp):
    """does the path admit the assignment?  symbol guards by their constraint; undecided guards by folding the recorded discriminant
    under the full assignment (a discriminant that cannot be folded admits every edge)"""
    for k, c in p["guards"].items():
        if k in env:
            if not c.admits(env[k]):
                return False
        elif k[0] == "opaque":
            tree = p["state"].get(("@cond", k[1]))
            if tree is None:
                continue
            try:
                val = evaluate(tree, env, interp)
            except Overflow:
                return False
            except Unknown:
                continue
            if not c.admits(val):
                return False
    return True


def straightline_state(f, B, rec, maxlen=14):
    """symbolic state (as kept by a SymRec) at the end of block B, over the straight-line run of blocks that ends in B"""
    chain = [B]
    while True:
        ps_ = [p for p in f.preds(chain[0]) if not f.blocks[p]["cleanup"]]
        if len(ps_) != 1 or f.blocks[ps_[0]]["term"]["k"] not in ("goto", "call", "assert", "drop") or ps_[0] in chain or len(chain) > maxlen:
            break
        chain.insert(0, ps_[0])
    st = {}
    for cbk in chain:
        for s_ in f.blocks[cbk]["stmts"]:
            rec.stmt(s_, st)
        tc = f.blocks[cbk]["term"]
        if cbk != B and tc["k"] == "call":
            fk = tc["f"].get("fn")
            rec.call(cbk, tc, ((fk.get("resolved") or fk["key"]) if fk else ""), st)
    return st
