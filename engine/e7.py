"""E7 -- text-buffer transducer summaries.

The scanner assembles a scalar's text from a few String scratch buffers (pending blanks, the first pending line break, further pending
breaks) that are flushed into the output string by small straight-line regions guarded by `is_empty()` tests and one boolean flag.  This
engine turns such a region into data: it enumerates the region's paths and records, per path, the guards taken and the effects on the
buffers in a small vocabulary
    is_empty(B) | push_str(out, B) | push(B, <const char>) | push(B, <cursor char>) | clear(B) | mem::take(B) | read_break(B) | flag := const
and evaluates the path set, as a function, on every assignment of (flag, B1 empty?, B2 empty?, ...) so that it can be compared with a
specification table or with a sibling region.  Anything outside the vocabulary ends the region (the caller checks that the region ended
where it expected).  Nothing is executed: this is path enumeration over the MIR control-flow graph with symbolic buffer states.
"""
from . import cfg
from .facts import is_local, op_const, const_value, op_place

STR = "std::string::String::"
DEREF = "<std::string::String as std::ops::Deref>::deref"


def buf_id(e):
    """identity of the String an expression refers to (through &, &mut, Deref::deref, reborrows), or None"""
    for _ in range(8):
        e = cfg.strip_reborrow(e)
        if e[0] == "ref":
            e = e[1]
            continue
        if e[0] == "place" and e[1][0] == "call" and e[1][1] in (DEREF, "<std::string::String as std::ops::DerefMut>::deref_mut") and e[2] == ["deref"]:
            e = e[1][2][0]
            continue
        if e[0] == "call" and e[1] in (DEREF,):
            e = e[2][0]
            continue
        break
    if e[0] == "call" and e[1] in (STR + "new", STR + "with_capacity"):
        return ("local", e[3])
    if e[0] == "place" and e[1] == ("param", 1) and e[2] and e[2][0] == "deref" and all(isinstance(x, tuple) and x[0] == "field" for x in e[2][1:]):
        return ("self",) + tuple(x[1] for x in e[2][1:])
    if e[0] == "param":
        return ("param", e[1])
    if e[0] == "place" and e[1][0] == "param" and e[2] == ["deref"]:
        return ("param", e[1][1])
    return None


def buf_name(f, b):
    if b is None:
        return "?"
    if b[0] == "self":
        return "self." + ".".join(b[1:])
    if b[0] == "param":
        return f.local_name(b[1]) or "arg%d" % b[1]
    # local initialised by String::new() in block b[1]: find the destination's debug name
    t = f.blocks[b[1]]["term"]
    if t["k"] == "call" and not t["dest"]["p"]:
        return f.local_name(t["dest"]["l"]) or "_%d" % t["dest"]["l"]
    return str(b)


def string_ops(f):
    """all String-vocabulary calls of f: list of (bb, op, buffer, argument)"""
    out = []
    for bb, t, ck, fr in f.calls():
        if not ck:
            continue
        if (ck.startswith(STR) and ck[len(STR):] in ("is_empty", "push_str", "push", "clear")) or ck == "str::is_empty":
            # (a buffer handed on as `&str` is still that buffer: buf_id looks through String::deref)
            op = ck.rsplit("::", 1)[1]
            b = buf_id(cfg.expr_operand(f, t["args"][0], 14))
            arg = None
            if op == "push_str":
                arg = ("buf", buf_id(cfg.expr_operand(f, t["args"][1], 14)))
            elif op == "push":
                e = cfg.expr_operand(f, t["args"][1], 8)
                if e[0] == "const" and isinstance(e[1], tuple) and e[1][0] == "char":
                    arg = ("char", e[1][1])
                elif e[0] == "call" and e[1] and e[1].endswith("::peek"):
                    arg = ("cursor",)
                else:
                    arg = ("other", cfg.expr_str(e)[:80])
            out.append((bb, op, b, arg))
        elif ck.endswith("Scanner::read_break"):
            out.append((bb, "read_break", buf_id(cfg.expr_operand(f, t["args"][1], 8)), None))
        elif ck in ("std::mem::take",):
            out.append((bb, "take", buf_id(cfg.expr_operand(f, t["args"][0], 8)), None))
    return out


def bool_switch(f, bi):
    """(kind, subject, true_target, false_target) of a two-way switch on a bool, looking through `!`"""
    t = f.blocks[bi]["term"]
    if t["k"] != "switch" or t["dty"] != "bool" or t["vals"] != [0]:
        return None
    e = cfg.expr_operand(f, t["discr"], 8)
    tt, ft = t["otherwise"], t["targets"][0]
    while e[0] == "un" and e[1] == "Not":
        e = e[2]
        tt, ft = ft, tt
    if e[0] == "call" and e[1] in (STR + "is_empty", "str::is_empty") and (e[1] != "str::is_empty" or buf_id(e[2][0]) is not None):
        return ("empty", buf_id(e[2][0]), tt, ft)
    return ("flag", e, tt, ft)


def flag_assign(f, s, flag):
    """constant assigned to the flag by statement s, or None"""
    if s["k"] != "assign" or s["rv"]["k"] != "use":
        return None
    c = op_const(s["rv"]["a"])
    if c is None:
        return None
    v = const_value(c)
    if not isinstance(v, bool):
        return None
    lhs = s["lhs"]
    if flag[0] == "phi" or flag[0] == "local":
        if not lhs["p"] and lhs["l"] == flag[1]:
            return v
        return None
    if flag[0] == "place":
        if cfg.place_expr(f, lhs, 4) == flag:
            return v
    return None


TRANSPARENT = ("Scanner::skip_break", "Scanner::skip_blank", "Input::lookahead", "Scanner::skip_nl")


def region_paths(f, start, flag, transparent=TRANSPARENT, limit=400):
    """Enumerate the paths of the region that starts at block `start`.  Returns a list of dicts
    {guards: {('flag',): bool, ('empty', buf): bool}, ops: [(op, buf, arg)], flag_set: value or None, end: block, why: str}."""
    done = []
    ops_at = {}
    for bb, op, b, arg in string_ops(f):
        ops_at[bb] = (op, b, arg)
    stack = [(start, {}, [], None, (start,))]
    while stack:
        bi, guards, ops, fset, seen = stack.pop()
        if len(done) > limit:
            raise RuntimeError("region_paths: too many paths from bb%d in %s" % (start, f.key))
        blk = f.blocks[bi]
        ops = list(ops)
        for s in blk["stmts"]:
            v = flag_assign(f, s, flag)
            if v is not None:
                fset = v
                ops.append(("flag", None, v))
        t = blk["term"]
        k = t["k"]
        nxt = None
        if k in ("goto", "drop"):
            nxt = [(t["t"], guards)]
        elif k == "call":
            if bi in ops_at:
                op, b, arg = ops_at[bi]
                if op != "is_empty":
                    ops.append((op, b, arg))
                nxt = [(t["t"], guards)]
            else:
                fr = t["f"].get("fn")
                ck = (fr.get("resolved") or fr["key"]) if fr else ""
                if ck == DEREF or any(ck.endswith(x) for x in transparent):
                    nxt = [(t["t"], guards)]
                else:
                    done.append({"guards": guards, "ops": ops, "flag_set": fset, "end": bi, "why": "call " + ck})
                    continue
        elif k == "switch":
            sw = bool_switch(f, bi)
            if sw is None or (sw[0] == "flag" and sw[1] != flag) or (sw[0] == "empty" and sw[1] is None):
                done.append({"guards": guards, "ops": ops, "flag_set": fset, "end": bi, "why": "switch"})
                continue
            key = ("flag",) if sw[0] == "flag" else ("empty", sw[1])
            nxt = []
            for val, tg in ((True, sw[2]), (False, sw[3])):
                known = guards.get(key)
                if key == ("flag",) and fset is not None:
                    known = fset
                if known is not None and known != val:
                    continue
                g2 = dict(guards)
                if not (key == ("flag",) and fset is not None):
                    g2[key] = val
                nxt.append((tg, g2))
        else:
            done.append({"guards": guards, "ops": ops, "flag_set": fset, "end": bi, "why": k})
            continue
        for tg, g in nxt:
            if tg is None or tg in seen:
                done.append({"guards": g, "ops": ops, "flag_set": fset, "end": tg, "why": "back-edge"})
            else:
                stack.append((tg, g, ops, fset, seen + (tg,)))
    return done


def evaluate(paths, bufs, out, assignment):
    """Evaluate the region on one assignment {('flag',): bool, ('empty', b): bool for b in bufs}.  Returns the list of outcomes (one per
    matching path; a deterministic region has exactly one): (emitted symbols, {buf: 'empty'|'nonempty'|'grown'}, flag_after)."""
    res = []
    for p in paths:
        if any(assignment.get(k) is not None and assignment[k] != v for k, v in p["guards"].items()):
            continue
        state = {b: ("empty" if assignment[("empty", b)] else "nonempty") for b in bufs}
        emitted = []
        other = []
        for op, b, arg in p["ops"]:
            if op == "flag":
                continue
            if b == out:
                if op == "push_str" and arg[0] == "buf" and arg[1] in state:
                    if state[arg[1]] != "empty":
                        emitted.append(("buf", arg[1], state[arg[1]]))
                elif op == "push" and arg[0] == "char":
                    emitted.append(("char", arg[1]))
                elif op == "push" and arg[0] == "cursor":
                    emitted.append(("cursor",))
                else:
                    other.append((op, "out", arg))
            elif b in state:
                if op in ("clear", "take"):
                    state[b] = "empty"
                elif op == "read_break" or (op == "push" and arg[0] == "char" and arg[1] == 10):
                    state[b] = "break+" if state[b] == "empty" else "grown-break"
                elif op == "push" and arg[0] == "cursor":
                    state[b] = "cursor+" if state[b] == "empty" else "grown-cursor"
                else:
                    other.append((op, b, arg))
            else:
                other.append((op, b, arg))
        res.append((tuple(emitted), state, p["flag_set"], tuple(other), p["end"], p["why"]))
    return res


# ------------------------------------------------------------------------------------------------------------------------------------
# generic guarded-path tables

class Cons:
    """a constraint on one symbolic value: it lies in `pos` (None = anything) and not in `neg`"""
    __slots__ = ("pos", "neg")

    def __init__(self, pos=None, neg=frozenset()):
        self.pos = None if pos is None else frozenset(pos)
        self.neg = frozenset(neg)

    def meet(self, o):
        if self.pos is None:
            pos = o.pos
        elif o.pos is None:
            pos = self.pos
        else:
            pos = self.pos & o.pos
        neg = self.neg | o.neg
        if pos is not None:
            pos = pos - neg
            neg = frozenset()
        return Cons(pos, neg)

    def empty(self):
        return self.pos is not None and not self.pos

    def admits(self, v):
        return (self.pos is None or v in self.pos) and v not in self.neg

    def __repr__(self):
        if self.pos is not None:
            return "{%s}" % ",".join(sorted(map(_show, self.pos)))
        return "not{%s}" % ",".join(sorted(map(_show, self.neg))) if self.neg else "any"


def _show(v):
    if isinstance(v, int) and not isinstance(v, bool):
        return repr(chr(v)) if 0 <= v < 0x110000 else str(v)
    return str(v)


TRUE, FALSE = Cons([True]), Cons([False])


class Recogniser:
    """what a path table needs to know about blocks: guards, effects, where to stop.  Subclass per rule family."""
    transparent = (DEREF,)

    def __init__(self, f):
        self.f = f
        self.ops_at = {bb: (op, b, arg) for bb, op, b, arg in string_ops(f)}

    def guard(self, bi, st):
        """None, or (key, [(Cons, target), ...])"""
        sw = bool_switch(self.f, bi)
        if sw is None:
            return None
        if sw[0] == "empty" and sw[1] is not None:
            return (("empty", sw[1]), [(TRUE, sw[2]), (FALSE, sw[3])])
        return self.flag_guard(bi, sw, st)

    def flag_guard(self, bi, sw, st):
        return None

    def stmt(self, s, st):
        """effect of a statement: None or an op tuple"""
        return None

    def call(self, bi, t, ck, st):
        """effect of a call: ('op', tuple) | 'transparent' | 'stop'"""
        if bi in self.ops_at:
            op, b, arg = self.ops_at[bi]
            return "transparent" if op == "is_empty" else ("op", (op, b, arg))
        if ck in self.transparent or any(ck.endswith(x) for x in self.transparent):
            return "transparent"
        return "stop"


def paths(f, start, rec, stop_at=(), limit=3000, init_state=None):
    """all paths from `start` until the recogniser says stop (or a block of stop_at, a return, a back edge): list of
    {guards: {key: Cons}, ops: [...], end, why, state}"""
    done = []
    stack = [(start, {}, [], dict(init_state or {}), (start,))]
    while stack:
        bi, guards, ops, st, seen = stack.pop()
        if len(done) > limit:
            raise RuntimeError("e7.paths: more than %d paths from bb%d in %s" % (limit, start, f.key))
        if bi in stop_at and bi != start:
            done.append({"guards": guards, "ops": ops, "end": bi, "why": "stop", "state": st})
            continue
        blk = f.blocks[bi]
        ops = list(ops)
        st = dict(st)
        for s in blk["stmts"]:
            o = rec.stmt(s, st)
            if o is not None:
                ops.append(o)
        t = blk["term"]
        k = t["k"]
        nxt = None
        if k in ("goto", "drop"):
            nxt = [(t["t"], guards)]
        elif k == "assert":
            nxt = [(t["t"], guards)]
        elif k == "call":
            fr = t["f"].get("fn")
            ck = (fr.get("resolved") or fr["key"]) if fr else ""
            r = rec.call(bi, t, ck, st)
            if r == "stop" or t["t"] is None:
                done.append({"guards": guards, "ops": ops, "end": bi, "why": "call " + ck, "state": st})
                continue
            if r != "transparent":
                ops.append(r[1])
            nxt = [(t["t"], guards)]
        elif k == "switch":
            g = rec.guard(bi, st)
            if g is None:
                done.append({"guards": guards, "ops": ops, "end": bi, "why": "switch", "state": st})
                continue
            key, edges = g
            nxt = []
            for cons, tg in edges:
                cur = guards.get(key)
                c2 = cons if cur is None else cur.meet(cons)
                if c2.empty():
                    continue
                g2 = dict(guards)
                g2[key] = c2
                nxt.append((tg, g2))
        else:
            done.append({"guards": guards, "ops": ops, "end": bi, "why": k, "state": st})
            continue
        for tg, g in nxt:
            if tg is None or tg in seen:
                done.append({"guards": g, "ops": ops, "end": tg, "why": "back-edge", "state": st})
            else:
                stack.append((tg, g, ops, st, seen + (tg,)))
    return done


def matching(ps, assignment):
    """the paths whose guards admit the assignment {key: value}; keys absent from the assignment are unconstrained"""
    out = []
    for p in ps:
        if all(k not in assignment or c.admits(assignment[k]) for k, c in p["guards"].items()):
            out.append(p)
    return out
