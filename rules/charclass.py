"""The character classes of saphyr_parser::char_traits against the YAML 1.2.2 productions they implement (used by C03, C04, C16).

Each predicate is a pure function of one character; it is folded (engine/fold.py) over an alphabet that contains every ASCII character and
a dozen representatives of the rest of Unicode (NEL, NBSP, é, LS, PS, BOM, ...), and the set of accepted characters is compared with the
production:

    is_z                '\\0' (end of input as the scanner sees it)
    is_break            b-char                  LF | CR                               [24]-[26]
    is_breakz / is_blank / is_blank_or_breakz   s-white = SP | TAB [33], and the unions
    is_digit            ns-dec-digit            0-9                                   [35]
    is_hex              ns-hex-digit            0-9 a-f A-F                           [36]
    is_word_char        ns-word-char            ns-dec-digit | ns-ascii-letter | '-'  [38]
    is_flow             c-flow-indicator        , [ ] { }                             [23]
    is_uri_char         ns-uri-char             word | one of  # ; / ? : @ & = + $ , _ . ! ~ * ' ( ) [ ]  and '%' (the escape) [39]
    is_tag_char         ns-tag-char             ns-uri-char - '!' - c-flow-indicator  [40]
    is_anchor_char      ns-anchor-char          ns-char - c-flow-indicator            [102]   (ns-char: not a break, blank, BOM; printability is not tested by the library)

A predicate that is missing is skipped (its users are found by other rules); one that cannot be folded is reported as not decided.
"""
from .common import *
from engine import fold

CT = "saphyr_parser::char_traits::"
A = fold.ALPHABET
LETTERS = set(range(ord("a"), ord("z") + 1)) | set(range(ord("A"), ord("Z") + 1))
DIGITS = set(range(ord("0"), ord("9") + 1))
WORD = DIGITS | LETTERS | {ord("-")}
FLOW = set(map(ord, ",[]{}"))
URI = WORD | set(map(ord, "#;/?:@&=+$,_.!~*'()[]%"))
BREAK = {10, 13}
BLANK = {32, 9}
SPEC = {
    "is_z": ({0}, "the end-of-input character"),
    "is_break": (BREAK, "b-char"),
    "is_breakz": (BREAK | {0}, "b-char or end of input"),
    "is_blank": (BLANK, "s-white"),
    "is_blank_or_breakz": (BLANK | BREAK | {0}, "s-white, b-char or end of input"),
    "is_digit": (DIGITS, "ns-dec-digit"),
    "is_hex": (DIGITS | set(map(ord, "abcdefABCDEF")), "ns-hex-digit"),
    "is_word_char": (WORD, "ns-word-char"),
    "is_flow": (FLOW, "c-flow-indicator"),
    "is_uri_char": (URI, "ns-uri-char"),
    "is_tag_char": (URI - FLOW - {ord("!")}, "ns-tag-char"),
    "is_anchor_char": ({c for c in A if c not in BREAK | BLANK | FLOW | {0, 0xFEFF}}, "ns-anchor-char"),
}


def _show(cs):
    return ", ".join(("%r" % chr(c)) if 32 < c < 127 else "U+%04X" % c for c in sorted(cs)[:8])


def check(rep, F, names, rule="character-class-table"):
    n = 0
    for nm in names:
        key = CT + nm
        if key not in F.fns:
            continue
        want, prod = SPEC[nm]
        try:
            got = fold.predicate_table(F, key, A)
        except (fold.Unsupported, fold.Diverged) as ex:
            rep.extra.setdefault("character_class_not_decided", {})[nm] = str(ex)
            continue
        n += 1
        extra, missing = got - want, (want & set(A)) - got
        rep.check(not extra and not missing, rule, nm, "%s is not %s: %s%s" % (
            nm, prod, ("it also accepts %s" % _show(extra)) if extra else "", ("%sit refuses %s" % ("; " if extra else "", _show(missing))) if missing else ""),
            site=F.fns[key].span, detail={"alphabet": len(A)})
    return n
