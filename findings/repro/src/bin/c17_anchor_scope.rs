// C17: `&a x\n---\n*a` — the iterator resolves the alias (anchors are stream-global there),
// `load` clears the anchor table per document and reports "unknown anchor".
use saphyr_parser::{Event, Parser, ScanError, Span, SpannedEventReceiver};
struct Sink(Vec<String>);
impl<'a> SpannedEventReceiver<'a> for Sink {
    fn on_event(&mut self, ev: Event<'a>, _span: Span) {
        self.0.push(format!("{ev:?}"));
    }
}
fn main() {
    let src = "&a x\n---\n*a\n";
    let pull: Result<Vec<String>, ScanError> = Parser::new_from_str(src).map(|r| r.map(|(e, _)| format!("{e:?}"))).collect();
    let mut sink = Sink(vec![]);
    let push = Parser::new_from_str(src).load(&mut sink, true).map(|()| sink.0);
    println!("pull: {pull:?}");
    println!("push: {push:?}");
    match (pull, push) {
        (Ok(a), Ok(b)) if a == b => println!("SAME"),
        (Err(a), Err(b)) if a == b => println!("SAME"),
        _ => {
            println!("DIFFERENT");
            std::process::exit(1)
        }
    }
}
