"""E1 pass B — look-ahead interpreter with a character-class window.

Same fixpoint engine as pass A (engine/e1.py) with one more state component: `win`, a window of W character sets (bit masks over
fold.ALPHABET) describing what the next W characters of the input may be.  Character predicates are folded from char_traits.rs, so a
branch on `is_blank(self.input.peek())` refines position 0 on both edges; `skip()` shifts the window.  The pass records class
obligations:
  * entry classes of skip_nl / skip_blank / skip_non_blank / skip_n_non_blank / next_can_be_plain_scalar / skip_break,
  * the class of every non-constant character pushed into a String,
  * per call site inside the scanner, whether the callee consumed a character in every context reached there (must-consume).
Nothing is executed: sets of characters are propagated, never an input.
"""
from .facts import is_local, op_const, const_value, op_place
from . import cfg, fold
from .e1 import INPUT, INF, PRIMS, Violation, _refine_cmp, check_bounded_skip_lemma

TOP = None
W = 8
SCANNER = "saphyr_parser::scanner::Scanner"


class Alphabet:
    def __init__(self, F):
        self.cps = list(fold.ALPHABET)
        self.idx = {cp: i for i, cp in enumerate(self.cps)}
        self.n = len(self.cps)
        self.TOP = (1 << self.n) - 1
        self.F = F
        self._tables = {}
        self.fo = fold.Folder(F)

    def mask(self, cps):
        m = 0
        for cp in cps:
            i = self.idx.get(cp)
            if i is not None:
                m |= 1 << i
        return m

    def members(self, m):
        return [self.cps[i] for i in range(self.n) if (m >> i) & 1]

    def pred(self, key):
        if key not in self._tables:
            self._tables[key] = self.mask(fold.predicate_table(self.F, key))
        return self._tables[key]

    def cmp_mask(self, op, cp, m):
        out = 0
        for i in range(self.n):
            if (m >> i) & 1:
                x = self.cps[i]
                r = {"Eq": x == cp, "Ne": x != cp, "Lt": x < cp, "Le": x <= cp, "Gt": x > cp, "Ge": x >= cp}[op]
                if r:
                    out |= 1 << i
        return out

    def show(self, m):
        if m == self.TOP:
            return "any"
        ms = self.members(m)
        if len(ms) > 12:
            co = self.members(self.TOP & ~m)
            return "any but " + "".join(_c(c) for c in co[:12])
        return "".join(_c(c) for c in ms) or "nothing"


def _c(cp):
    if cp == 10:
        return "\\n"
    if cp == 13:
        return "\\r"
    if cp == 9:
        return "\\t"
    if cp == 0:
        return "\\0"
    if cp == 32:
        return "SP"
    if 32 < cp < 127:
        return chr(cp)
    return "\\u{%x}" % cp


class St:
    """abstract state at a program point"""
    __slots__ = ("lb", "ub", "cons", "enq", "win", "pend")

    def __init__(self, lb, ub, cons, enq, win, pend=frozenset()):
        self.lb, self.ub, self.cons, self.enq, self.win, self.pend = lb, ub, cons, enq, win, pend

    def key(self):
        return (self.lb, self.ub, self.cons, self.enq, self.win, self.pend)

    def join(self, o):
        return St(min(self.lb, o.lb), max(self.ub, o.ub), self.cons and o.cons, self.enq and o.enq, tuple(a | b for a, b in zip(self.win, o.win)),
                  self.pend | o.pend)

    def copy(self, **kw):
        s = St(self.lb, self.ub, self.cons, self.enq, self.win, self.pend)
        for k, v in kw.items():
            setattr(s, k, v)
            if k == "cons" and v is True:
                # something was consumed: no loop head of this function is pending any more
                s.pend = frozenset()
        return s


class E1B:
    def __init__(self, F, B, lemmas=None):
        self.F = F
        self.B = B
        self.A = Alphabet(F)
        self.memo = {}
        self.stack = []
        self.contexts = 0
        self.sites = {}
        self.lemmas = lemmas or []
        self.lemma_floors = {}
        self.lemma_log = []
        self.widen_limit = B + 16
        self.small_limit = 12
        self.diverge_hits = {}
        self.entry_classes = {}     # fnkey -> list of (win tuple, caller key)
        self.pushes = {}            # (fnkey, bb) -> {"masks": OR of masks, "const": set, "buf": expr str}
        self.site_cons = {}         # (fnkey, bb) -> bool: callee consumed in every context reached at this call site
        self.spins = {}             # (fnkey, loop head) -> count: a state came back to the head with nothing consumed since the last visit
        self.loop_heads_seen = set()
        self.spin_sources = {}
        self._headcache = {}
        self._bodycache = {}
        self.call_entries = {}      # callee -> {(caller, bb): [(window, args)...]} (sampled, for diagnostics and per-site obligations)
        self.touch = self._touching()
        for lem in self.lemmas:
            f = self.F.fns.get(lem["fn"])
            if f is None:
                self.lemma_log.append({"lemma": lem["name"], "ok": False})
                continue
            res = check_bounded_skip_lemma(self.F, f, lem)
            self.lemma_log.append({"lemma": lem["name"], "ok": res["ok"], "premises": res["premises"]})
            if res["ok"]:
                self.lemma_floors.setdefault(f.key, []).append((res["loop_blocks"], lem["floor_const"]))
        A = self.A
        self.BRK = A.mask([10, 13])
        self.BLANKZ = A.pred("saphyr_parser::char_traits::is_blank_or_breakz")
        self.BREAKZ = A.pred("saphyr_parser::char_traits::is_breakz")

    def _touching(self):
        F = self.F
        direct = set()
        callers = {}
        for k, f in F.fns.items():
            if f.crate != "saphyr_parser":
                continue
            for bb, t, ck, fr in f.calls():
                if fr is None:
                    continue
                if fr.get("trait") == INPUT:
                    direct.add(k)
                if ck and (ck.endswith("VecDeque::push_back") or ck.endswith("VecDeque::insert")):
                    direct.add(k)
                tg = fr.get("resolved") or ck
                if tg in F.fns:
                    callers.setdefault(tg, set()).add(k)
        seen = set(direct)
        st = list(direct)
        while st:
            k = st.pop()
            for c in callers.get(k, ()):
                if c not in seen:
                    seen.add(c)
                    st.append(c)
        return seen

    def _bodies(self, f):
        b = self._bodycache.get(f.key)
        if b is None:
            b = {hd: body for hd, body in f.natural_loops()}
            self._bodycache[f.key] = b
        return b

    def _heads(self, f):
        h = self._headcache.get(f.key)
        if h is None:
            h = {hd for hd, body in f.natural_loops()}
            self._headcache[f.key] = h
        return h

    # ------------------------------------------------------------------------------------------
    def site(self, fnkey, bb, prim):
        return self.sites.setdefault((fnkey, bb), {"prim": prim, "ok": 0, "bad": []})

    def require(self, cond, fnkey, bb, prim, what, st):
        s = self.site(fnkey, bb, prim)
        if cond:
            s["ok"] += 1
        elif len(s["bad"]) < 3:
            s["bad"].append({"what": what, "lb": st.lb, "ub": st.ub if st.ub < INF // 2 else "inf", "call_chain": [c for c in self.stack] + [fnkey]})

    # ------------------------------------------------------------------------------------------
    def analyse(self, fnkey, st, args=(), floor=0):
        key = (fnkey, st.lb, st.ub, st.win, args, floor)
        if key in self.memo:
            return self.memo[key]
        if fnkey in self.stack:
            raise Violation("recursion through %s" % fnkey)
        caller = self.stack[-1] if self.stack else None
        ec = self.entry_classes.setdefault(fnkey, [])
        if len(ec) < 4000:
            ec.append((st.win, caller, args))
        self.stack.append(fnkey)
        self.contexts += 1
        if self.contexts > 60000:
            raise Violation("too many contexts in pass B")
        try:
            exits = self._run(fnkey, st, args, floor)
        finally:
            self.stack.pop()
        self.memo[key] = exits
        return exits

    def _run(self, fnkey, st0, args, floor0):
        f = self.F.fns[fnkey]
        env0 = {}
        for i, a in enumerate(args):
            if a is not TOP:
                env0[i + 1] = a
        st0 = st0.copy(cons=False, enq=False)
        st0.pend = frozenset()
        heads = self._heads(f)
        bodies = self._bodies(f)
        start = (0, self._envkey(env0), (st0.ub == 0, st0.cons, st0.pend))
        states = {start: st0}
        work = [start]
        exits = {}
        seen_vals = {}
        widened = {}
        floors = self.lemma_floors.get(fnkey, [])
        steps = 0
        while work:
            key = work.pop()
            bb, envk, _z = key
            st = states[key]
            env = dict(envk)
            steps += 1
            if steps > 600000:
                raise Violation("pass B did not converge in %s" % fnkey)
            fl = floor0
            for blocks, c in floors:
                if bb in blocks:
                    fl = max(fl, c)
            if bb in heads:
                # loop progress: coming back to a loop head without having consumed anything since the last visit
                if bb in st.pend:
                    self.spins[(fnkey, bb)] = self.spins.get((fnkey, bb), 0) + 1
                else:
                    self.loop_heads_seen.add((fnkey, bb))
                st = st.copy(pend=st.pend | {bb})
            blk = f.blocks[bb]
            for s in blk["stmts"]:
                if s["k"] == "assign":
                    self._assign(f, env, s, st)
                elif s["k"] in ("dead", "live"):
                    env.pop(s["l"], None)
            t = blk["term"]
            k = t["k"]
            outs = []
            if k == "goto" or k in ("assert", "drop"):
                outs.append((t["t"], env, st))
            elif k == "switch":
                outs.extend(self._switch(f, bb, t, env, st))
            elif k == "return":
                rv = env.get(0, TOP)
                ek = (self._retkey(rv), st.cons)
                old = exits.get(ek)
                exits[ek] = st if old is None else old.join(st)
            elif k == "call":
                outs.extend(self._call(f, fnkey, bb, t, env, st, fl))
            for (tg, e2, s2) in outs:
                if tg is None or f.blocks[tg]["cleanup"]:
                    continue
                if s2.lb > s2.ub or any(m == 0 for m in s2.win):
                    continue
                w = widened.get(tg)
                if w:
                    for l in w:
                        e2.pop(l, None)
                for l, v in list(e2.items()):
                    if v[0] in ("i", "tuple", "var", "range"):
                        sv = seen_vals.setdefault((tg, l), set())
                        sv.add(v)
                        lim = self.widen_limit if v[0] in ("range", "var") else self.small_limit
                        if len(sv) > lim:
                            widened.setdefault(tg, set()).add(l)
                            e2.pop(l, None)
                if tg in heads and bb not in bodies[tg] and tg in s2.pend:
                    # entering the loop from outside: only arrivals over a back edge say something about this loop's progress
                    s2 = s2.copy(pend=s2.pend - {tg})
                if tg in heads and tg in s2.pend:
                    self.spin_sources.setdefault((fnkey, tg), set()).add(bb)
                # states with a provably empty buffer are kept apart from the others (the scanner branches on buf_is_empty() twice in a row)
                nk = (tg, self._envkey(e2), (s2.ub == 0, s2.cons, s2.pend))
                old = states.get(nk)
                new = s2 if old is None else old.join(s2)
                if old is None or old.key() != new.key():
                    states[nk] = new
                    work.append(nk)
        return [(v, rk[0]) for rk, v in exits.items()]

    @staticmethod
    def _envkey(env):
        return tuple(sorted(env.items()))

    @staticmethod
    def _retkey(v):
        if v is TOP:
            return TOP
        if v[0] in ("i", "isempty", "bufcmp", "not", "rawopt", "cb", "ch"):
            return v
        if v[0] == "var":
            p = v[2]
            if p is not TOP and p[0] not in ("i", "var"):
                p = TOP
            return ("var", v[1], p)
        return TOP

    # ------------------------------------------------------------------------------------------
    # window helpers
    def _refine(self, env, st, link, mask):
        """restrict window position `link` (and every char local linked to it) to `mask`"""
        if link is None or link >= W:
            return st
        win = list(st.win)
        win[link] &= mask
        for l, v in list(env.items()):
            if v[0] == "ch" and v[2] == link:
                env[l] = ("ch", v[1] & mask, link)
        return st.copy(win=tuple(win))

    def _shift(self, env, st, n):
        """n characters were consumed: shift the window and the links"""
        win = st.win[n:] + (self.A.TOP,) * min(n, W)
        win = win[:W]
        for l, v in list(env.items()):
            if v[0] == "ch" and v[2] is not None:
                nl = v[2] - n
                env[l] = ("ch", v[1], nl if nl >= 0 else None)
            elif v[0] == "cb" and v[1] is not None:
                nl = v[1] - n
                env[l] = ("cb", nl if nl >= 0 else None, v[2], v[3])
            elif v[0] == "not" and v[1][0] == "cb" and v[1][1] is not None:
                nl = v[1][1] - n
                env[l] = ("not", ("cb", nl if nl >= 0 else None, v[1][2], v[1][3]))
        return st.copy(win=win)

    def _unlink_all(self, env, st):
        for l, v in list(env.items()):
            if v[0] == "ch" and v[2] is not None:
                env[l] = ("ch", v[1], None)
            elif v[0] == "cb" and v[1] is not None:
                env[l] = ("cb", None, v[2], v[3])
            elif v[0] == "not" and v[1][0] == "cb":
                env[l] = ("not", ("cb", None, v[1][2], v[1][3]))
        return st.copy(win=(self.A.TOP,) * W)

    # ------------------------------------------------------------------------------------------
    def _val(self, f, env, op):
        c = op_const(op)
        if c is not None:
            v = const_value(c)
            if isinstance(v, bool):
                return ("i", int(v))
            if isinstance(v, int):
                return ("i", v)
            if isinstance(v, tuple) and v[0] == "char":
                return ("i", v[1])
            if c.get("promoted") is not None:
                return self._promoted(f, c["promoted"])
            return TOP
        p = op_place(op)
        if p is None:
            return TOP
        return self._place_val(f, env, p)

    def _promoted(self, f, idx):
        try:
            pb = f.d["promoted"][idx]
        except (KeyError, IndexError):
            return TOP
        for blk in pb["blocks"]:
            for s in blk["stmts"]:
                if s["k"] == "assign" and s["rv"]["k"] == "agg" and s["rv"].get("agg") == "adt" and not s["rv"]["ops"]:
                    return ("var", s["rv"]["vidx"], TOP)
        return TOP

    def _place_val(self, f, env, p):
        v = env.get(p["l"], TOP)
        if not p["p"]:
            return v
        if v is TOP:
            return TOP
        for e in p["p"]:
            if e["k"] == "downcast":
                continue
            if e["k"] == "field":
                if v is TOP:
                    return TOP
                if v[0] == "var":
                    v = v[2] if e["i"] == 0 else TOP
                elif v[0] == "tuple":
                    v = v[1 + e["i"]] if e["i"] < len(v) - 1 else TOP
                else:
                    return TOP
                continue
            if e["k"] == "deref":
                if v is not TOP and v[0] == "ref":
                    v = env.get(v[1], TOP)
                    continue
                if v is not TOP and v[0] in ("var", "ch", "i"):
                    continue
                return TOP
            return TOP
        return v

    def _assign(self, f, env, s, st):
        lhs = s["lhs"]
        if lhs["p"]:
            base = lhs["l"]
            bv = env.get(base, TOP)
            if bv is not TOP:
                if bv[0] == "ref" and lhs["p"][0]["k"] == "deref":
                    env.pop(bv[1], None)
                else:
                    env.pop(base, None)
            return
        v = self._rvalue(f, env, s["rv"])
        if v is TOP:
            env.pop(lhs["l"], None)
        else:
            env[lhs["l"]] = v

    def _rvalue(self, f, env, rv):
        k = rv["k"]
        A = self.A
        if k == "use":
            return self._val(f, env, rv["a"])
        if k == "copyforderef":
            return self._place_val(f, env, rv["p"])
        if k == "ref":
            p = rv["p"]
            if not p["p"]:
                return ("ref", p["l"])
            if p["p"] == [{"k": "deref"}]:
                v = env.get(p["l"], TOP)
                if v is not TOP and v[0] == "ref":
                    return v
                if v is not TOP and v[0] in ("var", "i"):
                    return v        # reference to a promoted constant: transparent
            return TOP
        if k == "cast":
            v = self._val(f, env, rv["a"])
            if v is not TOP and v[0] in ("i", "ch") and rv["kind"] == "IntToInt":
                return v
            return TOP
        if k == "un":
            v = self._val(f, env, rv["a"])
            if v is TOP:
                return TOP
            if rv["op"] == "Not":
                if v[0] == "i" and v[1] in (0, 1):
                    return ("i", 1 - v[1])
                if v[0] == "cb":
                    return ("cb", v[1], v[3], v[2])
                if v[0] in ("isempty", "bufcmp"):
                    return ("not", v)
                if v[0] == "not":
                    return v[1]
            return TOP
        if k == "bin":
            a = self._val(f, env, rv["a"])
            b = self._val(f, env, rv["b"])
            op = rv["op"]
            if a is not TOP and b is not TOP and a[0] == "i" and b[0] == "i":
                x, y = a[1], b[1]
                if op in ("Add", "AddUnchecked"):
                    return ("i", x + y)
                if op in ("Sub", "SubUnchecked"):
                    return ("i", x - y)
                if op == "Mul":
                    return ("i", x * y)
                if op == "AddWithOverflow":
                    return ("tuple", ("i", x + y), ("i", 0))
                if op == "SubWithOverflow":
                    return ("tuple", ("i", x - y), ("i", 1 if x - y < 0 else 0))
                if op == "MulWithOverflow":
                    return ("tuple", ("i", x * y), ("i", 0))
                if op in ("Lt", "Le", "Gt", "Ge", "Eq", "Ne"):
                    return ("i", int({"Lt": x < y, "Le": x <= y, "Gt": x > y, "Ge": x >= y, "Eq": x == y, "Ne": x != y}[op]))
                return TOP
            if op in ("Lt", "Le", "Gt", "Ge", "Eq", "Ne"):
                if a is not TOP and a[0] == "ch" and b is not TOP and b[0] == "i":
                    tm = A.cmp_mask(op, b[1], a[1])
                    return self._cb(a[2], tm, a[1] & ~tm)
                if b is not TOP and b[0] == "ch" and a is not TOP and a[0] == "i":
                    flip = {"Lt": "Gt", "Le": "Ge", "Gt": "Lt", "Ge": "Le", "Eq": "Eq", "Ne": "Ne"}[op]
                    tm = A.cmp_mask(flip, a[1], b[1])
                    return self._cb(b[2], tm, b[1] & ~tm)
                if a is not TOP and a[0] == "buflen" and b is not TOP and b[0] == "i":
                    return ("bufcmp", op, b[1])
                if b is not TOP and b[0] == "buflen" and a is not TOP and a[0] == "i":
                    flip = {"Lt": "Gt", "Le": "Ge", "Gt": "Lt", "Ge": "Le", "Eq": "Eq", "Ne": "Ne"}[op]
                    return ("bufcmp", flip, a[1])
            return TOP
        if k == "discr":
            v = self._place_val(f, env, rv["p"])
            if v is TOP:
                return TOP
            if v[0] == "var":
                return ("i", v[1])
            if v[0] == "rawopt":
                return ("rawdiscr",)
            if v[0] == "cbopt":
                return ("cb", v[1], v[2], v[3])
            return TOP
        if k == "agg":
            if rv.get("agg") == "adt":
                if rv["adt"] == "std::ops::Range":
                    a = self._val(f, env, rv["ops"][0])
                    b = self._val(f, env, rv["ops"][1])
                    if a is not TOP and b is not TOP and a[0] == "i" and b[0] == "i":
                        return ("range", a[1], b[1])
                    return TOP
                payload = self._val(f, env, rv["ops"][0]) if len(rv["ops"]) >= 1 else TOP
                if payload is not TOP and payload[0] not in ("i", "var", "ch"):
                    payload = TOP
                return ("var", rv["vidx"], payload)
            return TOP
        return TOP

    def _cb(self, link, tm, fm):
        if tm == 0:
            return ("i", 0)
        if fm == 0:
            return ("i", 1)
        return ("cb", link, tm, fm)

    # ------------------------------------------------------------------------------------------
    def _switch(self, f, bb, t, env, st):
        v = self._val(f, env, t["discr"])
        vals, tgs, other = t["vals"], t["targets"], t["otherwise"]
        A = self.A
        if v is not TOP and v[0] == "i":
            for val, tg in zip(vals, tgs):
                if val == v[1]:
                    return [(tg, dict(env), st)]
            return [(other, dict(env), st)]
        outs = []
        if v is not TOP and v[0] == "ch":
            mask, link = v[1], v[2]
            dl = is_local(t["discr"])
            rest = mask
            for val, tg in zip(vals, tgs):
                m1 = mask & A.mask([val])
                rest &= ~A.mask([val])
                if m1:
                    e2 = dict(env)
                    s2 = self._refine(e2, st, link, m1)
                    if dl is not None:
                        e2[dl] = ("ch", m1, link)
                    outs.append((tg, e2, s2))
            if rest:
                e2 = dict(env)
                s2 = self._refine(e2, st, link, rest)
                if dl is not None:
                    e2[dl] = ("ch", rest, link)
                outs.append((other, e2, s2))
            return outs
        neg = False
        while v is not TOP and v[0] == "not":
            v = v[1]
            neg = not neg
        if v is not TOP and v[0] == "cb" and (0 in vals or 1 in vals):
            tm, fm = v[2], v[3]
            if neg:
                tm, fm = fm, tm
            if 0 in vals:
                f_tg = tgs[vals.index(0)]
                t_tg = tgs[vals.index(1)] if 1 in vals else other
            else:
                t_tg = tgs[vals.index(1)]
                f_tg = other
            e2 = dict(env)
            outs.append((t_tg, e2, self._refine(e2, st, v[1], tm)))
            e3 = dict(env)
            outs.append((f_tg, e3, self._refine(e3, st, v[1], fm)))
            return outs
        if v is not TOP and v[0] in ("isempty", "bufcmp") and 0 in vals:
            f_tg = tgs[vals.index(0)]
            t_tg = other
            if neg:
                f_tg, t_tg = t_tg, f_tg
            if v[0] == "isempty":
                if st.lb == 0:
                    outs.append((t_tg, dict(env), st.copy(lb=0, ub=0)))
                if st.ub >= 1:
                    outs.append((f_tg, dict(env), st.copy(lb=max(st.lb, 1))))
                return outs
            tr, fa = _refine_cmp(v[1], v[2], st.lb, st.ub)
            if tr is not None:
                outs.append((t_tg, dict(env), st.copy(lb=tr[0], ub=tr[1])))
            if fa is not None:
                outs.append((f_tg, dict(env), st.copy(lb=fa[0], ub=fa[1])))
            return outs
        if v is not TOP and v[0] == "rawdiscr":
            for val, tg in list(zip(vals, tgs)) + [(None, other)]:
                if val == 1 or (val is None and 1 not in vals):
                    e2 = dict(env)
                    s2 = self._unlink_all(e2, st).copy(lb=0, ub=0, cons=True)
                    # the Option that was read is Some(c) with c not a breakz (contract of raw_read_non_breakz_ch)
                    dl = is_local(t["discr"])
                    for l, vv in list(e2.items()):
                        if vv == ("rawopt",):
                            e2[l] = ("var", 1, ("ch", self.A.TOP & ~self.BREAKZ, None))
                    outs.append((tg, e2, s2))
                elif val == 0 or (val is None and 0 not in vals):
                    e2 = dict(env)
                    s2 = self._unlink_all(e2, st)
                    win = (self.BREAKZ,) + s2.win[1:]
                    outs.append((tg, e2, s2.copy(lb=0, ub=min(max(st.ub, 1), 1), win=win)))
            return outs
        seen = set()
        for tg in tgs + [other]:
            if tg not in seen:
                seen.add(tg)
                outs.append((tg, dict(env), st))
        return outs

    # ------------------------------------------------------------------------------------------
    def _call(self, f, fnkey, bb, t, env, st, floor):
        fr = t["f"].get("fn")
        dest = t["dest"]
        tg = t["t"]
        key = fr["key"] if fr else None
        res = fr.get("resolved") if fr else None
        argv = [self._val(f, env, a) for a in t["args"]]
        A = self.A

        def out(dv, s2=st, e2=None):
            e2 = dict(env) if e2 is None else e2
            if not dest["p"]:
                if dv is TOP:
                    e2.pop(dest["l"], None)
                else:
                    e2[dest["l"]] = dv
            else:
                e2.pop(dest["l"], None)
            return (tg, e2, s2)

        if tg is None:
            self.diverge_hits.setdefault((fnkey, bb), []).append((st.lb, st.ub, list(self.stack)))
            return []
        if fr is not None and fr.get("trait") == INPUT and fr["name"] in PRIMS and (res is None or res == key):
            name = fr["name"]
            B = self.B
            if name == "lookahead":
                n = argv[1] if len(argv) > 1 else TOP
                if n is TOP or n[0] != "i":
                    self.require(False, fnkey, bb, name, "look-ahead request of unknown size", st)
                    return [out(TOP, st.copy(ub=INF))]
                self.require(n[1] <= B, fnkey, bb, name, "look-ahead request of %d exceeds the capacity %d" % (n[1], B), st)
                return [out(TOP, st.copy(lb=max(st.lb, n[1]), ub=max(st.ub, n[1])))]
            if name == "peek":
                self.require(st.lb >= 1, fnkey, bb, name, "peek() without a prior lookahead", st)
                return [out(("ch", st.win[0], 0), st.copy(lb=max(st.lb, 1), ub=max(st.ub, 1)))]
            if name == "peek_nth":
                n = argv[1] if len(argv) > 1 else TOP
                if n is TOP or n[0] != "i":
                    self.require(False, fnkey, bb, name, "peek_nth() with an unbounded index", st)
                    return [out(("ch", A.TOP, None))]
                self.require(st.lb >= n[1] + 1, fnkey, bb, name, "peek_nth(%d) without lookahead(%d)" % (n[1], n[1] + 1), st)
                cv = ("ch", st.win[n[1]], n[1]) if n[1] < W else ("ch", A.TOP, None)
                return [out(cv, st.copy(lb=max(st.lb, n[1] + 1), ub=max(st.ub, n[1] + 1)))]
            if name == "skip":
                self.require(st.lb >= 1, fnkey, bb, name, "skip() of a character that was not looked ahead", st)
                nl, nu = max(st.lb - 1, 0), max(st.ub - 1, 0)
                if floor:
                    nl = max(nl, min(floor, nu))
                e2 = dict(env)
                s2 = self._shift(e2, st, 1).copy(lb=nl, ub=nu, cons=True)
                return [out(TOP, s2, e2)]
            if name == "skip_n":
                n = argv[1] if len(argv) > 1 else TOP
                if n is TOP or n[0] != "i":
                    self.require(False, fnkey, bb, name, "skip_n() with an unbounded count", st)
                    e2 = dict(env)
                    return [out(TOP, self._unlink_all(e2, st).copy(lb=0, cons=True), e2)]
                self.require(st.lb >= n[1], fnkey, bb, name, "skip_n(%d) of characters that were not looked ahead" % n[1], st)
                e2 = dict(env)
                s2 = self._shift(e2, st, n[1]).copy(lb=max(st.lb - n[1], 0), ub=max(st.ub - n[1], 0), cons=True if n[1] > 0 else st.cons)
                return [out(TOP, s2, e2)]
            if name == "raw_read_ch":
                self.require(st.ub == 0, fnkey, bb, name, "raw read while the buffer may hold characters", st)
                e2 = dict(env)
                return [out(("ch", A.TOP, None), self._unlink_all(e2, st).copy(lb=0, ub=0, cons=True), e2)]
            if name == "raw_read_non_breakz_ch":
                self.require(st.ub == 0, fnkey, bb, name, "raw read while the buffer may hold characters", st)
                return [out(("rawopt",), st.copy(lb=0, ub=0))]
            if name == "buflen":
                self.site(fnkey, bb, name)["ok"] += 1
                return [out(("buflen",))]
            if name == "bufmaxlen":
                self.site(fnkey, bb, name)["ok"] += 1
                return [out(("i", B))]
            if name == "buf_is_empty":
                self.site(fnkey, bb, name)["ok"] += 1
                return [out(("isempty",))]
        # character predicates
        if key and key.startswith("saphyr_parser::char_traits::") and argv and argv[0] is not TOP and argv[0][0] == "ch" \
                and self.F.fns[key].d.get("output") == "bool":
            tm = argv[0][1] & A.pred(key)
            return [out(self._cb(argv[0][2], tm, argv[0][1] & ~tm))]
        if key and key.startswith("saphyr_parser::char_traits::") and argv and argv[0] is not TOP and argv[0][0] == "i" \
                and self.F.fns[key].d.get("output") == "bool":
            try:
                return [out(("i", int(A.fo.call(key, [argv[0][1]]))))]
            except (fold.Unsupported, fold.Diverged):
                return [out(TOP)]
        if key == "char::to_digit" and argv and argv[0] is not TOP and argv[0][0] == "ch":
            dm = argv[0][1] & A.mask(range(0x30, 0x3A))
            if argv[0][1] & ~dm == 0 and dm:
                return [out(("var", 1, TOP))]
            if dm == 0:
                return [out(("var", 0, TOP))]
            return [out(("cbopt", argv[0][2], dm, argv[0][1] & ~dm))]
        if key in ("char::is_ascii_digit",) and argv:
            a0 = argv[0]
            if a0 is not TOP and a0[0] == "ref":
                a0 = env.get(a0[1], TOP)
            if a0 is not TOP and a0[0] == "ch":
                dm = a0[1] & A.mask(range(0x30, 0x3A))
                return [out(self._cb(a0[2], dm, a0[1] & ~dm))]
        # String::push of a character
        if key == "std::string::String::push" and len(argv) > 1:
            rec = self.pushes.setdefault((fnkey, bb), {"mask": 0, "const": set(), "top": False})
            v = argv[1]
            if v is TOP:
                rec["top"] = True
            elif v[0] == "i":
                rec["const"].add(v[1])
            elif v[0] == "ch":
                rec["mask"] |= v[1]
            else:
                rec["top"] = True
            return [out(TOP)]
        # field-less enum comparisons (SkipTabs)
        if key in ("std::cmp::PartialEq::ne", "std::cmp::PartialEq::eq") and len(argv) == 2:
            a0, a1 = argv
            if a0 is not TOP and a0[0] == "ref":
                a0 = env.get(a0[1], TOP)
            if a1 is not TOP and a1[0] == "ref":
                a1 = env.get(a1[1], TOP)
            if a0 is not TOP and a1 is not TOP and a0[0] == "var" and a1[0] == "var" and a0[2] is TOP and a1[2] is TOP \
                    and "SkipTabs" in " ".join(fr.get("substs", [])) and a0[1] in (0, 1) and a1[1] in (0, 1):
                eq = a0[1] == a1[1]
                return [out(("i", int(eq if key.endswith("eq") else not eq)))]
        # token queue
        if key in ("std::collections::VecDeque::push_back", "std::collections::VecDeque::insert", "std::collections::VecDeque::push_front"):
            e = cfg.strip_reborrow(cfg.expr_operand(f, t["args"][0]))
            while e[0] == "ref":
                e = e[1]
            fl = cfg.expr_fields(e) if e[0] == "place" else None
            if fl and fl[0] == "tokens":
                return [out(TOP, st.copy(enq=True))]
            return [out(TOP)]
        if key == "std::iter::IntoIterator::into_iter" and argv and argv[0] is not TOP and argv[0][0] == "range":
            return [out(argv[0])]
        if key == "std::iter::Iterator::next" and argv and argv[0] is not TOP and argv[0][0] == "ref":
            l = argv[0][1]
            r = env.get(l, TOP)
            if r is not TOP and r[0] == "range":
                e2 = dict(env)
                if r[1] < r[2]:
                    e2[l] = ("range", r[1] + 1, r[2])
                    dv = ("var", 1, ("i", r[1]))
                else:
                    dv = ("var", 0, TOP)
                e2[dest["l"]] = dv
                return [(tg, e2, st)]
        if key == "std::ops::Try::branch" and argv and argv[0] is not TOP and argv[0][0] == "var":
            # Result: Ok (0) -> Continue (0), Err (1) -> Break (1).  Option: None (0) -> Break (1), Some (1) -> Continue (0)
            is_option = "option::Option" in (res or "") or any("option::Option" in (x or "") for x in (fr.get("substs") or []))
            idx = argv[0][1]
            return [out(("var", (1 - idx) if is_option else idx, argv[0][2] if is_option and idx == 1 else TOP))]
        if key == "std::ops::FromResidual::from_residual":
            return [out(("var", 1, TOP))]
        target = None
        if fr is not None:
            if res in self.F.fns:
                target = res
            elif key in self.F.fns:
                target = key
        if target is not None and target in self.touch:
            cal = self.F.fns[target]
            cargs = []
            for i in range(cal.arg_count):
                v = argv[i] if i < len(argv) else TOP
                if v is not TOP and (v[0] == "i" or (v[0] == "var" and v[2] is TOP)):
                    cargs.append(v)
                else:
                    cargs.append(TOP)
            cs = self.call_entries.setdefault(target, {})
            ckey = (fnkey, bb)
            if ckey not in cs:
                cs[ckey] = []
            if len(cs[ckey]) < 64 and (st.win, tuple(cargs)) not in cs[ckey]:
                cs[ckey].append((st.win, tuple(cargs)))
            exits = self.analyse(target, st, tuple(cargs), floor)
            outs = []
            allc = bool(exits)
            for (s2, rk) in exits:
                is_err = rk is not TOP and rk[0] == "var" and rk[1] == 1 and cal.d.get("output", "").startswith("std::result::Result")
                if not is_err:
                    allc = allc and s2.cons
                e2 = dict(env)
                for v in argv:
                    if v is not TOP and v[0] == "ref":
                        e2.pop(v[1], None)
                # consumption inside the callee invalidates the caller's links unless nothing was consumed
                s3 = s2
                if s2.cons or s2.win != st.win:
                    # the callee may have consumed: caller-side links are stale (the window itself comes from the callee's exit state)
                    for l, v in list(e2.items()):
                        if v[0] == "ch" and v[2] is not None:
                            e2[l] = ("ch", v[1], None)
                        elif v[0] == "cb" and v[1] is not None:
                            e2[l] = ("cb", None, v[2], v[3])
                        elif v[0] == "not" and v[1][0] == "cb":
                            e2[l] = ("not", ("cb", None, v[1][2], v[1][3]))
                s3 = s2.copy(cons=st.cons or s2.cons, enq=st.enq or s2.enq)
                s3.pend = frozenset() if s2.cons else st.pend
                if not dest["p"]:
                    if rk is TOP:
                        e2.pop(dest["l"], None)
                    else:
                        e2[dest["l"]] = rk
                outs.append((tg, e2, s3))
            prev = self.site_cons.get((fnkey, bb))
            self.site_cons[(fnkey, bb)] = allc if prev is None else (prev and allc)
            return outs
        e2 = dict(env)
        for v in argv:
            if v is not TOP and v[0] == "ref":
                e2.pop(v[1], None)
        if not dest["p"]:
            e2.pop(dest["l"], None)
        return [(tg, e2, st)]


def run_pass_b(F, B, lemmas, entries):
    E = E1B(F, B, lemmas)
    for k in entries:
        f = F.fns[k]
        st = St(0, INF, False, False, (E.A.TOP,) * W)
        E.analyse(k, st, tuple([TOP] * f.arg_count))
    return E
