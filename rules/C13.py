"""C13 — every JSON text loads with its JSON meaning.

Three necessary conditions, nothing more: (a) the scanner's escape table contains every RFC 8259 escape with the JSON code point and
\\u reads four hex digits; (b) the resolver maps true/false/null to Boolean(true)/Boolean(false)/Null and sends everything else through
str::parse::<i64> and then parse_f64 (JSON numbers are decimal/exponent numbers); (c) adjacent value after a JSON-like key: every
non-Err path of fetch_flow_scalar, and of fetch_flow_collection_end under flow_level > 0, records adjacent_value_allowed_at :=
mark.index, and fetch_next_token sends ':' to fetch_flow_value when flow_level > 0 and (is_flow(nc) or index == adjacent_value_allowed_at).
"""
from .common import *
from engine import tables
from engine.facts import is_local, op_const, const_value, op_place
from . import C04, C08

PID = "C13"
S = SCANNER + "::"
JSON_ESCAPES = {'"': 0x22, "\\": 0x5C, "/": 0x2F, "b": 8, "f": 0xC, "n": 0xA, "r": 0xD, "t": 9}


def adjacent_position_is_final(rep, F, rule="adjacent-value-position-is-final"):
    """`"a" :1`, `[a] :b`: inside a flow collection a ':' that is not followed by a blank is still the value indicator when it sits exactly
    where a quoted scalar or a closing bracket *and the blanks after it* ended (YAML 1.2.2 7.4.2: the JSON-like key may be separated
    from ':' by white space).  The position is recorded in adjacent_value_allowed_at; it must be the cursor's index after the last
    thing the fetcher consumes: no consuming call may follow the write."""
    n = 0
    for fk in (S + "fetch_flow_scalar", S + "fetch_flow_collection_end"):
        f = F.fns.get(fk)
        if f is None:
            continue
        for w in cfg.field_writes(f, SCANNER, "adjacent_value_allowed_at"):
            if w["kind"] != "assign":
                continue
            n += 1
            wb = w["bb"]
            after = cfg.blocks_reachable_from(f, [wb]) | {wb}
            late = []
            for bb, t, ck, fr in f.calls():
                if bb in after and ck and (ck.startswith((S + "skip", S + "scan_", S + "read_")) or (fr and fr.get("trait") == INPUT and fr["name"].startswith(("skip", "raw_read", "fetch_while")))):
                    late.append(short(ck))
            rep.check(not late, rule, short(fk), "the position after a JSON-like key is recorded before %s has run: blanks between the key and ':' are not "
                      "counted in, `[a] :b` / `\"a\" :1` stop being key/value pairs" % ", ".join(sorted(set(late))), site=site(f, w["stmt"]["sp"]))
    return n


def new_report(tier):
    return make_report(PID, tier, "other", [
        "RFC 8259 section 7 (string escapes) and section 3 (literal names), transcribed in this rule pack",
    ], "E4 table comparison (scanner escape table, resolver literal table and parser order) and E2 must-pass-through/dominance for the "
       "adjacent-value bookkeeping. These are necessary conditions; that an arbitrary JSON text scans to the right tokens (spacing, tabs after "
       "':', nesting) is behavioural and not decided -- DESIGN §6 records one rejected JSON shape ({\"a\":\\t1}).")


def run(tier):
    rep = new_report(tier)
    F = facts.load()
    named, hexlen, _, info = C04.scanner_escape_table(F)
    for ch, cp in sorted(JSON_ESCAPES.items()):
        rep.check(named.get(ord(ch)) == cp, "json-escape", "\\" + ch, "the JSON escape \\%s does not decode to U+%04X" % (ch, cp), site=info["fn"].span)
    rep.check(hexlen.get(ord("u")) == 4, "json-escape", "\\u", "\\u does not read four hex digits", site=info["fn"].span)
    # RFC 8259: the four digits of \uXXXX may be written in either case: is_hex / as_hex folded over 0-9, a-f, A-F
    from engine import fold as _fold
    badhex = []
    try:
        tab = _fold.predicate_table(F, "saphyr_parser::char_traits::is_hex")
        for chx in "0123456789abcdefABCDEF":
            if ord(chx) not in tab:
                badhex.append("is_hex(%r) is false" % chx)
            elif _fold.Folder(F).call("saphyr_parser::char_traits::as_hex", [ord(chx)]) != int(chx, 16):
                badhex.append("as_hex(%r) is not %d" % (chx, int(chx, 16)))
    except (_fold.Unsupported, _fold.Diverged) as ex:
        badhex.append("cannot fold: %s" % ex)
    rep.check(not badhex, "json-escape", "\\u-digits", "a hex digit of a \\u escape is refused or misread: %s" % "; ".join(badhex[:4]), site=info["fn"].span)
    # (b) literals and number path
    pfc = F.fn(C08.SC + "::parse_from_cow")
    found = {}
    for lit, bb, tt, ft in C08.string_matches(pfc):
        found[lit] = sorted(v for v in C08.arm_values(F, pfc, tt) if not v.startswith("call:"))
    for lit, want in (("true", "Boolean(true)"), ("false", "Boolean(false)"), ("null", "Null")):
        rep.check(found.get(lit) == [want], "json-literal", lit, "the JSON literal %s does not resolve to %s" % (lit, want), site=pfc.span, detail=found.get(lit))
    # number path: parse::<i64> then parse_f64, on the whole text, after the literal tests failed
    pi = [bb for bb, t, ck, fr in pfc.calls() if ck == "str::parse" and "i64" in fr["substs"] and not tables.find_calls(tables.normalize(cfg.expr_operand(pfc, t["args"][0], 12)), "::strip_prefix")]
    pf = [bb for bb, t, ck, fr in pfc.calls() if ck == "saphyr::loader::parse_f64"]
    okn = len(pi) == 1 and len(pf) == 1 and pf[0] in cfg.blocks_reachable_from(pfc, [pi[0]]) and pi[0] in pfc.dominators().get(pf[0], ())
    rep.check(okn, "json-number-path", "parse_from_cow", "numbers are no longer tried as i64 first and as a core-schema float second", site=pfc.span)
    # a JSON number of any length is a core-schema number: the float resolver may say "not a number" only where the lexical test failed
    from . import C08 as _C08
    _C08.rejects_only_by_guard(rep, F, F.fn("saphyr::loader::parse_f64"), "json-number-rejected-only-by-lexical-test")
    # ... and the lexical test itself accepts every JSON number (RFC 8259 section 6: -?(0|[1-9][0-9]*)(\.[0-9]+)?([eE][-+]?[0-9]+)?): the guard
    # is folded over every string of up to 5 characters over {0,1,.,e,E,+,-} that is a JSON number and over some long spellings
    import itertools, re as _re
    fk = "saphyr::loader::is_core_schema_number"
    if fk in F.fns:
        rx = _re.compile(r"-?(0|[1-9][0-9]*)(\.[0-9]+)?([eE][-+]?[0-9]+)?\Z")
        cases = [s_ for s_ in ("".join(t) for n_ in range(1, 6) for t in itertools.product("01.eE+-", repeat=n_)) if rx.match(s_)]
        cases += ["1e+21", "1E+21", "-1.5e+300", "6.02e+23", "1e-7", "1e0001", "2E-00010", "-0.0", "1" * 30, "0." + "1" * 40, "-" + "1" * 25 + ".5", "1" * 25 + "e+10", "10.25E-3"]
        refused, ncase = [], 0
        try:
            for sx in cases:
                ncase += 1
                if not _fold.Folder(F).call(fk, [("ref", ("str", sx))]):
                    refused.append(sx if len(sx) < 14 else sx[:6] + "...x%d" % len(sx))
            rep.check(not refused, "json-number-language", "is_core_schema_number", "the lexical test of floats refuses JSON numbers: %s (they load as strings)"
                      % ", ".join(repr(x) for x in refused[:6]), site=F.fns[fk].span, detail={"cases": ncase, "refused": len(refused)})
            rep.floor("JSON number spellings folded through the float guard", ncase, 100)
        except (_fold.Unsupported, _fold.Diverged) as ex:
            rep.extra["json_number_language_not_decided"] = str(ex)
    # (c) adjacent value
    for fk, cond in ((S + "fetch_flow_scalar", None), (S + "fetch_flow_collection_end", "flow_level")):
        f = F.fn(fk)
        ws = [w for w in cfg.field_writes(f, SCANNER, "adjacent_value_allowed_at") if w["kind"] == "assign"]
        okw = len(ws) == 1
        det = {}
        if okw:
            e = cfg.expr_operand(f, ws[0]["stmt"]["rv"]["a"], 6) if ws[0]["stmt"]["rv"]["k"] == "use" else ("?",)
            okw = cfg.expr_fields(e) == ["mark", "index"]
            det["value"] = cfg.expr_str(e)
            wb = ws[0]["bb"]
            errs = cfg.err_sink_blocks(f)
            pushes = [bb for bb, t, ck, fr in f.calls() if ck == "std::collections::VecDeque::push_back"]
            if cond is None:
                esc = cfg.flag_reach(f, 0, cfg.return_blocks(f), avoid={wb} | errs)
                okw = okw and esc is None
            else:
                # under flow_level > 0 the write is on every path; with flow_level == 0 it may be skipped
                g = False
                for b2 in f.dominators().get(wb, ()):
                    tt = f.blocks[b2]["term"]
                    if tt["k"] == "switch":
                        e2 = cfg.expr_operand(f, tt["discr"], 6)
                        if e2[0] == "bin" and e2[1] == "Gt" and cfg.expr_fields(e2[2]) == ["flow_level"] and e2[3] == ("const", 0):
                            # the true edge leads to the write unconditionally
                            tgt = tt["otherwise"]
                            esc = None if tgt == wb else cfg.flag_reach(f, tgt, cfg.return_blocks(f), avoid={wb} | errs)
                            # and every non-Err path to the token push passes this test
                            pre = cfg.flag_reach(f, 0, pushes, avoid={b2} | errs) if pushes else [0]
                            g = esc is None and pre is None
                okw = okw and g
            # the write happens after the scalar/bracket and its trailing whitespace were consumed, before the token is queued
            okw = okw and bool(pushes) and all(pb in cfg.blocks_reachable_from(f, [wb]) for pb in pushes)
        rep.check(okw, "adjacent-value-recorded", short(fk), "the position after a JSON-like key is no longer recorded in adjacent_value_allowed_at on every "
                  "accepting path: `\"a\":1` inside a flow collection stops being a key/value pair", site=f.span, detail=det)
    rep.floor("writes of the adjacent-value position", adjacent_position_is_final(rep, F), 2)
    # "regardless of how the JSON is spaced": the blanks after a quoted string are skipped with Input::skip_ws_to_eol before the scanner asks
    # what follows; the string back-end's override must skip what the provided body skips (C10's clause, run here as a premise)
    from . import C10 as _C10
    _C10.skip_ws_to_eol_agreement(rep, F, tier, "blank-skip-agreement")
    # (d) inside a flow collection a pending simple key is never given up because of its length or because it spans lines
    # (JSON member names and their ':' may be arbitrarily far apart): in stale_simple_keys every `possible = false` and every error
    # is dominated by the true edge of `flow_level == 0`
    ssk = F.fn(S + "stale_simple_keys")
    sinks = set(cfg.err_sink_blocks(ssk))
    for bi, si, s in cfg.stmts(ssk):
        if s["k"] == "assign" and cfg.place_fields(s["lhs"])[-1:] == ["possible"]:
            sinks.add(bi)
    okf = bool(sinks)
    for sb in sinks:
        g = False
        for b2 in ssk.dominators().get(sb, ()):
            t2 = ssk.blocks[b2]["term"]
            if t2["k"] != "switch":
                continue
            e2 = cfg.expr_operand(ssk, t2["discr"], 6)
            if e2[0] == "bin" and e2[1] in ("Eq", "Ne", "Gt") and cfg.expr_fields(e2[2]) == ["flow_level"] and e2[3] == ("const", 0):
                # the edge on which the level is zero: the true edge of `== 0`, the false edge of `!= 0` / `> 0`
                m2, other2 = cfg.switch_edge_blocks(ssk, b2)
                zero_edge = other2 if e2[1] == "Eq" else m2.get(0)
                if zero_edge is not None and (sb == zero_edge or cfg.dominated_by_edge(ssk, sb, b2, zero_edge)):
                    g = True
        okf = okf and g
    rep.check(okf, "flow-keys-never-stale", "stale_simple_keys", "a candidate key inside a flow collection can be given up (or rejected) because of its length or line span: "
              "a long or multi-line JSON member name stops being a key", site=ssk.span)
    # dispatch of ':' in fetch_next_token
    fnt = F.fn(S + "fetch_next_token")
    fv = [bb for bb, t, ck, fr in fnt.calls() if ck == S + "fetch_flow_value"]
    okd = len(fv) == 1
    conds = []
    if okd:
        for b2 in fnt.dominators().get(fv[0], ()):
            tt = fnt.blocks[b2]["term"]
            if tt["k"] == "switch":
                conds.append(cfg.expr_str(cfg.expr_operand(fnt, tt["discr"], 8)))
        s = " ".join(conds)
        okd = "Gt(*arg1.flow_level, 0)" in s and ("is_flow(" in s or "adjacent_value_allowed_at" in s)
        # both alternatives exist in the function
        allc = " ".join(cfg.expr_str(cfg.expr_operand(fnt, b["term"]["discr"], 8)) for b in fnt.blocks if not b["cleanup"] and b["term"]["k"] == "switch")
        okd = okd and "adjacent_value_allowed_at" in allc and "is_flow(" in allc
        # ':' must not have been sent to the plain-scalar fallback before: fetch_plain_scalar calls are not dominators of fetch_flow_value (trivially) and
        # the ':' switch value leads here
    rep.check(okd, "adjacent-value-dispatch", "fetch_next_token", "':' inside a flow collection is no longer dispatched to fetch_flow_value when it follows a JSON-like key",
              site=fnt.span, detail=conds[-4:])
    ffv = F.fn(S + "fetch_flow_value")
    allc = " ".join(cfg.expr_str(cfg.expr_operand(ffv, b["term"]["discr"], 8)) for b in ffv.blocks if not b["cleanup"] and b["term"]["k"] == "switch")
    rep.check("adjacent_value_allowed_at" in allc and any(ck == S + "fetch_value" for _, _, ck, _ in ffv.calls()), "adjacent-value-dispatch", "fetch_flow_value",
              "fetch_flow_value no longer consults adjacent_value_allowed_at before fetch_value", site=ffv.span)
    # a member name and its ':' may sit on different lines inside an explicit { }: the same-line requirement of fetch_value (an error guarded
    # by a comparison of two line numbers) applies to the implicit single-pair mapping of a flow sequence only, i.e. it is dominated by a
    # test whose definition excludes `flow_mapping_started`
    fvf = F.fn(S + "fetch_value")
    errs = cfg.err_sink_blocks(fvf)
    nline = 0
    for bi, b in enumerate(fvf.blocks):
        t = b["term"]
        if b["cleanup"] or t["k"] != "switch" or t["dty"] != "bool":
            continue
        e = cfg.expr_operand(fvf, t["discr"], 8)
        if not (e[0] == "bin" and all(x[0] == "place" and x[2][-1:] == [("field", "line")] for x in (e[2], e[3]))):
            continue
        if not any(sx in errs or any(q in errs for q in fvf.succs(sx)) for sx in fvf.succs(bi)):
            continue
        nline += 1
        scoped = False
        for d in fvf.dominators().get(bi, ()):
            td = fvf.blocks[d]["term"]
            if td["k"] != "switch" or td["dty"] != "bool" or td["vals"] != [0]:
                continue
            l = is_local(td["discr"])
            l = cfg.resolve_copy_chain(fvf, l) if l is not None else None
            if l is None:
                continue
            txt = " ".join(cfg.expr_str(cfg.expr_operand(fvf, dd[3]["rv"].get("a", {}), 8)) if dd[0] == "stmt" and dd[3]["rv"]["k"] in ("use", "un") else ""
                           for dd in cfg.defs_of_local(fvf, l))
            if "flow_mapping_started" in txt and cfg.dominated_by_edge(fvf, bi, d, td["otherwise"]):
                scoped = True
        rep.check(scoped, "multiline-key-only-implicit", "fetch_value#line-test%d" % nline,
                  "fetch_value rejects a key whose ':' is on a later line without first establishing that the mapping is the implicit single pair of a flow "
                  "sequence (a test that excludes flow_mapping_started): a JSON object below an array may have a line break between a member name and ':'",
                  site=fvf.span)
    rep.floor("same-line requirements in fetch_value", nline, 1)
    # the position at which an adjacent value is allowed is an absolute index: every comparison with it uses the cursor's index
    from . import units
    units.check(rep, F, rule="adjacent-value-coordinate")
    return rep
