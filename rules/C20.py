"""C20 — mapping lookups, equality and hashing are mutually consistent.

Clauses decided for the four node types: (a) contains_mapping_key / as_mapping_get / Index<&str> all inspect the result of
as_mapping_get_impl (the _mut siblings of as_mapping_get_mut_impl); (b) Index panics exactly on the None edge and returns the
payload on the Some edge; (c) the probe is Value(String(key.into())), hashed with Hash::hash into a hasher built from the same
map's BuildHasher, finished, and passed to raw_entry(_mut)().from_hash of that same map, with an equality closure that can only
match resolved strings; the two impl siblings agree; (d) Index<usize> looks up Value(Integer(i64::try_from(idx))) in mappings
and get(idx) in sequences, panicking exactly on None.  Eq/Hash agreement rests on both being derived (or delegating to `data`).
"""
from .common import *
from engine import tables
from engine.facts import is_local, op_const, const_value, op_place

PID = "C20"
SCALARS = {"saphyr::yaml::Yaml": "saphyr::scalar::Scalar", "saphyr::annotated::yaml_data::YamlData": "saphyr::scalar::Scalar",
           "saphyr::yaml_owned::YamlOwned": "saphyr::scalar::ScalarOwned", "saphyr::annotated::yaml_data_owned::YamlDataOwned": "saphyr::scalar::ScalarOwned"}


def new_report(tier):
    return make_report(PID, tier, "proof", [
        "hashlink::LinkedHashMap hashes stored keys with Hash::hash through its own BuildHasher; raw_entry().from_hash(h, eq) returns an entry "
        "whose stored hash is h and for which eq holds (hash collisions inside hashlink are not modelled)",
        "derived Hash/PartialEq are structural; Cow<str>, String and &str hash and compare as str; OrderedFloat is consistent (crate)",
    ], "E3/E4 over the MIR of the lookup functions: delegation to the single implementation, panic reachability only from the None edge, "
       "shape and provenance of the probe, hasher and hash, sibling agreement of _impl/_mut_impl, variant and callee facts of Index<usize>. "
       "Value-level agreement on a concrete mapping is not decided.")


def full(f, op):
    return tables.normalize(cfg.expr_operand(f, op, 24))


def run(tier):
    rep = new_report(tier)
    F = facts.load()
    for ty in DATA_TYPES:
        st = short(ty)
        impl = F.fn(ty + "::as_mapping_get_impl")
        impl_mut = F.fn(ty + "::as_mapping_get_mut_impl")
        # (a) delegation
        for name, target in (("contains_mapping_key", impl), ("as_mapping_get", impl), ("as_mapping_get_mut", impl_mut)):
            f = F.fn(ty + "::" + name)
            cs = [(bb, t) for bb, t, ck, fr in f.calls() if ck == target.key]
            okd = len(cs) == 1
            det = None
            if okd:
                t = cs[0][1]
                a0, a1 = full(f, t["args"][0]), full(f, t["args"][1])
                okd = a0 == ("param", 1) and a1 == ("param", 2)
                # result derives from the call: _0 is the call's result, or is_some(&result)
                r = None
                for d in cfg.defs_of_local(f, 0):
                    r = d
                e0 = tables.normalize(cfg.expr_local(f, 0, 12))
                if name == "contains_mapping_key":
                    okd = okd and e0[0] == "call" and e0[1] == "std::option::Option::is_some" and tables.find_calls(e0, target.name)
                else:
                    okd = okd and e0[0] == "call" and e0[1] == target.key
                others = [ck for _, _, ck, _ in f.calls() if ck not in (target.key, "std::option::Option::is_some")]
                okd = okd and not others
                det = {"result": cfg.expr_str(e0), "other_calls": others}
            rep.check(okd, "single-implementation", "%s::%s" % (st, name), "%s no longer returns/inspects the result of %s(self, key)" % (name, target.name),
                      site=f.span, detail=det)
        # Index<&str>
        for tr, name, target in (("std::ops::Index<&str>", "index", impl), ("std::ops::IndexMut<&str>", "index_mut", impl_mut)):
            f = F.fn("<%s as %s>::%s" % (ty, tr, name))
            cs = [(bb, t) for bb, t, ck, fr in f.calls() if ck == target.key]
            oki = len(cs) == 1 and full(f, cs[0][1]["args"][0]) == ("param", 1) and full(f, cs[0][1]["args"][1]) == ("param", 2)
            rep.check(oki, "single-implementation", "%s::%s<&str>" % (st, name), "string indexing does not go through %s(self, idx)" % target.name, site=f.span)
            if not oki:
                continue
            cb, ct = cs[0]
            # (b) switch on the discriminant of the result
            res = ct["dest"]["l"]
            sw = [(bb, p) for bb, p, adt in tables.discr_switches(f) if adt == "std::option::Option" and p["l"] == res and not p["p"]]
            okb = len(sw) == 1
            det = None
            if okb:
                bb, p = sw[0]
                m, other = cfg.switch_edge_blocks(f, bb)
                some_tg = m.get(1, other)
                none_tg = m.get(0, other)
                div = cfg.diverging_blocks(f)
                rets = set(cfg.return_blocks(f))
                r_some = cfg.blocks_reachable_from(f, [some_tg])
                r_none = cfg.blocks_reachable_from(f, [none_tg])
                # Some edge: returns, no panic; result is the payload
                e0 = tables.normalize(cfg.expr_local(f, 0, 10))
                payload_ok = e0[0] == "place" and e0[1][0] == "call" and e0[1][1] == target.key and [x for x in e0[2] if x != "deref"] == [("downcast", "Some"), ("field", "0")]
                okb = bool(rets & r_some) and not (div & r_some) and not (rets & r_none) and bool(div & r_none) and payload_ok
                det = {"some_reaches_panic": sorted(div & r_some), "none_returns": sorted(rets & r_none), "result": cfg.expr_str(e0)}
            rep.check(okb, "panic-exactly-on-absence", "%s::%s<&str>" % (st, name),
                      "string indexing does not (return the found value on Some and panic on None, and only then)", site=f.span, detail=det)
            if name == "index_mut":
                # the only other panic is the not-a-mapping assert *before* the lookup
                pre = [b for b in cfg.diverging_blocks(f) if b not in cfg.blocks_reachable_from(f, [cb])]
                rep.ok("index-mut-precheck", "%s::index_mut<&str>" % st, {"panics_before_lookup": len(pre)})
        # (c) probe / hasher / hash / same map, for both siblings
        summaries = []
        for f0, re_name in ((impl, "::raw_entry"), (impl_mut, "::raw_entry_mut")):
            # the lookup may sit in the function itself or in a closure it hands to an Option combinator (`as_mapping().and_then(|m| ..)`):
            # analyse the body that contains it, with captured variables and the combinator's payload expressed in the function's terms
            f, lift = _lookup_body(F, f0)
            fh = [(bb, t) for bb, t, ck, fr in f.calls() if ck and ck.endswith("::from_hash")]
            if len(fh) != 1:
                rep.bad("probe", "%s::%s" % (st, f0.name), "expected exactly one raw-entry from_hash lookup", site=f0.span)
                continue
            fullc = lambda fn_, op_, _l=lift: tables.normalize(_l(cfg.expr_operand(fn_, op_, 24)))
            t = fh[0][1]
            recv, h, eqc = fullc(f, t["args"][0]), fullc(f, t["args"][1]), fullc(f, t["args"][2])
            re = recv if recv[0] == "call" and recv[1].endswith(re_name) else None
            map_expr = re[2][0] if re else None
            # the hash: either hash_str_as_yaml_string(key, build_hasher(hasher(M))) or finish(hasher) with Hash::hash(needle, hasher) before
            probe_ok = hasher_ok = False
            det = {"map": cfg.expr_str(map_expr) if map_expr else None, "hash": cfg.expr_str(h)[:300]}
            bh = tables.find_calls(h, "::build_hasher")
            helper = h[0] == "call" and h[1].endswith("::hash_str_as_yaml_string")
            if helper:
                hf = F.fn(h[1])
                hasher_ok = len(bh) == 1 and _bare(_map_of_hasher(bh[0])) == _bare(map_expr) and h[2][0] == ("param", 2)
                probe_ok = _helper_ok(F, rep, hf, ty)
            else:
                # finish(&hasher_local) ; hasher_local = build_hasher(hasher(M)) ; Hash::hash(&needle, &mut hasher_local) in between
                fin = h[0] == "call" and h[1].endswith("::finish") and "Hasher" in h[1]
                hl = None
                for bb2, t2, ck2, fr2 in f.calls():
                    if ck2 and ck2.endswith("Hash::hash"):
                        needle = fullc(f, t2["args"][0])
                        hl = cfg.borrowed_local(f, t2["args"][1])
                        want = _probe_shape(needle, ty)
                        probe_ok = want
                        det["needle"] = cfg.expr_str(needle)[:300]
                if fin and hl is not None:
                    ds = cfg.defs_of_local(f, hl)
                    if len(ds) == 1 and ds[0][0] == "call":
                        be = tables.normalize(cfg.expr_local(f, hl, 20))
                        hasher_ok = be[0] == "call" and be[1].endswith("::build_hasher") and _bare(_map_of_hasher(be)) == _bare(map_expr)
                        # finish() is applied to the same hasher local
                        fl = None
                        for bb2, t2, ck2, fr2 in f.calls():
                            if ck2 and ck2.endswith("Hasher::finish"):
                                fl = cfg.borrowed_local(f, t2["args"][0])
                        hasher_ok = hasher_ok and fl == hl
            rep.check(re is not None and map_expr is not None and hasher_ok, "same-map-hasher", "%s::%s" % (st, f0.name),
                      "the probe is not hashed with a hasher built from the very map that is searched (hash of the probe and stored hashes then differ)",
                      site=f0.span, detail=det)
            rep.check(probe_ok, "probe-shape", "%s::%s" % (st, f0.name), "the probe is not Value(String(key.into())) hashed through Hash::hash", site=f0.span, detail=det)
            # equality closure
            okq = eqc[0] == "closure"
            qd = None
            if okq:
                c = F.fn(eqc[1])
                inner = [c] + [g for k2, g in F.fns.items() if k2.startswith(c.key + "::")]
                calls = [ck for g in inner for _, _, ck, _ in g.calls()]
                plain = any(ck and ck.endswith("::as_str") for ck in calls) and any(ck and ck.endswith("PartialEq::eq") for ck in calls)
                annotated = any(ck and (ck.endswith("PartialEq::eq") or ck.endswith("PartialEq::ne")) for ck in calls) and len(calls) == 1
                okq = plain or annotated
                qd = calls
            rep.check(okq, "equality-closure", "%s::%s" % (st, f0.name),
                      "the lookup's equality test is neither `k.as_str() == key` nor `*candidate == needle`", site=f0.span, detail=qd)
            summaries.append(sorted(_canon(ck) for _, _, ck, _ in f.calls() if ck and not ck.endswith(("::map", "::into_mut", "::as_mapping", "::as_mapping_mut", "Into::into", "::to_string", "::to_owned",
                                                                                                           "Try>::branch", "Try::branch", "::from_residual", "::from_output"))))
        if len(summaries) == 2:
            rep.check(summaries[0] == summaries[1], "sibling-agreement", "%s::as_mapping_get(_mut)_impl" % st,
                      "the shared and mutable lookup implementations no longer make the same calls (hashing, entry lookup)",
                      detail={"impl": summaries[0], "impl_mut": summaries[1]})
        # (d) Index<usize>
        for tr, name in (("std::ops::Index<usize>", "index"), ("std::ops::IndexMut<usize>", "index_mut")):
            f = F.fn("<%s as %s>::%s" % (ty, tr, name))
            sw = [(bb, p, adt) for bb, p, adt in tables.discr_switches(f) if adt == ty]
            okx = len(sw) >= 1
            det = {}
            if okx:
                bb, p, adt = sw[0]
                names = tables.variant_names(F, ty)
                m, other = cfg.switch_edge_blocks(f, bb)
                byname = {names[v]: tg for v, tg in m.items()}
                seq_blocks = cfg.blocks_reachable_from(f, [byname.get("Sequence", other)], avoid=[x for n, x in byname.items() if n != "Sequence"]) if "Sequence" in byname else set()
                map_blocks = cfg.blocks_reachable_from(f, [byname.get("Mapping", other)]) if "Mapping" in byname else set()
                seq_calls = [ck for b2, t, ck, fr in f.calls() if b2 in seq_blocks and b2 not in map_blocks]
                map_calls = [(b2, t, ck) for b2, t, ck, fr in f.calls() if b2 in map_blocks and b2 not in seq_blocks]
                getn = "get_mut" if name == "index_mut" else "get"
                seq_ok = any(ck and ck.endswith("::" + getn) for ck in seq_calls) and any(ck and ck.endswith("::unwrap_or_else") for ck in seq_calls)
                mck = [ck for _, _, ck in map_calls]
                map_ok = any(ck and "try_from" in ck for ck in mck) and any(ck and ck.endswith("LinkedHashMap::" + getn) for ck in mck) \
                    and sum(1 for ck in mck if ck and ck.endswith("::unwrap_or_else")) >= 2
                # the key handed to get(): Value(Integer(try_from(idx)...))
                keyok = False
                for b2, t, ck in map_calls:
                    if ck and ck.endswith("LinkedHashMap::" + getn):
                        ke = full(f, t["args"][1])
                        s = cfg.expr_str(ke)
                        keyok = "::Value(" in s.replace(" ", "") or "Value(" in s
                        keyok = keyok and "Integer(" in s and "try_from" in s and "arg2" in s
                        det["key"] = s[:240]
                # unwrap_or_else closures diverge
                ucl = [c for c in F.closures_of(f.key)]
                div_ok = all(cfg.diverging_blocks(c) and not cfg.return_blocks(c) for c in ucl) and len(ucl) >= 3
                okx = seq_ok and map_ok and keyok and div_ok and "Sequence" in byname and "Mapping" in byname
                det.update({"sequence_calls": seq_calls, "mapping_calls": mck, "closures_diverge": div_ok})
            rep.check(okx, "integer-index", "%s::%s<usize>" % (st, name),
                      "integer indexing is not get(idx) on sequences / get(Value(Integer(i64::try_from(idx)))) on mappings with a panic exactly on None",
                      site=f.span, detail=det)
    # Eq/Hash agreement facts (shared with C19)
    for ty in DATA_TYPES + ["saphyr::scalar::Scalar", "saphyr::scalar::ScalarOwned"]:
        d = {im["trait"]: im["derived"] for im in F.impls if im.get("adt") == ty and im.get("trait") in ("std::cmp::PartialEq", "std::hash::Hash", "std::cmp::Eq")}
        rep.check(d.get("std::cmp::PartialEq") is True and d.get("std::hash::Hash") is True, "derived-eq-hash", short(ty),
                  "PartialEq and Hash are not both derived: equal nodes may hash differently", detail=d)
    # every type of the two crates that can be hashed (and so can sit inside a node that is used as a mapping key - Tag, ScalarStyle ...)
    # derives both or neither of PartialEq / Hash; the only hand-written pairs are the marked node types, checked field by field below
    by = {}
    for im in F.impls:
        if im.get("trait") in ("std::hash::Hash", "std::cmp::PartialEq") and (im.get("adt") or "").startswith(("saphyr::", "saphyr_parser::")):
            by.setdefault(im["adt"], {})[im["trait"]] = im["derived"]
    nh = 0
    for adt, d in sorted(by.items()):
        if "std::hash::Hash" not in d:
            continue
        nh += 1
        if adt.endswith(("::MarkedYaml", "::MarkedYamlOwned")):
            continue
        rep.check(d.get("std::hash::Hash") is True and d.get("std::cmp::PartialEq") is True, "derived-eq-hash", short(adt),
                  "a hashable type has a hand-written PartialEq or Hash (the other one derived): values that compare equal can hash differently, and "
                  "nodes containing them miss in mapping lookups", detail=d)
    rep.floor("hashable types of the two crates", nh, 8)
    # the marked node types implement Eq and Hash by hand: both must consult the same thing (the `data` field, whose type derives both)
    from . import C19
    C19.span_blind(rep, F, "eq-hash-same-fields")
    return rep


def _place(base, rest):
    rest = list(rest)
    while rest:
        if base[0] == "ref" and rest[0] == "deref":
            base, rest = base[1], rest[1:]
        elif base[0] == "place":
            return ("place", base[1], list(base[2]) + rest)
        else:
            return ("place", base, rest)
    return base


def _lookup_body(F, f):
    """(function that contains the raw-entry lookup, lifting of its expressions into f's terms)"""
    if any(ck and ck.endswith("::from_hash") for _, _, ck, _ in f.calls()):
        return f, (lambda e: e)
    for g in F.closures_of(f.key):
        if g.d.get("closure_of") != f.key or not any(ck and ck.endswith("::from_hash") for _, _, ck, _ in g.calls()):
            continue
        caps, payload = None, None
        for bi, si, st in cfg.stmts(f):
            if st["k"] == "assign" and st["rv"]["k"] == "agg" and st["rv"].get("agg") == "closure" and st["rv"].get("def") == g.key:
                caps = [cfg.expr_operand(f, o, 16) for o in st["rv"]["ops"]]
                cl = st["lhs"]["l"]
                for bb, t, ck, fr in f.calls():
                    if ck and ck.startswith("std::option::Option::") and any(is_local(a) == cl for a in t["args"][1:]):
                        payload = _place(cfg.expr_operand(f, t["args"][0], 16), [("downcast", "Some"), ("field", "0")])
        if caps is None:
            continue

        def lift(e, caps=caps, payload=payload):
            if isinstance(e, list):
                return [lift(x) for x in e]
            if not isinstance(e, tuple):
                return e
            if e == ("param", 2) and payload is not None:
                return payload
            if e[0] == "place" and e[1] == ("param", 1):
                proj = list(e[2])
                if proj and proj[0] == "deref":
                    proj = proj[1:]
                if proj and isinstance(proj[0], tuple) and proj[0][0] == "field" and int(proj[0][1]) < len(caps):
                    return _place(lift_id(caps[int(proj[0][1])]), proj[1:])
            return tuple(lift(x) for x in e)

        def lift_id(e):
            return e
        return g, lift
    return f, (lambda e: e)


def _canon(ck):
    return ck.replace("raw_entry_mut", "raw_entry").replace("as_mapping_mut", "as_mapping").replace("RawEntryBuilderMut", "RawEntryBuilder")


def _bare(e):
    """strip every reference/dereference: identity of the place only"""
    if not isinstance(e, tuple) or not e:
        return e
    if e[0] == "ref":
        return _bare(e[1])
    if e[0] == "place":
        root = _bare(e[1])
        trail = [x for x in e[2] if x != "deref"]
        if root[0] == "place":
            return ("place", root[1], root[2] + trail)
        return ("place", root, trail) if trail else root
    if e[0] == "call":
        return ("call", e[1], tuple(_bare(a) for a in e[2]))
    return e


def _map_of_hasher(bh):
    """build_hasher(hasher(M)) -> M"""
    a = bh[2][0] if bh[2] else None
    if a and a[0] == "call" and a[1].endswith("LinkedHashMap::hasher"):
        return a[2][0]
    return None


def _probe_shape(e, ty):
    """Value(String(into(key))) possibly wrapped by HashKey::from(..)"""
    s = cfg.expr_str(e).replace(" ", "")
    dt = ty.split("::")[-1]
    sc = SCALARS[ty].split("::")[-1]
    core = "%s::Value(%s::String(" % (dt, sc)
    return core in s and "arg2" in s and ("::into(" in s or "::from(" in s or "to_owned" in s or "to_string" in s)


def _helper_ok(F, rep, hf, ty):
    """hash_str_as_yaml_string(key, hasher): builds the probe from key, Hash::hash(&probe, &mut hasher), returns hasher.finish()"""
    hh = [(bb, t) for bb, t, ck, fr in hf.calls() if ck and ck.endswith("Hash::hash")]
    fin = [(bb, t) for bb, t, ck, fr in hf.calls() if ck and ck.endswith("Hasher::finish")]
    if len(hh) != 1 or len(fin) != 1:
        return False
    needle = tables.normalize(cfg.expr_operand(hf, hh[0][1]["args"][0], 20))
    hl = cfg.strip_reborrow(cfg.expr_operand(hf, hh[0][1]["args"][1], 6))
    fl = cfg.strip_reborrow(cfg.expr_operand(hf, fin[0][1]["args"][0], 6))
    s = cfg.expr_str(needle).replace(" ", "")
    dt = hf.key.split("::")[1]
    shape = "::Value(" in s or "Value(" in s
    shape = shape and "String(" in s and "arg1" in s
    same_hasher = (hl == ("ref", ("param", 2)) or hl == ("param", 2)) and (fl == ("ref", ("param", 2)) or fl == ("param", 2))
    ret = tables.normalize(cfg.expr_local(hf, 0, 8))
    return shape and same_hasher and ret[0] == "call" and ret[1].endswith("::finish") and "Hasher" in ret[1]
