// C19: parse_representation(_recursive) take() the node and forget to put it back.
use saphyr::{LoadableYamlNode, Scalar, Yaml};
fn main() {
    let mut bad = 0;
    let mut v = Yaml::Value(Scalar::Integer(3));
    v.parse_representation();
    println!("resolved leaf after parse_representation: {v:?}");
    if v != Yaml::Value(Scalar::Integer(3)) { bad += 1; }
    let mut docs = Yaml::load_from_str("[1, two, 3.0]").unwrap();
    let eager = docs[0].clone();
    docs[0].parse_representation_recursive();
    println!("sequence after parse_representation_recursive: {:?}", docs[0]);
    if docs[0] != eager { bad += 1; }
    if bad > 0 { println!("DESTROYED"); std::process::exit(1) } else { println!("PRESERVED") }
}
