use saphyr_parser::{Event, Parser};
fn show(s: &str) {
    let mut out = vec![];
    for e in Parser::new_from_str(s) {
        match e { Ok((Event::Scalar(v, st, _, _), _)) => out.push(format!("{:?}/{:?}", v, st)), Err(e) => out.push(format!("ERR {e}")), _ => {} }
    }
    println!("{:?} -> {}", s, out.join(" , "));
}
fn main() {
    for s in ["a: |\n", "a: |", "a: |\n\n", "a: |\n\n\n", "a: |+\n", "a: |+\n\n", "a: |+", "a: |-\n\n", "a: >\n", "a: >\n\n", "a: |\n\nb: 1\n", "a: |+\n\nb: 1\n", "a: >\n\nb: 1\n","- |\n","- |\n ", "- |\n \n", "a: |\n  \n"] { show(s); }
}
