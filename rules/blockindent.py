"""Explicit indentation indicator of a block scalar (used by C05): the table of the indentation handed to the content scanner.

"The content indentation is the explicit indicator or else that of the first non-empty line."  In scan_block_scalar the header leaves
the digit in one local (0 = no indicator); between the header and the first content line the function either hands an indentation
to skip_block_scalar_indent (explicit) or asks skip_block_scalar_first_line_indent to detect it.  E8 enumerates the paths of that
region with two symbols - the digit and the indentation of the enclosing block (Scanner.indent, -1 at the root) - and checks:

   digit = 0                 -> detection is asked for, starting from 0
   digit = m, parent n >= 0  -> the content scanner is given n + m
   digit = m, at the root    -> the content scanner is given m     (the indicator itself; libyaml's reading, and the property's words)

No other value may reach either call.  The digit local, the indentation local and the region are found by use (the local lent
mutably to the detector; the common dominator of its writers), not by name.
"""
from .common import *
from engine import e7, e8
from engine.e8 import Unknown
from engine.facts import op_const, const_value

FN = SCANNER + "::scan_block_scalar"
EXPL = SCANNER + "::skip_block_scalar_indent"
DETECT = SCANNER + "::skip_block_scalar_first_line_indent"


class IndentRec(e8.SymRec):
    def __init__(self, f):
        super().__init__(f)
        self.domains = {("self", "indent"): range(-1, 7)}

    def _self_indent(self, v):
        return v[0] == "proj" and v[2] == "field" and v[3] == "indent" and v[1][0] == "proj" and v[1][2] == "deref" and v[1][1] == ("in", 1)

    def leaf(self, v):
        return ("self", "indent") if self._self_indent(v) else None

    def interp(self, v, env):
        if self._self_indent(v) and ("self", "indent") in env:
            return env[("self", "indent")]
        if v[0] == "cast" and v[1] in ("isize", "i64", "i32") :
            return None
        return None

    def call_effect(self, bi, t, ck, st):
        if ck == EXPL:
            st["@expl"] = e8.operand_value(self.f, t["args"][1], st)
            return "stop"
        if ck == DETECT:
            v = e8.operand_value(self.f, t["args"][1], st)
            st["@detect"] = v[1] if v[0] == "ref" else v
            return "stop"
        if ck.endswith("ScanError::new_str") or ck.endswith("ScanError::new"):
            return ("op", ("err",))
        return "transparent"


def check(rep, F, rule="explicit-indent-table"):
    f = F.fn(FN)
    inloop = set().union(*[body for h, body in f.natural_loops()]) if f.natural_loops() else set()
    ca = [bb for bb, t, ck, fr in f.calls() if ck == EXPL and bb not in inloop]
    cd = [(bb, t) for bb, t, ck, fr in f.calls() if ck == DETECT]
    if len(ca) != 1 or len(cd) != 1:
        raise facts.MissingAnchor("scan_block_scalar: expected one call each of skip_block_scalar_indent and skip_block_scalar_first_line_indent, found %d and %d" % (len(ca), len(cd)))
    indent_l = cfg.borrowed_local(f, cd[0][1]["args"][1])
    if indent_l is None:
        raise facts.MissingAnchor("scan_block_scalar: the indentation lent to the detector is not a local")
    dom = f.dominators()
    reach_to = lambda b: b in dom and True
    # writers of the indentation local that can still reach the two calls, other than the constant initialisation
    goal = {ca[0], cd[0][0]}
    can_reach = set()
    work = list(goal)
    while work:
        b = work.pop()
        if b in can_reach:
            continue
        can_reach.add(b)
        work.extend(p for p in f.preds(b) if p not in can_reach)
    wr, init = [], []
    for bi, si, s in cfg.stmts(f):
        if s["k"] == "assign" and not s["lhs"]["p"] and s["lhs"]["l"] == indent_l and bi in can_reach:
            (init if s["rv"]["k"] == "use" and op_const(s["rv"]["a"]) is not None else wr).append((bi, s))
    if not wr:
        raise facts.MissingAnchor("scan_block_scalar: the indentation local is never computed before the content scanner is called")
    common = set.intersection(*[dom[b] for b in [w[0] for w in wr] + list(goal)])
    # the lowest common dominator that ends in a switch
    start = max((b for b in common if f.blocks[b]["term"]["k"] == "switch"), key=lambda b: len(dom[b]), default=None)
    if start is None:
        raise facts.MissingAnchor("scan_block_scalar: no test dominates the computation of the explicit indentation")
    inits = {const_value(op_const(s["rv"]["a"])) for bi, s in init if bi in dom[start]}
    rec = IndentRec(f)
    ps = e7.paths(f, start, rec)
    # the digit: the one other loop-free integer input of the region
    ins = set()
    for p in ps:
        for k in p["guards"]:
            if k[0] == "in":
                ins.add(k)
        for key in ("@expl", "@detect"):
            if key in p["state"]:
                ins |= {x for x in e8.symbols(p["state"][key], rec.leaf) if x[0] == "in"}
        for k, v in p["state"].items():
            if isinstance(k, tuple) and k[0] == "@cond":
                ins |= {x for x in e8.symbols(v, rec.leaf) if x[0] == "in"}
    ins.discard(("in", indent_l))
    ins = {x for x in ins if f.locals[x[1]]["ty"] in ("usize", "u32", "u8", "isize")}
    if len(ins) != 1:
        raise facts.MissingAnchor("scan_block_scalar: expected one digit local feeding the explicit indentation, found %s" % sorted(f.locals[x[1]].get("name") or x[1] for x in ins))
    (digit,) = ins
    rep.check(inits == {0}, rule, "starts-from-zero", "the indentation local must be 0 when the header has been read (its initialisers before the region: %s)" % sorted(inits), site=f.span)
    n = 0
    for parent in range(-1, 7):
        for m in range(0, 10):
            env = {("self", "indent"): parent, digit: m, ("in", indent_l): 0}
            ms = [p for p in ps if e8.matches(p, env, rec.interp) and not any(o == ("err",) for o in p["ops"])]
            got = set()
            for p in ms:
                st = p["state"]
                try:
                    if "@expl" in st:
                        got.add(("given", e8.evaluate(st["@expl"], env, rec.interp)))
                    elif "@detect" in st:
                        got.add(("detect", e8.evaluate(st["@detect"], env, rec.interp)))
                    else:
                        got.add(("other", p["why"]))
                except Unknown as ex:
                    got.add(("unknown", str(ex)))
            want = ("detect", 0) if m == 0 else ("given", (parent if parent >= 0 else 0) + m)
            n += 1
            inst = "%s,%s" % ("root" if parent < 0 else "nested", "no indicator" if m == 0 else "indicator")
            rep.check(got == {want}, rule, inst, "block scalar %s, indicator %s: the content scanner must be %s; the code gives %s"
                      % ("at the root" if parent < 0 else "inside a block indented by %d" % parent, m or "absent",
                         "asked to detect the indentation" if m == 0 else "given the indentation %d" % want[1], sorted(got, key=str)), site=f.span,
                      detail={"parent_indent": parent, "indicator": m})
    rep.extra["explicit_indent"] = {"paths": len(ps), "cases": n, "digit_local": f.locals[digit[1]].get("name"), "indent_local": f.locals[indent_l].get("name"), "start": start}
    return n
