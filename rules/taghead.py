"""The head of a '!name' tag (used by C16).

scan_tag reads '!name' with scan_tag_handle; when what it read does not end in '!' it was not a handle but the beginning of the suffix
of the primary handle, and scan_tag_shorthand_suffix(head = what was read) must put it back in front of the suffix: everything after
the leading '!'.  The part of the function before its loop is tabulated (E8) over the length of `head`:

    len(head) >= 2  ->  the text of head is appended to the result, minus exactly one leading character
    len(head) <= 1  ->  there is nothing to append (whether an append of the empty remainder happens is immaterial)

A guard that skips the copy for a short head drops tag names of that length ('!a' becomes '!').
"""
from .common import *
from engine import e7, e8
from engine.e8 import Unknown

FN = SCANNER + "::scan_tag_shorthand_suffix"
HEAD = ("in", 4)          # self, _directive, _is_secondary, head, mark


class HeadRec(e8.SymRec):
    def __init__(self, f, head):
        super().__init__(f)
        self.head = head
        self.domains = {("len",): range(0, 7)}

    def _is_head(self, v):
        while v[0] in ("ref",) or (v[0] == "proj" and v[2] == "deref"):
            v = v[1]
        return v == ("in", self.head)

    def _len(self, v):
        return v[0] == "call" and v[1] in ("str::len",) and len(v[2]) == 1 and self._is_head(v[2][0])

    def leaf(self, v):
        return ("len",) if self._len(v) else None

    def interp(self, v, env):
        if self._len(v) and ("len",) in env:
            return env[("len",)]
        if v[0] == "call" and v[1] == "str::is_empty" and len(v[2]) == 1 and self._is_head(v[2][0]) and ("len",) in env:
            return int(env[("len",)] == 0)
        return None

    def _from_head(self, v, depth=0):
        """(True, characters skipped) when v is (a view of) head with a known number of leading characters removed"""
        if depth > 8:
            return None
        if self._is_head(v):
            return 0
        while v[0] == "ref" or (v[0] == "proj" and v[2] == "deref"):
            v = v[1]
        if v[0] == "call" and v[1]:
            nm = v[1]
            a = v[2]
            if nm == "str::chars" or nm.endswith("IntoIterator>::into_iter") or nm.endswith("::as_str") or nm.endswith("Deref>::deref"):
                return self._from_head(a[0], depth + 1)
            if nm.endswith("Iterator::skip") or nm.endswith("Iterator>::skip"):
                k = self._from_head(a[0], depth + 1)
                return None if k is None or a[1][0] != "const" else k + a[1][1]
            if nm.endswith("Index::index") or nm.endswith("::index") or nm == "str::get_unchecked":
                k = self._from_head(a[0], depth + 1)
                r = a[1]
                if k is not None and r[0] == "adt" and r[1].endswith("RangeFrom") and r[4] and r[4][0][0] == "const":
                    return k + r[4][0][1]
                return None
            if nm in ("str::strip_prefix", "str::trim_start_matches") and len(a) == 2 and a[1] == ("const", ("char", 33)):
                k = self._from_head(a[0], depth + 1)
                return None if k is None else k + 1      # head starts with '!' whenever it is not empty (scan_tag_handle)
        return None

    def call_effect(self, bi, t, ck, st):
        f = self.f
        nm = ck.rsplit("::", 1)[-1]
        if nm in ("extend", "push_str") and len(t["args"]) == 2:
            v = e8.operand_value(f, t["args"][1], st)
            k = self._from_head(v)
            if k is not None:
                return ("op", ("copy-head", k))
            return ("op", ("append", "?"))
        if ck.endswith("Input::look_ch") or ck.endswith("Input::peek"):
            return "stop"
        if ck.endswith("ScanError::new_str") or ck.endswith("ScanError::new"):
            return ("op", ("err",))
        return "transparent"


def check(rep, F, rule="tag-head-kept"):
    f = F.fns.get(FN)
    if f is None:
        raise facts.MissingAnchor("scan_tag_shorthand_suffix not found")
    heads = [i for i, l in enumerate(f.locals) if l.get("name") == "head" and 1 <= i <= f.d.get("arg_count", 6)]
    if len(heads) != 1:
        raise facts.MissingAnchor("scan_tag_shorthand_suffix: no parameter called head")
    rec = HeadRec(f, heads[0])
    ps = e7.paths(f, 0, rec, limit=2000)
    n = 0
    for ln in range(0, 7):
        ms = [p for p in e7.matching(ps, {("len",): ln}) if not any(o == ("err",) for o in p["ops"])]
        if ln < 2:
            continue
        n += 1
        copies = [[o for o in p["ops"] if o[0] == "copy-head"] for p in ms]
        ok = bool(ms) and all(c == [("copy-head", 1)] for c in copies)
        rep.check(ok, rule, "head of %d characters" % ln, "with a head of %d characters ('!' and %d more) the part of scan_tag_shorthand_suffix before its loop appends %s to the "
                  "suffix; it must append the head minus its leading '!': the tag name loses its first characters or all of them"
                  % (ln, ln - 1, sorted({str(c) for c in copies}) or "nothing (no path)"), site=f.span)
    return n
