"""The parser cannot spin (used by C01): no cycle of state transitions that consumes no token.

C01 asks that parsing terminates on every input.  The scanner side is E1 (every loop consumes).  The parser side: each call of the state
machine returns one event; the stream of events is finite only if the machine cannot go round a cycle of states without consuming a
token.  E5 gives, for every state and every non-error outcome of its handler (tail calls into the node parser expanded), how many
tokens were consumed, which kinds the unconsumed current token can have, the push/pop operations and the state written.  The graph
whose nodes are (state, kind of the current token) and whose edges are the outcomes that consume nothing - to the state written, or
to the state a matched push/pop pair returns to, or to the same state when nothing is written - must be acyclic.  An outcome that
pops more than it pushed ends a chain: the state stack is finite and every push is made by an outcome of this graph.
"""
from .common import *
from engine import e5
from . import C02


def check(rep, F, rule="parser-progress"):
    E = e5.E5(F)
    disp, sm = C02.dispatch_table(F)
    nt = len(E.tok_names)

    def outs_of(key, args):
        res = []
        for o in E.outcomes(key, args):
            if o["kind"] == "panic":
                continue
            r = e5.describe_result(o["result"])
            if r == ("err",):
                continue
            res.append((o, r))
        return res

    def consumed(o):
        return len(o["toks"]) - (1 if o.get("slot") else 0)

    def expand(key, args, depth=0):
        out = []
        for o, r in outs_of(key, args):
            c = consumed(o)
            first = o["toks"][0] if o["toks"] else None
            if r[0] == "tail" and depth < 3:
                for o2, r2 in expand(r[1], r[2], depth + 1):
                    f2 = first
                    if c == 0 and o2["first"] is not None:
                        f2 = o2["first"] if first is None else (first & o2["first"])
                    out.append(({"ops": o["ops"] + o2["ops"], "written": o2["written"] if o2["written"] is not None else o["written"],
                                 "c": c + o2["c"], "first": f2}, r2))
            else:
                out.append(({"ops": o["ops"], "written": o["written"], "c": c, "first": first}, r))
        return out

    edges = {}
    n_eps = n_out = 0
    for nm, (key, args) in sorted(disp.items()):
        if key not in F.fns:
            continue
        for o, r in expand(key, args):
            n_out += 1
            if o["c"] != 0:
                continue
            first = o["first"] if o["first"] is not None else frozenset(range(nt))
            if not first:
                continue
            local, cont, netpop = [], None, False
            for op in o["ops"]:
                if op[0] == "push":
                    local.append(op[1])
                elif op[0] == "pop":
                    if local:
                        cont = local.pop()
                    else:
                        netpop = True
            if o["written"] is not None:
                tgt = o["written"]
            elif cont is not None:
                tgt = cont
            elif netpop:
                continue
            else:
                tgt = nm
            n_eps += 1
            for k in first:
                edges.setdefault((nm, k), set()).add((tgt, k))
    # cycles (iterative DFS, one report per cycle as a set of states)
    color, cycles = {}, []
    for root in sorted(edges):
        if root in color:
            continue
        stack = [(root, iter(sorted(edges.get(root, ()))))]
        color[root] = 1
        path = [root]
        while stack:
            v, it = stack[-1]
            w = next(it, None)
            if w is None:
                color[v] = 2
                stack.pop()
                path.pop()
                continue
            if color.get(w) == 1:
                cyc = path[path.index(w):]
                cycles.append(cyc)
            elif w not in color:
                color[w] = 1
                path.append(w)
                stack.append((w, iter(sorted(edges.get(w, ())))))
    seen = set()
    for cyc in cycles:
        states = tuple(sorted({s for s, k in cyc}))
        if states in seen:
            continue
        seen.add(states)
        k = cyc[0][1]
        rep.bad(rule, "->".join(s for s, _ in cyc), "with the token %s pending the parser goes from state to state (%s) without consuming anything: it returns events for ever"
                % (E.tok_names[k], " -> ".join(s for s, _ in cyc + [cyc[0]])), site=sm.span)
    if not cycles:
        rep.ok(rule, "no token-free cycle", {"states": len(disp), "outcomes": n_out, "token_free_outcomes": n_eps, "nodes": len(edges)})
    rep.floor("handler outcomes analysed for progress", n_out, 100)
    rep.floor("token-free outcomes", n_eps, 15)
    rep.extra["parser_progress"] = {"outcomes": n_out, "token_free": n_eps, "graph_nodes": len(edges)}
    return n_out
