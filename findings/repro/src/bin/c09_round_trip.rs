// C09: strings and floats that do not survive emit -> load.
use saphyr::{LoadableYamlNode, Scalar, Yaml, YamlEmitter};
fn rt(y: &Yaml) -> (String, Yaml<'static>) {
    let mut out = String::new();
    YamlEmitter::new(&mut out).dump(y).unwrap();
    let back = Yaml::load_from_str(&out).unwrap().remove(0);
    // detach from `out`
    let back = match back {
        Yaml::Value(Scalar::String(s)) => Yaml::Value(Scalar::String(s.into_owned().into())),
        Yaml::Value(Scalar::Integer(i)) => Yaml::Value(Scalar::Integer(i)),
        Yaml::Value(Scalar::FloatingPoint(f)) => Yaml::Value(Scalar::FloatingPoint(f)),
        other => panic!("unexpected {other:?}"),
    };
    (out, back)
}
fn main() {
    let mut bad = 0;
    for s in ["0o17", "+.inf", "+.Inf", "+.INF"] {
        let y = Yaml::Value(Scalar::String(s.into()));
        let (text, back) = rt(&y);
        let ok = back == y;
        println!("String({s:?}) -> {:?} -> {back:?}{}", text.trim_start_matches("---\n"), if ok { "" } else { "   <-- changed type" });
        if !ok { bad += 1; }
    }
    for f in [1.0f64, 100.0, -3.0, 1e21, f64::INFINITY, f64::NEG_INFINITY, 0.5] {
        let y = Yaml::Value(Scalar::FloatingPoint(f.into()));
        let (text, back) = rt(&y);
        let ok = back == y;
        println!("Float({f:?}) -> {:?} -> {back:?}{}", text.trim_start_matches("---\n"), if ok { "" } else { "   <-- changed" });
        if !ok { bad += 1; }
    }
    if bad > 0 { println!("WRONG ({bad})"); std::process::exit(1) } else { println!("RIGHT") }
}
