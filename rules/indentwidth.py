"""How many blanks write_indent writes (used by C09).

A nested node is read back at the nesting it was written at only if its indentation grows with every level: write_indent must write
level x best_indent blanks (nothing at level <= 0).  The function is summarised as a sum over its output calls of
(blanks written by the call) x (trip counts of the `for _ in a..b` loops around it), each factor an expression tree over `self.level`
and `self.best_indent` (E8), and the sum is folded over level -1..40 x best_indent 1, 2, 4, 8.  Forms understood: a constant string
of blanks; a slice `&BLANKS[..n]` of a constant string of blanks; `for` loops over integer ranges whose only other exit is the `?` of
the write.  If the function writes its indentation in a way the rule cannot read (a format width, a helper of another crate), nothing is
decided and nothing is reported.
"""
from .common import *
from engine import e8
from engine.e8 import Unknown
from engine.facts import op_const, is_local

EMITTER = "saphyr::emitter::YamlEmitter"


class IndRec(e8.SymRec):
    def _fld(self, v):
        if v[0] == "proj" and v[2] == "field" and v[3] in ("level", "best_indent") and v[1] == ("proj", ("in", 1), "deref", None):
            return v[3]
        return None

    def leaf(self, v):
        k = self._fld(v)
        return ("self", k) if k else None

    blank_len = None

    def interp(self, v, env):
        k = self._fld(v)
        if k and ("self", k) in env:
            return env[("self", k)]
        if v[0] == "call" and v[1] == "str::len" and self.blank_len is not None:
            return self.blank_len           # the only string of this function: the constant run of blanks
        return None


def _const_str(f, op):
    e = cfg.expr_operand(f, op, 8)
    while e[0] == "ref" or (e[0] == "place" and all(x == "deref" for x in e[2])):
        e = e[1]
    if e[0] == "call" and e[1] == "std::fmt::Arguments::from_str":
        e = e[2][0]
        while e[0] == "ref" or (e[0] == "place" and all(x == "deref" for x in e[2])):
            e = e[1]
    if e[0] == "const" and isinstance(e[1], str):
        return e[1]
    return None


def check(rep, F, rule="indentation-width"):
    f = F.fns.get(EMITTER + "::write_indent")
    if f is None:
        raise facts.MissingAnchor("write_indent not found")
    rec = IndRec(f)
    loops = f.natural_loops()
    terms = []          # (blanks tree, [trip-count trees])
    for bb, t, ck, fr in f.calls():
        if ck not in ("std::fmt::Write::write_str", "std::fmt::Write::write_fmt", "std::fmt::Write::write_char"):
            continue
        lit = _const_str(f, t["args"][1])
        blanks = None
        if lit is not None and lit != "" and lit.strip(" ") == "":
            blanks = ("const", len(lit))
        elif lit == "":
            continue
        else:
            # a slice of a constant string of blanks: Index::index(<const blanks>, RangeTo { end: n })
            st = e8.straightline_state(f, bb, rec)
            a = e8.operand_value(f, t["args"][1], st)
            while a[0] == "ref" or (a[0] == "proj" and a[2] == "deref"):
                a = a[1]
            if a[0] == "call" and a[1] and a[1].endswith("Index<I>>::index") or a[0] == "call" and a[1] == "std::ops::Index::index":
                pass
            if a[0] == "call" and a[1] and (a[1] == "std::ops::Index::index" or a[1].endswith("Index<I>>::index")) and len(a[2]) == 2 and a[2][1][0] == "adt" \
                    and a[2][1][2] == "RangeTo":
                base = a[2][0]
                while base[0] == "ref":
                    base = base[1]
                src = None
                for b2, t2, ck2, fr2 in f.calls():
                    if ck2 == "std::ops::Index::index":
                        src = _const_str(f, t2["args"][0])
                if src is not None and src.strip(" ") == "" and src != "":
                    rec.blank_len = len(src)
                    blanks = ("call", "std::cmp::min", (a[2][1][4][0], ("const", len(src))))      # a slice cannot be longer than the string
        if blanks is None:
            rep.extra["indentation_width"] = "not decided: an output call of write_indent is not a constant run of blanks"
            return 0
        trips = []
        for head, body in loops:
            if bb not in body:
                continue
            # the range this loop runs over: the Range aggregate whose iterator's next() is called in the loop head
            rng = None
            tn = f.blocks[head]["term"]
            if tn["k"] == "call" and tn["f"].get("fn") and tn["f"]["fn"]["key"].endswith("Iterator::next"):
                e = cfg.expr_operand(f, tn["args"][0], 10)
                s_ = cfg.expr_str(e)
                for bi, si, st_ in cfg.stmts(f):
                    if st_["k"] == "assign" and st_["rv"]["k"] == "agg" and st_["rv"].get("adt") == "std::ops::Range" and ("_%d)" % st_["lhs"]["l"] in s_ or
                                                                                                                        "Range::Range(" in s_ and bi in f.dominators().get(head, ())):
                        st0 = e8.straightline_state(f, bi, rec)
                        cand = st0.get(st_["lhs"]["l"])
                        if cand is not None and cand[0] == "adt":
                            # the innermost dominating Range built outside this loop's body
                            if bi not in body and (rng is None or bi > rng[0]):
                                rng = (bi, cand)
            if rng is None:
                rep.extra["indentation_width"] = "not decided: a loop of write_indent does not run over an integer range"
                return 0
            lo, hi = rng[1][4][0], rng[1][4][1]
            trips.append((lo, hi))
            # no exit from the loop other than the exhausted range and the `?` of the write
            exits = {(x, y) for x in body for y in f.succs(x) if y not in body and not f.blocks[y]["cleanup"]}
            nxt = f.blocks[head]["term"]["t"]
            errs = cfg.err_sink_blocks(f)

            def _err_way(y):
                ty = f.blocks[y]["term"]
                return y in errs or ty["k"] == "unreachable" or (ty["k"] == "call" and ty["f"].get("fn") and "from_residual" in ty["f"]["fn"]["key"])
            okx = all(x == nxt or _err_way(y) for x, y in exits)
            if not okx:
                rep.extra["indentation_width"] = "not decided: a loop of write_indent has another way out"
                return 0
        terms.append((blanks, trips))
    if not terms:
        rep.extra["indentation_width"] = "not decided: write_indent writes nothing the rule can read"
        return 0
    wrong, n = [], 0
    for bi_ in (1, 2, 4, 8):
        for lvl in range(-1, 41):
            env = {("self", "level"): lvl, ("self", "best_indent"): bi_}
            n += 1
            try:
                total = 0
                if lvl > 0 or not _guards_nonpositive(f, rec):
                    for blanks, trips in terms:
                        k = e8.evaluate(blanks, env, rec.interp)
                        for lo, hi in trips:
                            k *= max(0, e8.evaluate(hi, env, rec.interp) - e8.evaluate(lo, env, rec.interp))
                        total += k
            except Unknown as ex:
                rep.extra["indentation_width"] = "not decided: %s" % ex
                return 0
            want = lvl * bi_ if lvl > 0 else 0
            if total != want:
                wrong.append("level %d, indent %d: %d blanks (expected %d)" % (lvl, bi_, total, want))
    rep.check(not wrong, rule, "write_indent", "write_indent does not write level x best_indent blanks: %s" % "; ".join(wrong[:4]), site=f.span,
              detail={"cases": n, "wrong": len(wrong)})
    return n


def _guards_nonpositive(f, rec):
    """does the function return early when level <= 0?"""
    t = f.blocks[0]["term"]
    if t["k"] != "switch":
        return False
    st = e8.straightline_state(f, 0, rec)
    v = e8.operand_value(f, t["discr"], st)
    try:
        neg = e8.evaluate(v, {("self", "level"): 0, ("self", "best_indent"): 2}, rec.interp)
        pos = e8.evaluate(v, {("self", "level"): 3, ("self", "best_indent"): 2}, rec.interp)
    except Unknown:
        return False
    if neg == pos:
        return False
    m, other = cfg.switch_edge_blocks(f, 0)
    tg = (other if neg else m.get(0))
    # the edge taken for level <= 0 reaches the return without an output call
    reach = cfg.blocks_reachable_from(f, [tg])
    return not any(bb in reach for bb, t2, ck, fr in f.calls() if ck and ck.startswith("std::fmt::Write::"))


def _is_range_exhausted_edge(f, x, head):
    # the switch on the Option returned by next() sits right after the head
    t = f.blocks[head]["term"]
    return t["k"] == "call" and t["t"] == x


def _leads_to_err(f, y):
    return y in cfg.err_sink_blocks(f) or any(z in cfg.err_sink_blocks(f) for z in cfg.blocks_reachable_from(f, [y]) if len(cfg.blocks_reachable_from(f, [y])) < 6)
