#!/usr/bin/env python3
"""maintenance helper (not a check): take a sub-agent's seeded change from /tmp/seed/<ID>/out, confirm it in a scratch worktree
(suite passes with it, demonstration fails with it and passes without it), then apply it to /repo, run every claimed check with the
evidence redirected, undo it, and record everything under /verif/seeded/<name>/.
usage: tools/seed.py <ID> <name> <demo-crate: saphyr|saphyr-parser> "<what it needs to manifest>" """
import json, os, shutil, subprocess, sys, tempfile, re

pid, name, crate, needs = sys.argv[1:5]
src = os.environ.get("SEED_SRC", "/tmp/seed") + "/%s/out" % pid
dst = "/verif/seeded/%s" % name
os.makedirs(dst, exist_ok=True)
for f in os.listdir(src):
    if f.endswith((".diff", ".rs", ".txt")):
        shutil.copy(os.path.join(src, f), os.path.join(dst, f))
patch = os.path.join(dst, "patch.diff")
demos = [f for f in os.listdir(dst) if f.endswith(".rs")]
assert demos, "no demonstration"
demo = demos[0]
log = []

def run(cmd, cwd, env=None, timeout=3000):
    e = dict(os.environ)
    e.update(env or {})
    p = subprocess.run(cmd, cwd=cwd, shell=True, stdout=subprocess.PIPE, stderr=subprocess.STDOUT, text=True, env=e, timeout=timeout)
    return p.returncode, p.stdout

wt = tempfile.mkdtemp(prefix="confirm-%s-" % pid)
os.rmdir(wt)
run("git -C /repo worktree add -q --detach %s HEAD" % wt, "/")
tgt = os.environ.get("CONFIRM_TARGET", "/tmp/confirm-target")
env = {"CARGO_TARGET_DIR": tgt, "CARGO_NET_OFFLINE": "true"}
res = {}
try:
    testdir = os.path.join(wt, "saphyr" if crate == "saphyr" else "parser", "tests")
    demo_name = "seed_demo"
    shutil.copy(os.path.join(dst, demo), os.path.join(testdir, demo_name + ".rs"))
    pk = "saphyr" if crate == "saphyr" else "saphyr-parser"
    rc0, out0 = run("bash -c 'set -o pipefail; cargo test --offline -p %s --test %s 2>&1 | tail -15'" % (pk, demo_name), wt, env)
    m = re.findall(r"test result: (\w+)\. (\d+) passed; (\d+) failed", out0)
    res["demo_clean"] = m[-1] if m else ("?", out0[-300:])
    res["demo_clean_exit"] = rc0
    rc, out = run("git apply %s" % patch, wt)
    assert rc == 0, out
    rc1, out1 = run("bash -c 'set -o pipefail; cargo test --offline -p %s --test %s 2>&1 | tail -25'" % (pk, demo_name), wt, env)
    m = re.findall(r"test result: (\w+)\. (\d+) passed; (\d+) failed", out1)
    res["demo_with_change"] = m[-1] if m else ("ABORTED", out1[-300:])
    res["demo_with_change_exit"] = rc1
    os.unlink(os.path.join(testdir, demo_name + ".rs"))
    rc2, out2 = run("cargo test --workspace --no-fail-fast --offline 2>&1 | grep -E '^test result|FAILED|failed' ", wt, env)
    tot = re.findall(r"(\d+) passed; (\d+) failed", out2)
    res["suite_with_change"] = {"passed": sum(int(a) for a, b in tot), "failed": sum(int(b) for a, b in tot)}
finally:
    run("git -C /repo worktree remove --force %s" % wt, "/")
print(json.dumps(res, indent=1))
confirmed = res["demo_clean"][0] == "ok" and res["demo_clean_exit"] == 0 and res["demo_with_change_exit"] != 0 and res["suite_with_change"]["failed"] == 0 and res["suite_with_change"]["passed"] >= 600
# run the checks against it
fired = {}
if confirmed:
    scratch = tempfile.mkdtemp(prefix="seed-tree-")
    rc, out = run("rsync -a --exclude target --exclude .git /repo/ %s/ && cd %s && patch -p1 -s < %s" % (scratch, scratch, patch), "/")
    assert rc == 0, out
    try:
        man = json.load(open("/verif/MANIFEST.json"))
        evd = tempfile.mkdtemp(prefix="seed-ev-")
        for c in man["checks"]:
            cid = c["property_id"]
            rc, out = run(c["quick_cmd"], "/verif", {"VERIF_EVIDENCE_DIR": evd, "VERIF_REPO": scratch})
            keys = []
            try:
                keys = json.load(open(os.path.join(evd, cid + ".json")))["coverage"].get("new_violations", [])
            except Exception:
                pass
            if rc != 0:
                fired[cid] = keys[:6]
        shutil.rmtree(evd, ignore_errors=True)
    finally:
        shutil.rmtree(scratch, ignore_errors=True)
st = subprocess.run("git -C /repo status --short", shell=True, stdout=subprocess.PIPE, text=True).stdout
assert st.strip() == "", "repo not clean: " + st
meta = {"property": pid, "name": name, "needs_to_manifest": needs, "confirmed": confirmed, "confirmation": res,
        "ran": ["scratch worktree of /repo HEAD: demonstration on the clean tree, demonstration with the patch, full workspace suite with the patch",
                "patch applied to a scratch copy of /repo's working tree (equivalent to git -C /repo apply / checkout, without touching /repo); every quick_cmd of MANIFEST.json with VERIF_REPO pointing at the copy and VERIF_EVIDENCE_DIR redirected; copy removed"],
        "checks_that_report_it": fired, "reported_by_claimed_check": pid in fired}
json.dump(meta, open(os.path.join(dst, "meta.json"), "w"), indent=1)
print("confirmed:", confirmed, "| reported by:", {k: v[:2] for k, v in fired.items()})
