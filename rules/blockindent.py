"""Explicit indentation indicator of a block scalar (used by C05): the table of the indentation handed to the content scanner.

"The content indentation is the explicit indicator or else that of the first non-empty line."  In scan_block_scalar the header leaves
the digit in one local (0 = no indicator); between the header and the first content line the function either hands an indentation
to skip_block_scalar_indent (explicit) or asks skip_block_scalar_first_line_indent to detect it.  E8 enumerates the paths of that
region with two symbols - the digit and the indentation of the enclosing block (Scanner.indent, -1 at the root) - and checks:

   digit = 0                 -> detection is asked for, starting from 0
   digit = m, parent n >= 0  -> the content scanner is given n + m
   digit = m, at the root    -> the content scanner is given m     (the indicator itself; libyaml's reading, and the property's words)

No other value may reach either call.  The digit local, the indentation local and the region are found by use (the local lent
mutably to the detector; the common dominator of its writers), not by name.
"""
from .common import *
from engine import e7, e8
from engine.e8 import Unknown
from engine.facts import op_const, const_value

FN = SCANNER + "::scan_block_scalar"
EXPL = SCANNER + "::skip_block_scalar_indent"
DETECT = SCANNER + "::skip_block_scalar_first_line_indent"


class IndentRec(e8.SymRec):
    def __init__(self, f):
        super().__init__(f)
        self.domains = {("self", "indent"): range(-1, 7)}

    def _self_indent(self, v):
        return v[0] == "proj" and v[2] == "field" and v[3] == "indent" and v[1][0] == "proj" and v[1][2] == "deref" and v[1][1] == ("in", 1)

    def _self_col(self, v):
        return v[0] == "proj" and v[2] == "field" and v[3] == "col" and v[1][0] == "proj" and v[1][2] == "field" and v[1][3] == "mark"

    def leaf(self, v):
        if self._self_col(v):
            return ("self", "col")
        return ("self", "indent") if self._self_indent(v) else None

    def interp(self, v, env):
        if self._self_indent(v) and ("self", "indent") in env:
            return env[("self", "indent")]
        if self._self_col(v) and ("self", "col") in env:
            return env[("self", "col")]
        if v[0] == "cast" and v[1] in ("isize", "i64", "i32") :
            return None
        return None

    def call_effect(self, bi, t, ck, st):
        if ck == EXPL:
            st["@expl"] = e8.operand_value(self.f, t["args"][1], st)
            return "stop"
        if ck == DETECT:
            v = e8.operand_value(self.f, t["args"][1], st)
            st["@detect"] = v[1] if v[0] == "ref" else v
            return "stop"
        if ck.endswith("ScanError::new_str") or ck.endswith("ScanError::new"):
            return ("op", ("err",))
        return "transparent"


def check(rep, F, rule="explicit-indent-table"):
    f = F.fn(FN)
    inloop = set().union(*[body for h, body in f.natural_loops()]) if f.natural_loops() else set()
    ca = [bb for bb, t, ck, fr in f.calls() if ck == EXPL and bb not in inloop]
    cd = [(bb, t) for bb, t, ck, fr in f.calls() if ck == DETECT]
    if len(ca) != 1 or len(cd) != 1:
        raise facts.MissingAnchor("scan_block_scalar: expected one call each of skip_block_scalar_indent and skip_block_scalar_first_line_indent, found %d and %d" % (len(ca), len(cd)))
    indent_l = cfg.borrowed_local(f, cd[0][1]["args"][1])
    if indent_l is None:
        raise facts.MissingAnchor("scan_block_scalar: the indentation lent to the detector is not a local")
    dom = f.dominators()
    reach_to = lambda b: b in dom and True
    # writers of the indentation local that can still reach the two calls, other than the constant initialisation
    goal = {ca[0], cd[0][0]}
    can_reach = set()
    work = list(goal)
    while work:
        b = work.pop()
        if b in can_reach:
            continue
        can_reach.add(b)
        work.extend(p for p in f.preds(b) if p not in can_reach)
    wr, init = [], []
    for bi, si, s in cfg.stmts(f):
        if s["k"] == "assign" and not s["lhs"]["p"] and s["lhs"]["l"] == indent_l and bi in can_reach:
            (init if s["rv"]["k"] == "use" and op_const(s["rv"]["a"]) is not None else wr).append((bi, s))
    if not wr:
        raise facts.MissingAnchor("scan_block_scalar: the indentation local is never computed before the content scanner is called")
    common = set.intersection(*[dom[b] for b in [w[0] for w in wr] + list(goal)])
    # the lowest common dominator that ends in a switch
    start = max((b for b in common if f.blocks[b]["term"]["k"] == "switch"), key=lambda b: len(dom[b]), default=None)
    if start is None:
        raise facts.MissingAnchor("scan_block_scalar: no test dominates the computation of the explicit indentation")
    inits = {const_value(op_const(s["rv"]["a"])) for bi, s in init if bi in dom[start]}
    rec = IndentRec(f)
    ps = e7.paths(f, start, rec)
    # the digit: the one other loop-free integer input of the region
    ins = set()
    for p in ps:
        for k in p["guards"]:
            if k[0] == "in":
                ins.add(k)
        for key in ("@expl", "@detect"):
            if key in p["state"]:
                ins |= {x for x in e8.symbols(p["state"][key], rec.leaf) if x[0] == "in"}
        for k, v in p["state"].items():
            if isinstance(k, tuple) and k[0] == "@cond":
                ins |= {x for x in e8.symbols(v, rec.leaf) if x[0] == "in"}
    ins.discard(("in", indent_l))
    ins = {x for x in ins if f.locals[x[1]]["ty"] in ("usize", "u32", "u8", "isize")}
    if len(ins) != 1:
        raise facts.MissingAnchor("scan_block_scalar: expected one digit local feeding the explicit indentation, found %s" % sorted(f.locals[x[1]].get("name") or x[1] for x in ins))
    (digit,) = ins
    rep.check(inits == {0}, rule, "starts-from-zero", "the indentation local must be 0 when the header has been read (its initialisers before the region: %s)" % sorted(inits), site=f.span)
    n = 0
    for parent in range(-1, 7):
        for m in range(0, 10):
            env = {("self", "indent"): parent, digit: m, ("in", indent_l): 0}
            ms = [p for p in ps if e8.matches(p, env, rec.interp) and not any(o == ("err",) for o in p["ops"])]
            got = set()
            for p in ms:
                st = p["state"]
                try:
                    if "@expl" in st:
                        got.add(("given", e8.evaluate(st["@expl"], env, rec.interp)))
                    elif "@detect" in st:
                        got.add(("detect", e8.evaluate(st["@detect"], env, rec.interp)))
                    else:
                        got.add(("other", p["why"]))
                except Unknown as ex:
                    got.add(("unknown", str(ex)))
            want = ("detect", 0) if m == 0 else ("given", (parent if parent >= 0 else 0) + m)
            n += 1
            inst = "%s,%s" % ("root" if parent < 0 else "nested", "no indicator" if m == 0 else "indicator")
            rep.check(got == {want}, rule, inst, "block scalar %s, indicator %s: the content scanner must be %s; the code gives %s"
                      % ("at the root" if parent < 0 else "inside a block indented by %d" % parent, m or "absent",
                         "asked to detect the indentation" if m == 0 else "given the indentation %d" % want[1], sorted(got, key=str)), site=f.span,
                      detail={"parent_indent": parent, "indicator": m})
    rep.extra["explicit_indent"] = {"paths": len(ps), "cases": n, "digit_local": f.locals[digit[1]].get("name"), "indent_local": f.locals[indent_l].get("name"), "start": start}
    return n


def implied_final_break(rep, F, rule="implied-final-break"):
    """'... and this holds with or without a final newline at end of input': a content line that runs up to the end of input has an
    implied final break.  After such a line the column is at least content indentation + 1 (the line started at the indentation -
    the loop guard - and, the end of input having been excluded at its start, holds at least one character).  The test that decides
    whether '\\n' is appended at the end of input compares the column with an expression of the indentation; folded over
    indentation 0..5 and column indentation+1..indentation+3 it must choose the appending edge every time."""
    f = F.fn(FN)
    rec = IndentRec(f)
    rec.domains = {}
    inloop = set().union(*[body for h, body in f.natural_loops()]) if f.natural_loops() else set()
    D = f.dominators()
    pushes = []
    for bb, t, ck, fr in f.calls():
        if ck == "std::string::String::push" and bb not in inloop and len(t["args"]) > 1:
            c = op_const(t["args"][1])
            if c is not None and const_value(c) == ("char", 10):
                pushes.append(bb)
    found = 0
    for B, blk in enumerate(f.blocks):
        t = blk["term"]
        if blk["cleanup"] or t["k"] != "switch" or B in inloop or t["dty"] != "bool":
            continue
        # symbolic state over the straight-line run of blocks that ends in this test
        chain = [B]
        while True:
            ps_ = [p for p in f.preds(chain[0]) if not f.blocks[p]["cleanup"]]
            if len(ps_) != 1 or f.blocks[ps_[0]]["term"]["k"] not in ("goto", "call", "assert", "drop") or ps_[0] in chain or len(chain) > 12:
                break
            chain.insert(0, ps_[0])
        st = {}
        for cbk in chain:
            for s_ in f.blocks[cbk]["stmts"]:
                rec.stmt(s_, st)
            tc = f.blocks[cbk]["term"]
            if cbk != B and tc["k"] == "call":
                fk = tc["f"].get("fn")
                rec.call(cbk, tc, ((fk.get("resolved") or fk["key"]) if fk else ""), st)
        v = e8.operand_value(f, t["discr"], st)
        syms = e8.symbols(v, rec.leaf)
        ints = [x for x in syms if x[0] == "in" and f.locals[x[1]]["ty"] in ("usize", "isize")]
        if ("self", "col") not in syms or len(ints) != 1 or len(syms) != 2:
            continue
        m, other = cfg.switch_edge_blocks(f, B)
        true_tg, false_tg = other, m.get(0)
        push_edge = None
        for tg, val in ((true_tg, 1), (false_tg, 0)):
            if tg is not None and any(pb == tg or cfg.dominated_by_edge(f, pb, B, tg) for pb in pushes):
                push_edge = val
        if push_edge is None:
            continue
        found += 1
        wrong = []
        for i in range(0, 6):
            for c in range(i + 1, i + 4):
                try:
                    r = e8.evaluate(v, {("self", "col"): c, ints[0]: i}, rec.interp)
                except Unknown as ex:
                    wrong.append("indentation %d, column %d: %s" % (i, c, ex))
                    continue
                if int(bool(r)) != push_edge:
                    wrong.append("indentation %d, column %d" % (i, c))
        rep.check(not wrong, rule, "scan_block_scalar", "a last content line that runs up to the end of input (no line break after it) does not get its implied final "
                  "break for: %s" % "; ".join(wrong[:4]), site=site(f, t["sp"]), detail={"condition": str(v)[:300]})
    return found
