"""C18 — byte input decodes to the same documents, and decoding always ends.

Clause decided: every cycle of decode_loop makes progress.  InputEmpty leaves the loop; Malformed advances
total_bytes_read on every path that loops; OutputFull advances it and grows the output by a provably positive
amount (interval lower bound of the String::reserve argument >= 4, one maximal UTF-8 sequence).  Panic-capable
constructs of encoding.rs are discharged mechanically or reviewed.
"""
from .common import *
from engine import tables, panics
from engine.facts import is_local, op_const, const_value, op_place

PID = "C18"
MIN_GROWTH = 4


def new_report(tier):
    return make_report(PID, tier, "other", [
        "encoding_rs contract: Malformed and OutputFull are returned with bytes_read <= src.len(); Malformed consumed at least the malformed "
        "sequence (bytes_read >= 1); OutputFull is only returned again without reading when fewer than 4 bytes of output space are left",
        "String::reserve(n) guarantees capacity >= len + n",
    ], "E2 on decode_loop: arms of the match on DecoderResult, must-pass-through of the progress statements on every path back to the "
       "loop head, interval lower bound of the growth step; panic-site inventory of encoding.rs. Equality of decoded text with the source "
       "is encoding_rs semantics and is not decided.")


def lower_bound(f, e):
    k = e[0]
    if k == "const":
        return e[1] if isinstance(e[1], int) and not isinstance(e[1], bool) else 0
    if k == "bin":
        a, b = lower_bound(f, e[2]), lower_bound(f, e[3])
        if e[1] in ("Add", "AddWithOverflow", "AddUnchecked"):
            return a + b
        if e[1] in ("Mul", "MulWithOverflow"):
            return a * b
        if e[1] == "Div":
            return a // e[3][1] if e[3][0] == "const" and isinstance(e[3][1], int) and e[3][1] > 0 else 0
        return 0
    if k == "place" and e[2] == [("field", "0")]:
        return lower_bound(f, e[1])
    if k == "cast":
        return lower_bound(f, e[2])
    if k == "call":
        key = e[1] or ""
        if key.endswith("::max") and len(e[2]) == 2:
            return max(lower_bound(f, e[2][0]), lower_bound(f, e[2][1]))
        if key.endswith("::min") and len(e[2]) == 2:
            return min(lower_bound(f, e[2][0]), lower_bound(f, e[2][1]))
        if key.endswith("::saturating_add") and len(e[2]) == 2:
            return lower_bound(f, e[2][0]) + lower_bound(f, e[2][1])
        if key.endswith("::clamp") and len(e[2]) == 3:
            return lower_bound(f, e[2][1])
        return 0
    return 0


def _arith_leaves(e, out=None):
    """the values an index expression is computed from: descends through ranges, arithmetic, casts and overflow-checked results, stops at
    calls (what a call returned is a value of its own, whatever went into the call)"""
    out = set() if out is None else out
    if not isinstance(e, tuple) or not e:
        return out
    if e[0] == "adt":
        for x in e[3]:
            _arith_leaves(x, out)
    elif e[0] == "bin":
        _arith_leaves(e[2], out)
        _arith_leaves(e[3], out)
    elif e[0] in ("cast", "un"):
        _arith_leaves(e[2], out)
    elif e[0] == "place" and e[1][0] == "bin":
        _arith_leaves(e[1], out)
    elif e[0] == "call" and e[1] and e[1].endswith(("::from", "::into", "::try_from", "::unwrap", "::unwrap_or")) and e[2]:
        _arith_leaves(e[2][0], out)
    else:
        out.add(e if e[0] in ("phi", "local", "param", "const") else (e[0], str(e)[:40]))
    return out


def _locals_feeding(f, op, depth=8):
    """locals through which the operand's value flows (refs, moves, copies)"""
    out = set()
    l = is_local(op)
    while l is not None and depth > 0 and l not in out:
        out.add(l)
        depth -= 1
        ds = cfg.defs_of_local(f, l)
        if len(ds) != 1 or ds[0][0] != "stmt":
            break
        rv = ds[0][3]["rv"]
        if rv["k"] == "use":
            l = is_local(rv["a"])
        elif rv["k"] in ("ref", "copyforderef"):
            l = rv["p"]["l"]
        else:
            break
    return out


def run(tier):
    rep = new_report(tier)
    F = facts.load()
    if "feature=encoding" not in F.crates["saphyr"].cfg:
        rep.incomplete("the `encoding` feature is not part of the analysed configuration")
        return rep
    dl = F.fn("saphyr::encoding::decode_loop")
    loops = dl.natural_loops()
    rep.check(len(loops) == 1, "loop-shape", "decode_loop", "decode_loop no longer consists of exactly one loop (re-review needed)", site=dl.span,
              detail=len(loops))
    if len(loops) != 1:
        return rep
    head, body = loops[0]
    # the whole input is handed to the decoder as one chunk (the slice `input[total..]` reaches to the end): every call must say so
    # (`last` = true).  With `last` = false the decoder buffers a truncated trailing sequence and answers InputEmpty: Strict returns Ok,
    # Replace writes no U+FFFD, the trap is not called - the malformed tail decodes "to the same documents" as the well-formed text.
    dec = [(b_, t_) for b_, t_, ck_, fr_ in dl.calls() if ck_ and ck_.startswith("encoding_rs::Decoder::decode_to_")]
    for b_, t_ in dec:
        lastv = cfg.expr_operand(dl, t_["args"][-1])
        rep.check(lastv == ("const", True), "final-chunk-flag", "decode_loop", "the decoder is given the rest of the input with `last` not the constant true (%s): "
                  "a truncated sequence at the very end of the input is buffered instead of reported" % (cfg.expr_str(lastv),), site=dl.span)
    rep.floor("decoder calls in decode_loop", len(dec), 1)
    # the match on DecoderResult
    sw = [(bb, p, adt) for bb, p, adt in tables.discr_switches(dl) if adt == "encoding_rs::DecoderResult" and bb in body]
    if len(sw) != 1:
        rep.incomplete("cannot find the match on DecoderResult in decode_loop", dl.span)
        return rep
    bb, p, adt = sw[0]
    # variant indices of the foreign enum: InputEmpty=0, OutputFull=1, Malformed=2 (declaration order in encoding_rs); confirm through the
    # downcast names used in the arms
    m, other = cfg.switch_edge_blocks(dl, bb)
    missing = [v for v in (0, 1, 2) if v not in m]
    if len(missing) == 1 and other is not None and dl.blocks[other]["term"]["k"] != "unreachable":
        m = dict(m)
        m[missing[0]] = other      # written as `if let` / with a catch-all arm: the unlisted variant takes the otherwise edge
    arm_names = {}
    for v, tg in m.items():
        names = set()
        for b2 in cfg.blocks_reachable_from(dl, [tg], avoid=[head]):
            for s in dl.blocks[b2]["stmts"]:
                if s["k"] == "assign":
                    for pl in cfg.rv_places(s["rv"]):
                        for e in pl["p"]:
                            if e["k"] == "downcast" and pl["l"] == p["l"]:
                                names.add(e["v"])
        arm_names[v] = names
    mal = [v for v, n in arm_names.items() if "Malformed" in n]
    rep.check(len(m) == 3 and mal == [2], "arm-identification", "decode_loop", "cannot identify the three DecoderResult arms", detail=str(arm_names))
    if not (len(m) == 3 and mal == [2]):
        return rep
    arms = {"InputEmpty": m[0], "OutputFull": m[1], "Malformed": m[2]}
    back_preds = [b for b in dl.preds(head) if b in body]

    def progress_blocks():
        """blocks assigning total_bytes_read := total_bytes_read + bytes_read (bytes_read = .1 of the decode result)"""
        out = set()
        for bi, si, s in cfg.stmts(dl):
            if s["k"] != "assign" or s["lhs"]["p"] or dl.locals[s["lhs"]["l"]]["ty"] != "usize":
                continue
            e = cfg.expr_operand(dl, s["rv"].get("a", {})) if s["rv"]["k"] == "use" else None
            if e and e[0] == "place" and e[2] == [("field", "0")] and e[1][0] == "bin" and e[1][1].startswith("Add"):
                a, b = e[1][2], e[1][3]
                def is_read(x):
                    return x[0] == "place" and x[2][-1:] == [("field", "1")] and x[1][0] == "call" and x[1][1].startswith("encoding_rs::Decoder::decode_to_")
                def is_total(x):
                    return x == ("phi", s["lhs"]["l"])
                if (is_read(a) and is_total(b)) or (is_read(b) and is_total(a)):
                    out.add(bi)
        return out
    prog = progress_blocks()
    rep.floor("progress statements (total_bytes_read += bytes_read)", len(prog), 2)
    # InputEmpty leaves the loop
    r = cfg.blocks_reachable_from(dl, [arms["InputEmpty"]])
    rep.check(head not in r, "input-empty-exits", "decode_loop[InputEmpty]", "the InputEmpty arm can loop again", site=dl.span)
    # Malformed: every path back to the head passes a progress statement
    pth = cfg.flag_reach(dl, arms["Malformed"], [head], avoid=prog) if arms["Malformed"] not in prog else None
    rep.check(pth is None, "malformed-progress", "decode_loop[Malformed]",
              "a path of the Malformed arm returns to the loop head without advancing total_bytes_read: the same bytes are decoded again forever",
              site=dl.span, detail={"path": pth})
    # OutputFull: progress + positive growth
    pth = cfg.flag_reach(dl, arms["OutputFull"], [head], avoid=prog) if arms["OutputFull"] not in prog else None
    rep.check(pth is None, "outputfull-progress", "decode_loop[OutputFull]",
              "a path of the OutputFull arm returns to the loop head without advancing total_bytes_read", site=dl.span, detail={"path": pth})
    reserves = []
    arm_blocks = cfg.blocks_reachable_from(dl, [arms["OutputFull"]], avoid=[head])
    for b2, t, ck, fr in dl.calls():
        if b2 in arm_blocks and ck in ("std::string::String::reserve", "std::string::String::reserve_exact"):
            recv = cfg.strip_reborrow(cfg.expr_operand(dl, t["args"][0]))
            e = cfg.expr_operand(dl, t["args"][1])
            reserves.append((b2, recv, e, lower_bound(dl, e), t))
    good = [r for r in reserves if r[1] == ("param", 2) and r[3] >= MIN_GROWTH]
    okgrow = False
    if good:
        gb = {r[0] for r in good}
        pth = cfg.flag_reach(dl, arms["OutputFull"], [head], avoid=gb) if arms["OutputFull"] not in gb else None
        okgrow = pth is None
    det = [{"arg": cfg.expr_str(r[2]), "lower_bound": r[3]} for r in reserves]
    rep.check(okgrow, "outputfull-growth", "decode_loop[OutputFull]",
              "the OutputFull arm does not grow the output by a provably positive amount (lower bound of the reserve argument < %d): for short "
              "inputs the decoder reports OutputFull again without reading and the loop never ends" % MIN_GROWTH,
              site=site(dl, reserves[0][4]["sp"]) if reserves else dl.span, detail=det)
    rep.extra["reserve_arguments"] = det

    # decode(): the loop's error is propagated, the decoded text is what gets loaded
    dec = F.fn("saphyr::encoding::YamlDecoder::decode")
    calls = [ck for _, _, ck, _ in dec.calls()]
    rep.check("saphyr::encoding::decode_loop" in calls and any(c and c.endswith("::load_from_str") for c in calls), "decode-wiring", "decode",
              "YamlDecoder::decode no longer decodes through decode_loop and loads the decoded text", site=dec.span)

    # BOM-less UTF-16 detection must work for a one-character document: the blocks that answer UTF_16BE/UTF_16LE may be dominated by
    # length tests establishing at most len >= 2 (one UTF-16 code unit), and both answers must exist
    det = F.fn("saphyr::encoding::detect_utf16_endianness")
    answers = {}
    for bi, si, s in cfg.stmts(det):
        if s["k"] == "assign" and s["rv"]["k"] == "use":
            c = op_const(s["rv"]["a"])
            if c is not None and c.get("static", "").startswith("encoding_rs::UTF_"):
                answers.setdefault(c["static"].split("::")[-1], []).append(bi)
    rep.check({"UTF_16BE", "UTF_16LE", "UTF_8"} <= set(answers), "utf16-detection", "answers", "detect_utf16_endianness no longer answers UTF_16BE, UTF_16LE and UTF_8",
              site=det.span, detail=sorted(answers))
    for enc in ("UTF_16BE", "UTF_16LE"):
        for bi in answers.get(enc, []):
            need = 0
            for fct, gb, gt in panics._dominating_facts(det, bi):
                if fct[1] == "ge":
                    need = max(need, fct[2])
            rep.check(need <= 2, "utf16-detection", enc, "the %s answer needs at least %d bytes of input: a two-byte input (one character, no BOM) is decoded as UTF-8 instead"
                      % (enc, need), site=det.span, detail={"min_len": need})
    # decode() falls back to it when there is no BOM
    rep.check(any(ck == det.key for g in [dec] + F.closures_of(dec.key) for _, _, ck, _ in g.calls()), "utf16-detection", "fallback",
              "YamlDecoder::decode no longer falls back to detect_utf16_endianness when there is no BOM", site=dec.span)

    # panic sites of encoding.rs
    table = panics.load_table(os.path.join(facts.VERIF, "tables", "panic_review_encoding.json"))
    fns = sorted(k for k, f in F.fns.items() if f.file.endswith("saphyr/src/encoding.rs") and "::test::" not in k)
    total, disc, residual = panics.review(rep, "panic-review", F, fns, table, short)
    rep.extra["panic_sites"] = {"total": total, "mechanically_discharged": disc, "reviewed": sum(len(v) for v in residual.values())}
    rep.floor("panic-capable sites inventoried in encoding.rs", total, 6)
    # a text that starts with a byte order mark: the decoder strips it from bytes; the scanner must not take it for content either
    from . import plainword
    rep.floor("stream-start cases", plainword.bom_not_content(rep, F), 4)
    # offsets into the whole input are taken from the running total: the decoder is fed `&input[total..]` and reports how much of *that*
    # it read, so an offset built from the per-call count alone points at the wrong bytes from the second call on (the callback trap and
    # the error message quote those bytes)
    dl = F.fns.get("saphyr::encoding::decode_loop")
    if dl is not None:
        dec = [(bb, t) for bb, t, ck, fr in dl.calls() if ck and "decode_to_" in ck]
        idx = [(bb, t) for bb, t, ck, fr in dl.calls() if ck == "std::ops::Index::index" and len(t["args"]) == 2]
        total = None
        for bb, t in idx:
            e1_ = cfg.expr_operand(dl, t["args"][1], 4)
            # the slice handed to the decoder
            used = any(("l" in (a.get("move") or a.get("copy") or {})) and cfg.resolve_copy_chain(dl, (a.get("move") or a.get("copy"))["l"]) is not None
                       and t["dest"]["l"] in _locals_feeding(dl, a) for _, td in dec for a in td["args"])
            if used and e1_[0] == "adt" and e1_[3] and e1_[3][0][0] == "phi":
                total = e1_[3][0][1]
        rep.check(total is not None, "running-total", "decode_loop:decoder-input", "the slice handed to the decoder no longer starts at a running total of the bytes read",
                  site=dl.span)
        nidx = 0
        for bb, t in idx:
            base = cfg.strip_reborrow(cfg.expr_operand(dl, t["args"][0], 6))
            if not (base[0] == "ref" and base[1] in (("param", 1), ("place", ("param", 1), ["deref"]))) and "arg1" not in cfg.expr_str(base):
                continue
            nidx += 1
            ex = cfg.expr_operand(dl, t["args"][1], 14)
            es = cfg.expr_str(ex)
            lv = _arith_leaves(ex)
            rep.check(total is not None and ("phi", total) in lv, "running-total", "decode_loop:input-offset#%d" % nidx,
                      "an offset into the whole input is not built from the running total of bytes read: from the second decoder call on it points at the wrong bytes",
                      site=site(dl, t["sp"]), detail=es[:200])
        rep.floor("offsets into the decoder input", nidx, 3)
    # encoding sniffing without a BOM: the table of detect_utf16_endianness over two-byte prefixes (constant folding).  YAML 1.2.2 5.2:
    # the first character of a stream is ASCII, so the position of the NUL byte of its UTF-16 encoding tells the byte order -
    # whatever that ASCII character is (a line break or a tab may start a stream just as well as a letter).
    from engine import fold
    import itertools
    det = [k for k in F.fns if k.startswith("saphyr::encoding::") and F.fns[k].d.get("output", "").endswith("encoding_rs::Encoding") and "test" not in k]
    rep.floor("byte-order sniffing functions", len(det), 1)
    SAMPLE = (0x00, 0x09, 0x0A, 0x0D, 0x20, 0x23, 0x2D, 0x61, 0x7F, 0xC3, 0xFF)
    for k in det:
        f = F.fns[k]
        bad, ncase = [], 0
        try:
            for n in (0, 1, 2, 3):
                for pre in itertools.product(SAMPLE, repeat=min(n, 2)):
                    b = tuple(pre) + ((0x2D,) if n == 3 else ())
                    ncase += 1
                    got = fold.Folder(F).call(k, [("ref", ("bytes", b))])
                    while isinstance(got, tuple) and got[0] == "ref":
                        got = got[1]
                    if len(b) < 2 or (b[0] == 0) == (b[1] == 0):
                        want = "encoding_rs::UTF_8"
                    else:
                        want = "encoding_rs::UTF_16BE" if b[0] == 0 else "encoding_rs::UTF_16LE"
                    if got != ("static", want):
                        bad.append("%s -> %s (expected %s)" % (" ".join("%02X" % x for x in b) or "empty", got[1] if isinstance(got, tuple) else got, want))
        except (fold.Unsupported, fold.Diverged) as ex:
            rep.incomplete("cannot fold %s: %s" % (short(k), ex), f.span)
            continue
        rep.check(not bad, "sniff-table", short(k), "byte-order sniffing of BOM-less input: %s" % "; ".join(bad[:4]), site=f.span, detail={"cases": ncase, "wrong": len(bad)})
    return rep
