"""Document markers are recognised at column 0 only (used by C15 and C04).

YAML 1.2.2 9.1.2: `---` and `...` are markers only at the start of a line.  Indented, they are ordinary text: in
    key: a
      --- b
the value is the plain scalar "a --- b".  Every call of Input::next_is_document_indicator / _start / _end in the scanner must
therefore sit where the column is known to be 0: on the equal edge of `self.mark.col == 0`, or of `self.mark.col == X` together with
`X == 0` (the block scalar compares the column with the content indentation, and tests for a marker when that indentation is 0).
Three of the four sites say so; a site that does not is a contradiction between siblings (one of them is wrong).
"""
from .common import *

NAMES = ("next_is_document_indicator", "next_is_document_start", "next_is_document_end")


def _strip(e):
    while isinstance(e, tuple) and e and e[0] == "cast":
        e = e[2]
    return e


def _is_col(e):
    e = _strip(e)
    return e[0] == "place" and cfg.expr_fields(e) == ["mark", "col"]


def check(rep, F, rule="marker-test-at-column-0", only=None):
    n = 0
    for k, f in sorted(F.fns.items()):
        if f.d.get("impl_adt") != SCANNER or (only and k not in only):
            continue
        sites = [(bb, t, fr["name"]) for bb, t, ck, fr in f.calls() if fr and fr.get("trait") == INPUT and fr["name"] in NAMES]
        if not sites:
            continue
        D = f.dominators()
        for idx, (bb, t, nm) in enumerate(sites):
            n += 1
            eqs = []
            for d in D.get(bb, ()):
                tt = f.blocks[d]["term"]
                if d == bb or tt["k"] != "switch" or tt["dty"] != "bool":
                    continue
                e = cfg.expr_operand(f, tt["discr"], 8)
                neg = False
                while e[0] == "un" and e[1] == "Not":
                    e = e[2]
                    neg = not neg
                if e[0] != "bin" or e[1] not in ("Eq", "Ne"):
                    continue
                m, other = cfg.switch_edge_blocks(f, d)
                true_tg, false_tg = other, m.get(0)
                if neg:
                    true_tg, false_tg = false_tg, true_tg
                eq_tg = true_tg if e[1] == "Eq" else false_tg
                if eq_tg is not None and (bb == eq_tg or cfg.dominated_by_edge(f, bb, d, eq_tg)):
                    eqs.append((_strip(e[2]), _strip(e[3]), d))
            # column == 0 directly, or column == X and X == 0 (X not reassigned between the two tests and the site)
            known = False
            for a, b, d in eqs:
                for x, y in ((a, b), (b, a)):
                    if _is_col(x) and y == ("const", 0):
                        known = True
                    if _is_col(x) and y[0] in ("phi", "local"):
                        for a2, b2, d2 in eqs:
                            for x2, y2 in ((a2, b2), (b2, a2)):
                                if x2 == y and y2 == ("const", 0):
                                    lo = y[1]
                                    # X must not change between the two tests and the site: no write of X (assignment, or a mutable
                                    # borrow handed to a call) in a block that lies after the earlier test on a way to the site
                                    first = d if d in D.get(d2, ()) else d2
                                    after = cfg.blocks_reachable_from(f, [first])
                                    before = {q for q in after if bb in cfg.blocks_reachable_from(f, [q])} - {bb}
                                    redefined = False
                                    for bi, si, st_ in cfg.stmts(f):
                                        if bi in before and bi != first and st_["k"] == "assign":
                                            if not st_["lhs"]["p"] and st_["lhs"]["l"] == lo and bi in D.get(bb, ()):
                                                redefined = True
                                            if st_["rv"]["k"] == "ref" and st_["rv"].get("mut") and st_["rv"]["p"]["l"] == lo and bi in D.get(bb, ()) and first in D.get(bi, ()):
                                                redefined = True
                                    if not redefined:
                                        known = True
            rep.check(known, rule, "%s:%s#%d" % (short(k), nm, idx + 1),
                      "a document marker is looked for where the column is not known to be 0: an indented `---` or `...` (ordinary text of a multi-line scalar) "
                      "is taken for a marker", site=site(f, t["sp"]), detail={"equalities_known_here": [cfg.expr_str(a) + " == " + cfg.expr_str(b) for a, b, d in eqs]})
    return n
