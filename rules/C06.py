"""C06 — ill-formed YAML is rejected with an error, never silently accepted.

Clauses decided: (a) error discipline: no Result<_, ScanError> (nor the Result half of skip_ws_to_eol's tuple) produced in
scanner/parser/loader is dropped; (b) error latch: Scanner::next tests the latched error first and stores every Err of next_token,
Parser::scan_next_token turns a None of the scanner into an Err on every path; (c) parser acceptance sets: for each state the set of
token kinds (of the first token looked at) on which a non-Err outcome exists must not grow beyond tables/c06_accept_sets.json;
(d) guard => Err obligations of the scanner and parser, keyed by function and guard predicate.
"""
import json
from .common import *
from engine import e5, tables
from engine.facts import is_local, op_const, const_value, op_place
from . import C02

PID = "C06"
P = PARSER + "::"
S = SCANNER + "::"


def new_report(tier):
    return make_report(PID, tier, "proof", [
        "an error reaches the caller only through the Result it is returned in (no panics/out-parameters are used for errors)",
        "the mapping from the property's list of ill-formed inputs to the guards of clause (d) was made by reading the code",
    ], "E2 def-use of every Result-returning call site (dropped-result rule), dominance/must-reach-Err for the enumerated guards, E5 acceptance "
       "sets compared with the confirmed table. Decides that the listed rejections exist and cannot be skipped on any path through their guard, "
       "not that every damaged text reaches one of the guards.")


def local_uses(f, l):
    """number of reads of local l (operands, places, call arguments, switch discriminants); drops/StorageDead do not count"""
    n = 0
    for bi, b in enumerate(f.blocks):
        if b["cleanup"]:
            continue
        for s in b["stmts"]:
            if s["k"] == "assign":
                for p in cfg.rv_places(s["rv"]):
                    if p["l"] == l:
                        n += 1
                if s["lhs"]["l"] == l and s["lhs"]["p"]:
                    pass
        t = b["term"]
        if t["k"] == "call":
            for a in t["args"]:
                p = op_place(a)
                if p is not None and p["l"] == l:
                    n += 1
        elif t["k"] == "switch":
            p = op_place(t["discr"])
            if p is not None and p["l"] == l:
                n += 1
    return n


def clause_a(rep, F):
    n = 0
    for k, f in sorted(F.fns.items()):
        if f.file not in ("parser/src/scanner.rs", "parser/src/parser.rs", "saphyr/src/loader.rs", "parser/src/input.rs") or "::test" in k:
            continue
        for bb, t, ck, fr in f.calls():
            ty = t["dest_ty"]
            is_res = ty.startswith("std::result::Result<") and "ScanError" in ty
            is_tuple = ty.startswith("(usize, std::result::Result<")
            if not (is_res or is_tuple):
                continue
            if ck and (ck.endswith("Try::branch") or ck.endswith("from_residual")):
                continue
            n += 1
            d = t["dest"]
            if d["l"] == 0:
                rep.ok("error-not-dropped", "%s<-%s" % (short(k), short(ck or "?")), "returned")
                continue
            uses = local_uses(f, d["l"])
            if is_tuple and uses:
                # the .1 half must be read
                read1 = False
                for bi, si, s in cfg.stmts(f):
                    if s["k"] == "assign":
                        for p in cfg.rv_places(s["rv"]):
                            if p["l"] == d["l"] and any(e["k"] == "field" and e["i"] == 1 for e in p["p"]):
                                read1 = True
                # or the whole tuple handed on
                whole = any(op_place(a) is not None and op_place(a)["l"] == d["l"] and not op_place(a)["p"] for b2 in f.blocks if not b2["cleanup"] and b2["term"]["k"] == "call"
                            for a in b2["term"]["args"])
                moved = any(s["k"] == "assign" and s["rv"]["k"] == "use" and is_local(s["rv"]["a"]) == d["l"] for _, _, s in cfg.stmts(f))
                uses = 1 if (read1 or whole or moved) else 0
            rep.check(uses > 0, "error-not-dropped", "%s<-%s" % (short(k), short(ck or "?")),
                      "the Result of this call is dropped: an error raised by the callee is silently ignored", site=site(f, t["sp"]))
    rep.floor("Result<_, ScanError>-returning call sites", n, 120)


def clause_b(rep, F):
    it = F.fn("<%s as std::iter::Iterator>::next" % SCANNER)
    calls = [bb for bb, t, ck, fr in it.calls() if ck == S + "next_token"]
    okfirst = False
    for bi, b in enumerate(it.blocks):
        if b["cleanup"] or b["term"]["k"] != "switch":
            continue
        e = cfg.expr_operand(it, b["term"]["discr"], 8)
        s = cfg.expr_str(e)
        if "error" in s and calls:
            m, other = cfg.switch_edge_blocks(it, bi)
            for tg in set(it.succs(bi)):
                if cfg.dominated_by_edge(it, calls[0], bi, tg):
                    okfirst = True
    rep.check(okfirst and len(calls) == 1, "error-latch", "Scanner::next:test-first", "Scanner::next no longer tests the latched error before scanning on", site=it.span)
    # every Err of next_token is stored into self.error
    stored = False
    ws = [w for w in cfg.field_writes(it, SCANNER, "error") if w["kind"] == "assign"]
    if calls and ws:
        cb = calls[0]
        res = it.blocks[cb]["term"]["dest"]["l"]
        sw = [(bb, p) for bb, p, adt in tables.discr_switches(it) if adt == "std::result::Result" and cfg.resolve_copy_chain(it, p["l"]) == res]
        for bb, p in sw:
            m, other = cfg.switch_edge_blocks(it, bb)
            err_tg = m.get(1, other)
            wb = {w["bb"] for w in ws}
            esc = None if err_tg in wb else cfg.flag_reach(it, err_tg, cfg.return_blocks(it), avoid=wb)
            if esc is None:
                stored = True
    rep.check(stored, "error-latch", "Scanner::next:store", "an Err of next_token can leave Scanner::next without being latched in self.error", site=it.span)
    snt = F.fn(P + "scan_next_token")
    # the None edge of the scanner's answer leads only to Err results
    okn = False
    for bb, p, adt in tables.discr_switches(snt):
        if adt == "std::option::Option":
            e = cfg.expr_local(snt, p["l"], 6)
            if e[0] == "call" and e[1] and e[1].endswith("Iterator>::next") or (e[0] == "call" and "next" in (e[1] or "")):
                m, other = cfg.switch_edge_blocks(snt, bb)
                none_tg = m.get(0, other)
                oks = {bi for bi, si, s in cfg.stmts(snt) if s["k"] == "assign" and s["lhs"]["l"] == 0 and s["rv"]["k"] == "agg" and s["rv"].get("variant") == "Ok"}
                r = cfg.blocks_reachable_from(snt, [none_tg])
                okn = not (oks & r) and bool(cfg.err_sink_blocks(snt) & r)
    rep.check(okn, "error-latch", "Parser::scan_next_token", "a None from the scanner is no longer turned into an error on every path", site=snt.span)


GUARDS = [
    # (function, label, substring(s) that identify the guard expression, edge that must lead to Err: 'true' / 'false' / 'none')
    (S + "scan_flow_scalar", "end of stream inside quotes", ["Input::next_is_z("], "true"),
    (S + "scan_flow_scalar", "document indicator inside quotes", ["Input::next_is_document_indicator("], "true"),
    (S + "fetch_next_token", "content after document end marker", ["Input::next_is_breakz("], "false"),
    (S + "fetch_next_token", "invalid indentation", ["Lt(", "mark.col", "indent"], "true"),
    (S + "stale_simple_keys", "required simple key went stale", [".required"], "true"),
    (S + "fetch_stream_end", "required simple key at end of stream", [".possible"], "true"),
    (S + "remove_simple_key", "required simple key removed", [".required"], "true"),
    (S + "skip_to_next_token", "tab as block indentation", ["Input::next_is_breakz("], "false"),
    (S + "scan_plain_scalar", "tab in plain scalar indentation", ["Input::next_is_breakz("], "false"),
    (S + "resolve_flow_scalar_escape_sequence", "non-hex digit in escape", ["char_traits::is_hex("], "false"),
    (S + "resolve_flow_scalar_escape_sequence", "invalid code point in escape", ["discr(", "char::from_u32("], "none"),
    (P + "parse_node", "alias with no anchor", ["discr(", "HashMap::get(", "anchors"], "none"),
    (P + "parser_process_directives", "repeated %YAML directive", ["phi("], "true"),
]


def clause_d(rep, F):
    for fk, label, needles, edge in GUARDS:
        f = F.fn(fk)
        errs = cfg.err_sink_blocks(f)
        rets = cfg.return_blocks(f)
        found = 0
        good = 0
        for bi, b in enumerate(f.blocks):
            if b["cleanup"] or b["term"]["k"] != "switch":
                continue
            e = cfg.expr_operand(f, b["term"]["discr"], 12)
            s = cfg.expr_str(e)
            neg = False
            ee = e
            while ee[0] == "un" and ee[1] == "Not":
                ee = ee[2]
                neg = not neg
            if not all(n in s for n in needles):
                continue
            if label == "repeated %YAML directive":
                # the test is on a boolean flag of the function (whatever it is called): every definition of it is a constant
                rl = _root_local(f, b["term"]["discr"])
                dfs = cfg.defs_of_local(f, rl) if rl is not None else []
                if rl is None or rl < 0 or f.locals[rl]["ty"] != "bool" or not dfs or not all(
                        d[0] == "stmt" and d[3]["rv"]["k"] == "use" and isinstance(const_value(op_const(d[3]["rv"]["a"]) or {}), bool) for d in dfs):
                    continue
            m, other = cfg.switch_edge_blocks(f, bi)
            if edge == "none":
                tg = m.get(0, other)
                if 0 not in m and 1 not in m:
                    continue
                # `opt.ok_or(..)?` / `opt.ok_or_else(..)?`: the test is on the ControlFlow of Try::branch, whose Break edge (1) is the None case
                if ee[0] == "discr" and ee[1][0] == "call" and (ee[1][1] or "").endswith("Try>::branch") and ee[1][2] and ee[1][2][0][0] == "call" \
                        and (ee[1][2][0][1] or "").endswith(("Option::ok_or_else", "Option::ok_or")):
                    tg = m.get(1, other)
            elif edge == "break":
                tg = m.get(1, other)
            else:
                want_true = (edge == "true") != neg
                tg = other if want_true else m.get(0)
                if tg is None:
                    continue
            # does this edge lead to Err on every path?  (candidate guards that do not are other uses of the same predicate)
            esc = cfg.flag_reach(f, tg, rets, avoid=errs) if tg not in errs else None
            if tg in rets:
                esc = [tg]
            found += 1
            if esc is None and (errs & cfg.blocks_reachable_from(f, [tg])):
                good += 1
        rep.check(good >= 1, "guard-implies-err", "%s:%s" % (short(fk), label),
                  "no guard of this kind leads to an error on every path any more (%d candidate tests found): this ill-formedness is now accepted" % found,
                  site=f.span)
    # flow nesting limit (either formulation accepted, see C11.flow_depth_bound)
    from . import C11
    okb, how = C11.flow_depth_bound(F)
    rep.check(okb, "guard-implies-err", "scanner::Scanner::increase_flow_level:flow nesting limit", "exceeding the flow nesting limit no longer leads to an error", detail=how)
    # unknown escape: the default arm of the switch on the escape character reaches Err
    rf = F.fn(S + "resolve_flow_scalar_escape_sequence")
    okdef = False
    for bi, b in enumerate(rf.blocks):
        t = b["term"]
        if b["cleanup"] or t["k"] != "switch" or len(t["vals"]) < 15:
            continue
        e = cfg.expr_operand(rf, t["discr"], 6)
        if "peek_nth" in cfg.expr_str(e):
            errs = cfg.err_sink_blocks(rf)
            tg = t["otherwise"]
            esc = cfg.flag_reach(rf, tg, cfg.return_blocks(rf), avoid=errs) if tg not in errs else None
            okdef = esc is None
    rep.check(okdef, "guard-implies-err", "scanner::Scanner::resolve_flow_scalar_escape_sequence:unknown escape character",
              "a character after `\\` that is not a known escape no longer leads to an error", site=rf.span)
    # document_end: a directive after an implicit document end is an error
    de = F.fn(P + "document_end")
    errs = cfg.err_sink_blocks(de)
    tt = F.adt("saphyr_parser::scanner::TokenType")
    idx = {v["name"]: v["discr"] for v in tt["variants"]}
    okde = False
    for bb, p, adt in tables.discr_switches(de):
        if adt != "saphyr_parser::scanner::TokenType":
            continue
        m, other = cfg.switch_edge_blocks(de, bb)
        if idx["VersionDirective"] in m and idx["TagDirective"] in m:
            ok2 = True
            for v in (idx["VersionDirective"], idx["TagDirective"]):
                tg = m[v]
                esc = cfg.flag_reach(de, tg, cfg.return_blocks(de), avoid=errs) if tg not in errs else None
                ok2 = ok2 and esc is None
            okde = okde or ok2
    rep.check(okde, "guard-implies-err", "parser::Parser::document_end:directive without document end marker",
              "a directive following a document without `...` no longer leads to an error", site=de.span)


def _root_local(f, op):
    l = is_local(op)
    if l is None:
        return -1
    return cfg.resolve_copy_chain(f, l)


def clause_c(rep, F):
    with open(os.path.join(facts.VERIF, "tables", "c06_accept_sets.json")) as fh:
        table = json.load(fh)["sets"]
    E = e5.E5(F)
    disp, sm = C02.dispatch_table(F)
    acc = {}
    pending = []
    for nm, d in sorted(disp.items()):
        if d is None or d[0] not in F.fns:
            continue
        pending.append((nm, d[0], d[1]))
    seen_inst = set()
    while pending:
        nm, key, args = pending.pop()
        if (nm, key, args) in seen_inst:
            continue
        seen_inst.add((nm, key, args))
        for o in E.outcomes(key, args):
            if o["kind"] == "panic":
                continue
            r = e5.describe_result(o["result"])
            if r == ("err",):
                continue
            for gi, c in enumerate(o.get("toks") or []):
                if gi > 3:
                    break
                acc.setdefault("%s#%d" % (nm, gi), set()).update(E.tok_names[x] for x in c)
            if r[0] == "tail":
                label = "%s%s" % (r[1].split("::")[-1], list(r[2]))
                pending.append((label, r[1], r[2]))
    rep.extra["accept_sets"] = {k: sorted(v) for k, v in sorted(acc.items())}
    n = 0
    for nm, got in sorted(acc.items()):
        n += 1
        want = table.get(nm)
        if want is None:
            rep.bad("accept-set", nm, "handler instance without a confirmed acceptance set (new state or new tail call): review and add it to "
                    "tables/c06_accept_sets.json", detail=sorted(got))
            continue
        grown = sorted(got - set(want))
        rep.check(not grown, "accept-set", nm, "token kind(s) %s used to be a syntax error in state %s and now have a non-error outcome" % (grown, nm),
                  detail={"confirmed": want, "now": sorted(got)})
    rep.floor("handler instances with an acceptance set", n, 30)


def clause_e(rep, F):
    """'a tab used as block indentation is an error' hangs on the scanner knowing it is at the start of a line: every function that
    consumes input and moves the mark to a new line (writes mark.line) also sets leading_whitespace = true on every path that leaves it."""
    from . import C12
    n = 0
    for k, f in sorted(F.fns.items()):
        if f.crate != "saphyr_parser" or f.d.get("impl_adt") != SCANNER or f.name.startswith("new"):
            continue
        lw = C12.mark_field_writes(f, "line")
        if not lw or not C12.consuming_calls(f):
            continue
        n += 1
        sets = set()
        for w in cfg.field_writes(f, SCANNER, "leading_whitespace"):
            if w["kind"] == "assign" and w["stmt"]["rv"]["k"] == "use":
                c = op_const(w["stmt"]["rv"]["a"])
                if c is not None and const_value(c) is True:
                    sets.add((w["bb"], w["idx"]))
        bad = None
        for bi, si, st in lw:
            if any(b == bi and i > si for b, i in sets):
                continue
            p = cfg.flag_reach(f, bi, cfg.return_blocks(f), avoid={b for b, i in sets if b != bi})
            if p is not None:
                bad = p
        rep.check(bad is None, "line-start-flag", short(k), "this function consumes a line break (advances mark.line) but can return without setting "
                  "leading_whitespace: the next line's indentation is not recognised as such (tabs there are accepted)", site=f.span, detail={"path": bad})
    rep.floor("functions that consume a line break", n, 1)


def clause_e2(rep, F, rule="indentation-blanks-pass-the-tab-test"):
    """'a tab used as block indentation is an error': the two loops that walk over the blanks at the start of a line (skip_to_next_token,
    and the blank/break loop of scan_plain_scalar for continuation lines) test `column < indent && character is a tab` once per
    character.  That only covers every indentation column if the blanks are consumed one at a time: a call that consumes a whole run
    of blanks (skip_while_blank, skip_ws_to_eol - they take tabs without looking) must sit behind the tab test's true edge (the line is
    then required to be empty) or on the `leading_whitespace == false` side (blanks after content are not indentation)."""
    S_ = SCANNER + "::"
    BULK = ("::skip_while_blank", "::skip_ws_to_eol")

    def is_bulk(ck, depth=0):
        if not ck:
            return False
        if ck.endswith(BULK):
            return True
        g = F.fns.get(ck)
        if g is not None and depth < 2 and g.d.get("impl_adt") == SCANNER and not ck.endswith(("::skip_blank", "::skip_non_blank", "::skip_nl")):
            return any(is_bulk(c2, depth + 1) for _, _, c2, _ in g.calls() if c2 and (c2.endswith(BULK)))
        return False
    n = 0
    for nm in ("skip_to_next_token", "scan_plain_scalar"):
        f = F.fn(S_ + nm)
        bulk = [(bb, t, ck) for bb, t, ck, fr in f.calls() if is_bulk(ck)]
        tabg, lwf = [], []
        for bi, b in enumerate(f.blocks):
            t = b["term"]
            if b["cleanup"] or t["k"] != "switch":
                continue
            es = cfg.expr_str(cfg.expr_operand(f, t["discr"], 8))
            m, other = cfg.switch_edge_blocks(f, bi)
            if es.startswith("Lt((*arg1.mark.col") and "indent" in es and any(cfg.dominated_by_edge(f, bb, bi, other) for bb, _, ck in bulk if ck.endswith("::skip_ws_to_eol")):
                tabg.append((bi, other))
            if es == "*arg1.leading_whitespace" and 0 in m:
                lwf.append((bi, m[0]))
        rep.check(bool(tabg), "guard-implies-err", "%s:tab test on the indentation columns" % short(f.key), "the test `column < indent` that sends a tab in the indentation to "
                  "skip_ws_to_eol (and then to an error unless the line is empty) is gone", site=f.span)
        for bb, t, ck in bulk:
            n += 1
            ok = any(bb == tg or cfg.dominated_by_edge(f, bb, bi, tg) for bi, tg in tabg + lwf)
            rep.check(ok, rule, "%s->%s" % (short(f.key), short(ck)), "a whole run of blanks is consumed at a place that is neither behind the tab test nor after content on "
                      "the line: only the first blank of the run is tested, a tab further into the indentation is accepted as one column", site=site(f, t["sp"]))
    rep.floor("blank-run consumers in the two indentation loops", n, 2)


def clause_g(rep, F, rule="fetch-yields-a-token"):
    """The parser rejects ill-formed streams by the kind of the next token ('a directive must be followed by ---', 'a directive needs a
    preceding ...', 'expected , or ]', ...).  Those rejections exist only if what the scanner saw is in the token stream: every fetch_*
    function the dispatcher hands the cursor to queues at least one token on every path that returns Ok.  A fetcher that consumes a
    construct and queues nothing (a reserved directive skipped silently) makes the construct invisible to every check behind it."""
    S_ = SCANNER + "::"
    fnt = F.fn(S_ + "fetch_next_token")
    fetchers = sorted({ck for bb, t, ck, fr in fnt.calls() if ck and ck.startswith(S_ + "fetch_")} | {S_ + "fetch_stream_start", S_ + "fetch_stream_end"})
    PUSH = ("VecDeque::push_back", "VecDeque::insert", "VecDeque::push_front")

    def pushing(ck, depth=0):
        if not ck:
            return False
        if ck.endswith(PUSH):
            return True
        g = F.fns.get(ck)
        if g is None or depth > 2 or not ck.startswith(S_):
            return False
        # a helper counts when every Ok path of it queues a token (insert_token, roll_indent are conditional: they do not count)
        return _always_pushes(g, depth + 1)

    def _always_pushes(g, depth):
        pb = {bb for bb, t, ck, fr in g.calls() if pushing(ck, depth)}
        if not pb:
            return False
        return cfg.flag_reach(g, 0, cfg.return_blocks(g), avoid=pb | cfg.err_sink_blocks(g)) is None
    n = 0
    for fk in fetchers:
        f = F.fns.get(fk)
        if f is None:
            continue
        n += 1
        pb = {bb for bb, t, ck, fr in f.calls() if pushing(ck)}
        esc = (None if 0 in pb else cfg.flag_reach(f, 0, cfg.return_blocks(f), avoid=pb | cfg.err_sink_blocks(f))) if pb else [0]
        rep.check(esc is None, rule, short(fk), "%s can return Ok without having queued a token: what it consumed leaves no trace for the parser, whose rejections "
                  "(directive without '---', directive after an open document, missing separators) hang on the token kinds" % f.name, site=f.span,
                  detail={"escaping_path": esc})
    rep.floor("fetch functions reached from the dispatcher", n, 14)


def _flow_guard(f, bi):
    t = f.blocks[bi]["term"]
    if t["k"] != "switch" or t["dty"] != "bool" or t["vals"] != [0]:
        return None
    e = cfg.expr_operand(f, t["discr"], 6)
    tt, ft = t["otherwise"], t["targets"][0]
    while e[0] == "un" and e[1] == "Not":
        e = e[2]
        tt, ft = ft, tt
    if e[0] == "bin" and cfg.expr_fields(e[2]) == ["flow_level"] and e[3] == ("const", 0):
        if e[1] in ("Gt", "Ne"):
            return {tt: "POS", ft: "ZERO"}
        if e[1] == "Eq":
            return {tt: "ZERO", ft: "POS"}
    return None


def clause_f(rep, F):
    """The indentation bookkeeping (roll_indent, roll_one_col_indent, unroll_indent) does nothing inside a flow collection: each of these
    functions returns at once when flow_level > 0.  The guards 'a flow collection continued no deeper than its enclosing block' and 'tab
    as indentation' depend on the indents they push, so a call to one of them that is reached only with flow_level >= 1 (after a
    successful increase_flow_level, or under a `flow_level > 0` test, with no possible decrease in between) can have no effect and the
    guard it was written for is lost.  Must-analysis over {unknown, zero, positive} for flow_level along every path of every scanner
    function."""
    from engine import callgraph
    S = SCANNER + "::"
    edges, _ = callgraph.build(F)
    writers = {k for k, f in F.fns.items() if f.crate == "saphyr_parser" and cfg.field_writes(f, SCANNER, "flow_level")}
    maywrite = {k for k in F.fns if k in writers or (set(callgraph.reachable(edges, [k])) & writers)}
    inert = set()
    for k, f in F.fns.items():
        if f.d.get("impl_adt") != SCANNER or f.kind != "AssocFn" or f.d.get("output") not in ("()", None) and f.locals[0]["ty"] != "()":
            continue
        if f.locals[0]["ty"] != "()" or not any(_flow_guard(f, b) for b in range(len(f.blocks))):
            continue
        seen, st = set(), [0]
        while st:
            b = st.pop()
            if b in seen or f.blocks[b]["cleanup"]:
                continue
            seen.add(b)
            g = _flow_guard(f, b)
            for sx in f.succs(b):
                if g and g.get(sx) == "ZERO":
                    continue
                st.append(sx)
        eff = False
        for b in seen:
            blk = f.blocks[b]
            if blk["term"]["k"] == "call":
                eff = True
            for s_ in blk["stmts"]:
                if s_["k"] == "assign" and s_["lhs"]["l"] == 1 and s_["lhs"]["p"]:
                    eff = True
        if not eff:
            inert.add(k)
    rep.floor("indentation functions that are inert inside flow collections", len(inert), 3)
    rep.extra["flow_inert_functions"] = sorted(short(k) for k in inert)
    n = 0
    for k, f in sorted(F.fns.items()):
        if f.d.get("impl_adt") != SCANNER or not any(ck in inert for _, _, ck, _ in f.calls()):
            continue
        IN = {0: "UNK"}
        work = [0]
        at = {}
        while work:
            b = work.pop()
            st = IN[b]
            t = f.blocks[b]["term"]
            if t["k"] == "call":
                fr = t["f"].get("fn")
                ck = (fr.get("resolved") or fr["key"]) if fr else None
                at[b] = st
                if ck == S + "increase_flow_level":
                    st = "POS"
                elif ck in maywrite:
                    st = "UNK"
            g = _flow_guard(f, b)
            for sx in f.succs(b):
                if f.blocks[sx]["cleanup"]:
                    continue
                ns = g.get(sx, st) if g else st
                if g and st != "UNK" and g.get(sx) and g.get(sx) != st:
                    continue
                old = IN.get(sx)
                new = ns if old is None else (old if old == ns else "UNK")
                if new != old:
                    IN[sx] = new
                    work.append(sx)
        for bb, t, ck, fr in f.calls():
            if ck in inert:
                n += 1
                rep.check(at.get(bb) != "POS", "indent-call-live", "%s->%s" % (short(k).split("::")[-1], short(ck).split("::")[-1]),
                          "%s is called where flow_level >= 1 on every path, so it does nothing: the indentation it was meant to record (which "
                          "rejects under-indented continuation lines and tab indentation) is lost" % short(ck).split("::")[-1], site=site(f, t["sp"]))
    rep.floor("calls of the indentation functions", n, 8)


def run(tier):
    rep = new_report(tier)
    F = facts.load()
    clause_a(rep, F)
    clause_e(rep, F)
    clause_e2(rep, F)
    clause_g(rep, F)
    clause_f(rep, F)
    clause_b(rep, F)
    clause_c(rep, F)
    clause_d(rep, F)
    # "an implicit key longer than 1024 characters" - and not one of exactly 1024
    from . import keylimit
    rep.floor("key-length comparisons", keylimit.check(rep, F), 1)
    # 'a named tag handle that was never declared' is an error only if the declarations of earlier documents are gone: the handle table is cleared with its document and an unknown handle leads to Err (C16's rules, run here as a premise)
    if os.environ.get("VERIF_NO_PREMISE") != "1":
        from . import C16 as _C16
        _sub = _C16.run("quick")
        _prem = [v for v in _sub.violations if v["rule"] in ('undeclared-handle-err', 'tags-writer', 'tags-reset-at-document-end', 'duplicate-handle-err')]
        rep.check(not _prem, "tag-handle-table-premise", "Parser.tags", "the table of tag handles no longer provably belongs to one document (%s): a tag can resolve through a "
                  "declaration of another document, or an undeclared handle be accepted" % "; ".join(sorted({"%s %s" % (v["rule"], v["key"].split(":", 1)[-1][:50]) for v in _prem})[:3]),
                  detail={"violations_of_C16": len(_prem)})
    return rep
