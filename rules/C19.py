"""C19 — all node types and loading modes hold the same data.

Clauses decided: (a) take->restore in parse_representation(_recursive) of the four node families;
(b) variant maps of from_bare_yaml x3, Scalar::into_owned, ScalarOwned::as_scalar are variant-preserving
with payloads taken from the same-position field; the loader's early_parse switch builds from the same
three operands; (c) equality and hashing of marked nodes read only `data`; (d) the four macro
instantiations expose the same method set.
"""
from .common import *
from engine import tables
from engine.facts import is_local, op_place

PID = "C19"
CONVERSIONS = ("::into", "::into_owned", "::from", "::clone", "::as_str", "::deref", "::to_owned", "::as_ref", "::borrow", "::to_string")
# methods the macro generates for one flavour only, with the reason
PARITY_EXCEPTIONS = {"value_from_str": "borrowing constructor: an owned node cannot borrow from the caller's &str"}


def new_report(tier):
    return make_report(PID, tier, "proof", [
        "mem::swap/take-like helpers leave the replacement value behind (BadValue) until *self is reassigned",
        "Into/From/into_owned/clone conversions between Cow<str>, String, &str, Tag preserve the value (std)",
    ], "E2 must-pass-through (flag-sensitive) from every take of *self to every return; E4 variant-map extraction "
       "from the discriminant switch of each converter; field-read inventory of the manual PartialEq/Hash impls; "
       "method-set comparison of the four node types. Decides the structural clauses, not value equality of trees.")


def data_adt(self_adt):
    return {"saphyr::annotated::marked_yaml::MarkedYaml": "saphyr::annotated::yaml_data::YamlData",
            "saphyr::annotated::marked_yaml_owned::MarkedYamlOwned": "saphyr::annotated::yaml_data_owned::YamlDataOwned"}.get(self_adt, self_adt)


def _built_variants(F, f, e, self_adt, dadt):
    """variants of the data type that an `Option::map_or(_else)` argument builds: a ready value, a tuple-variant
    constructor used as a function, or a closure"""
    if e[0] == "adt":
        out = set()
        if e[1] == dadt:
            out.add(e[2])
        for a in e[3]:
            out |= _built_variants(F, f, a, self_adt, dadt)
        return out
    if e[0] == "fnitem":
        k = e[1]
        if k.startswith(dadt + "::"):
            return {k[len(dadt) + 2:]}
        return {"?" + k}
    if e[0] == "closure":
        c = F.fns.get(e[1])
        if c is not None:
            return {s["rv"]["variant"] for _, _, s in cfg.stmts(c) if s["k"] == "assign" and s["rv"]["k"] == "agg"
                    and s["rv"].get("adt") == dadt}
        return {"?closure"}
    if e[0] == "local" or e[0] == "phi":
        # closure aggregates are assigned to a local: look at its definition
        for d in cfg.defs_of_local(f, e[1]):
            if d[0] == "stmt" and d[3]["rv"]["k"] == "agg" and d[3]["rv"].get("agg") == "closure":
                c = F.fns.get(d[3]["rv"]["def"])
                if c is not None:
                    return {s["rv"]["variant"] for _, _, s in cfg.stmts(c) if s["k"] == "assign" and s["rv"]["k"] == "agg"
                            and s["rv"].get("adt") == dadt}
    return {"?" + str(e[0])}


def take_like(ck):
    return ck is not None and (ck.endswith("::take") or ck in ("std::mem::take", "std::mem::replace", "std::mem::swap"))


def whole_self(f, op):
    e = cfg.expr_operand(f, op)
    return e == ("ref", ("place", ("param", 1), ["deref"]))


def restore_blocks(f):
    out = set()
    for bi, si, s in cfg.stmts(f):
        if s["k"] == "assign" and s["lhs"]["l"] == 1 and s["lhs"]["p"] == [{"k": "deref"}]:
            out.add(bi)
    return out


def span_blind(rep, F, rule):
    """Eq and Hash of the marked node types read exactly the `data` field of their operands (so they agree with each other, and ignore spans)"""
    for ty in ("saphyr::annotated::marked_yaml::MarkedYaml", "saphyr::annotated::marked_yaml_owned::MarkedYamlOwned"):
        for k, f in sorted(F.fns.items()):
            if f.d.get("impl_adt") != ty or f.kind != "AssocFn":
                continue
            tr = f.d.get("impl_trait")
            if not ((tr == "std::cmp::PartialEq" and f.name == "eq") or (tr == "std::hash::Hash" and f.name == "hash")):
                continue
            nparams = 2 if f.name == "eq" else 1
            read = {i: set() for i in range(1, nparams + 1)}
            whole = []
            for bi, b in enumerate(f.blocks):
                if b["cleanup"]:
                    continue
                places = []
                for s in b["stmts"]:
                    if s["k"] == "assign":
                        places += cfg.rv_places(s["rv"])
                t = b["term"]
                if t["k"] == "call":
                    for a in t["args"]:
                        p = op_place(a)
                        if p is not None:
                            places.append(p)
                for p in places:
                    if p["l"] in read:
                        fl = cfg.place_fields(p)
                        if fl:
                            read[p["l"]].add(fl[0])
                        elif not (p["p"] == [{"k": "deref"}] or not p["p"]):
                            pass
                # the reference itself handed to a call = whole-node use
                if t["k"] == "call":
                    for a in t["args"]:
                        l = is_local(a)
                        if l is not None:
                            o = cfg.expr_local(f, l)
                            if o in [("param", i) for i in read] or (o[0] == "ref" and o[1][0] == "place" and o[1][1] in [("param", i) for i in read]
                                                                     and not [x for x in o[1][2] if x != "deref"]):
                                whole.append(cfg.expr_str(o))
            okc = all(v == {"data"} for v in read.values()) and not whole
            rep.check(okc, rule, short(k), "equality/hash of a marked node reads something other than `data` (the span must not take part)",
                      site=f.span, detail={"fields_read": {str(i): sorted(v) for i, v in read.items()}, "whole_uses": whole})


def _payload(e):
    """(variant, field index) an expression takes, unchanged, from the payload of an enum value (through Into/as_ref/reborrows)"""
    e = cfg.strip_reborrow(e)
    while e[0] == "call" and e[1] in ("<T as std::convert::Into<U>>::into", "std::option::Option::as_ref", "std::convert::From::from") and len(e[2]) == 1:
        e = cfg.strip_reborrow(e[2][0])
        if e[0] == "ref":
            e = e[1]
    if e[0] == "ref":
        e = e[1]
    if e[0] == "place" and len(e[2]) >= 2 and e[2][-2][0] == "downcast" and e[2][-1][0] == "field":
        return (e[2][-2][1], int(e[2][-1][1]), e[1])
    return None


def recursive_resolution(rep, F):
    """Resolving the whole tree reaches every node: (1) the marked node types hand parse_representation_recursive on to the *recursive*
    resolver of their `data`; (2) inside the recursive resolvers (and the closures they give to map/for_each) every recursive call is
    executed on every path - a call behind `&&` or an early exit leaves the rest of a collection unresolved."""
    n = 0
    for k, f in sorted(F.fns.items()):
        if f.name != "parse_representation_recursive" or f.crate != "saphyr":
            continue
        if f.d.get("impl_trait") and f.d["impl_trait"].endswith("AnnotatedNode"):
            n += 1
            calls = [(bb, t, ck) for bb, t, ck, fr in f.calls() if ck and "parse_representation" in ck]
            okd = len(calls) == 1 and calls[0][2].endswith("::parse_representation_recursive")
            if okd:
                bb, t, ck = calls[0]
                recv = cfg.strip_reborrow(cfg.expr_operand(f, t["args"][0], 6))
                if recv[0] == "ref":
                    recv = recv[1]
                okd = recv[0] == "place" and recv[1] == ("param", 1) and [x for x in recv[2] if x != "deref"] == [("field", "data")] \
                    and cfg.escapes(f, 0, {bb}, ()) is None and cfg.expr_local(f, 0, 6)[0] == "call" and cfg.expr_local(f, 0, 6)[1] == ck
            rep.check(okd, "recursive-resolver-delegates", short(k), "the marked node type does not hand parse_representation_recursive on to the recursive resolver of its data "
                      "(nested nodes stay unresolved)", site=f.span, detail=[c[2] for c in calls])
            continue
        if not f.file.endswith("macros.rs"):
            continue
        bodies = [f] + [g for g in F.fns.values() if (g.d.get("closure_of") or "").startswith(f.key)]
        # a closure that makes the recursive call is run once per node only when the iterator it is given to is driven to its end: a consumer
        # that may stop early (`all`, `any`, `find`, `try_fold`, `take_while`, ...) leaves the nodes after the first failure unresolved
        SHORT = ("all", "any", "find", "find_map", "position", "rposition", "try_fold", "try_for_each", "take_while", "map_while", "scan", "take", "nth", "step_by")
        has_rec_closure = any(ck and ck.endswith("::parse_representation_recursive") for g in bodies if g is not f for bb, t, ck, fr in g.calls())
        early = sorted({ck.split("::")[-1] for bb, t, ck, fr in f.calls() if ck and "Iterator" in ck and ck.split("::")[-1] in SHORT})
        if has_rec_closure:
            rep.check(not early, "recursion-unconditional", "%s:consumer" % short(f.key), "the iterator that runs the recursive resolution closure is consumed by a method that may stop "
                      "early (%s): after one node fails to resolve, later nodes of the collection are left unresolved" % ", ".join(early), site=f.span)
        loops = f.natural_loops()
        litems = list(loops.items() if isinstance(loops, dict) else loops)
        for g in bodies:
            for bb, t, ck, fr in g.calls():
                if not (ck and ck.endswith("::parse_representation_recursive")):
                    continue
                if g is f:
                    # written as an explicit loop: within the innermost loop around the call, every round passes the call
                    inner = [(h, set(body)) for h, body in litems if bb in body]
                    if not inner:
                        continue
                    h, body = min(inner, key=lambda x: len(x[1]))
                    n += 1
                    starts = [x for x in f.succs(h) if x in body and x != h]
                    pth = cfg.path_avoiding(f, starts, [bb], [h]) if bb not in starts else None
                    rep.check(pth is None, "recursion-unconditional", "%s@%s" % (short(g.key), bb), "a recursive resolution call can be skipped in some round of its loop "
                              "(short-circuit / early continue): later nodes of the collection are left unresolved", site=site(g, t["sp"]), detail={"path": pth})
                    continue
                if True:
                    n += 1
                    esc = cfg.escapes(g, 0, {bb}, ())
                    rep.check(esc is None, "recursion-unconditional", "%s@%s" % (short(g.key), bb), "a recursive resolution call can be skipped on some path (short-circuit / early exit): "
                              "after one node fails to resolve, later keys and values of the mapping are left unresolved", site=site(g, t["sp"]), detail={"path": esc})
    rep.floor("recursive resolution calls", n, 10)


def eager_deferred_agreement(rep, F):
    """Deferred loading followed by resolution equals eager loading: (1) the loader's scalar arm, on the eager side, always hands the event's
    (text, style, tag) to value_from_cow_and_metadata and, on the deferred side, always stores exactly those three in a Representation;
    (2) parse_representation hands the three stored fields, unchanged, to the same resolver and maps Some->Value, None->BadValue
    (the latter mapping is rule value-from-cow / take-restore)."""
    on = [f for k, f in F.fns.items() if f.name == "on_event" and f.d.get("impl_adt") == LOADER]
    if len(on) != 1:
        raise facts.MissingAnchor("YamlLoader::on_event not found")
    f = on[0]
    sw = [bi for bi, b in enumerate(f.blocks) if not b["cleanup"] and b["term"]["k"] == "switch" and cfg.self_field_of_switch(f, bi) == ["early_parse"]]
    if len(sw) != 1:
        raise facts.MissingAnchor("on_event: the branch on early_parse was not found (found %d)" % len(sw))
    m, other = cfg.switch_edge_blocks(f, sw[0])
    deferred, eager = m.get(0), other
    joins = {bb for bb, t, ck, fr in f.calls() if ck and ck.endswith("::insert_new_node") and sw[0] in f.dominators().get(bb, ())}
    eager_calls, bad_args = set(), []
    for bb, t, ck, fr in f.calls():
        if ck and ck.endswith("::value_from_cow_and_metadata"):
            got = [_payload(cfg.expr_operand(f, a, 8)) for a in t["args"]]
            want = [("Scalar", 0), ("Scalar", 1), ("Scalar", 3)]
            if [g[:2] if g else None for g in got] == want and all(g[2] == ("param", 2) for g in got):
                eager_calls.add(bb)
            else:
                bad_args.append(str(got))
    rep_aggs = set()
    for bi, si, st in cfg.stmts(f):
        if st["k"] == "assign" and st["rv"]["k"] == "agg" and st["rv"].get("variant") == "Representation":
            got = [_payload(cfg.expr_operand(f, o, 8)) for o in st["rv"]["ops"]]
            if [g[:2] if g else None for g in got] == [("Scalar", 0), ("Scalar", 1), ("Scalar", 3)]:
                rep_aggs.add(bi)
            else:
                bad_args.append(str(got))
    p1 = (None if eager in eager_calls else cfg.flag_reach(f, eager, joins, avoid=eager_calls)) if joins else [eager]
    p2 = (None if deferred in rep_aggs else cfg.flag_reach(f, deferred, joins, avoid=rep_aggs)) if joins and deferred is not None else [sw[0]]
    rep.check(p1 is None and not bad_args, "eager-deferred-agreement", "on_event[Scalar,eager]",
              "with early_parse on, some scalar event reaches the tree without going through value_from_cow_and_metadata(text, style, tag): "
              "eager loading and deferred loading + parse_representation give different nodes", site=f.span, detail={"path": p1, "other_args": bad_args})
    rep.check(p2 is None, "eager-deferred-agreement", "on_event[Scalar,deferred]",
              "with early_parse off, some scalar event is not stored as Representation(text, style, tag)", site=f.span, detail={"path": p2})
    n = 0
    for k, g in sorted(F.fns.items()):
        if g.name != "parse_representation" or g.kind != "AssocFn" or not g.file.endswith("macros.rs"):
            continue
        n += 1
        calls = [(bb, t) for bb, t, ck, fr in g.calls() if ck and ck.endswith("::parse_from_cow_and_metadata")]
        ok = len(calls) == 1
        det = None
        if ok:
            got = [_payload(cfg.expr_operand(g, a, 8)) for a in calls[0][1]["args"]]
            det = str(got)
            ok = [x[:2] if x else None for x in got] == [("Representation", 0), ("Representation", 1), ("Representation", 2)] \
                and all(x[2][0] == "call" and take_like(x[2][1]) for x in got)
            # every path through the Representation arm reaches the resolver call
            if ok:
                for bb, p, adt in tables.discr_switches(g):
                    if adt == g.d.get("impl_adt"):
                        mm, oth = cfg.switch_edge_blocks(g, bb)
                        vidx = [v["discr"] for v in F.adt(adt)["variants"] if v["name"] == "Representation"][0]
                        arm = mm.get(vidx)
                        if arm is not None and cfg.flag_reach(g, arm, cfg.return_blocks(g), avoid={calls[0][0]}) is not None:
                            ok = False
                            det = "a path through the Representation arm avoids the resolver"
        rep.check(ok, "eager-deferred-agreement", short(k), "parse_representation does not resolve the stored (text, style, tag) with parse_from_cow_and_metadata",
                  site=g.span, detail=det)
    rep.floor("parse_representation instances (agreement)", n, 4)


def run(tier):
    rep = new_report(tier)
    F = facts.load()

    # (a) take -> restore
    n_bodies = 0
    for k, f in sorted(F.fns.items()):
        if not k.startswith("saphyr::") or f.name == "take" or f.kind == "Closure":
            continue
        if not f.locals[1]["ty"].startswith("&mut ") if len(f.locals) > 1 else True:
            continue
        for bb, t, ck, fr in f.calls():
            if not take_like(ck) or not any(whole_self(f, a) for a in t["args"]):
                continue
            n_bodies += 1
            restores = restore_blocks(f)
            rets = cfg.return_blocks(f)
            div = cfg.diverging_blocks(f)
            nxt = t["t"]
            # split by the arms of the match on the taken value
            arms = []
            tt = f.blocks[nxt]["term"]
            taken = t["dest"]["l"] if not t["dest"]["p"] else None
            if tt["k"] == "switch":
                e = cfg.expr_operand(f, tt["discr"])
                if e[0] == "discr" and e[1][0] == "call":
                    adt = [d[3]["rv"]["adt"] for d in cfg.defs_of_local(f, is_local(tt["discr"])) if d[0] == "stmt" and d[3]["rv"]["k"] == "discr"]
                    names = tables.variant_names(F, adt[0]) if adt else None
                    m, other = cfg.switch_edge_blocks(f, nxt)
                    listed = set()
                    for v, tg in m.items():
                        nm = names.get(v, str(v)) if names else str(v)
                        arms.append((nm, tg))
                        listed.add(v)
                    if names and set(names) - listed:
                        arms.append(("otherwise(" + ",".join(sorted(names[x] for x in set(names) - listed)) + ")", other))
            if not arms:
                arms = [("all", nxt)]
            for nm, tg in arms:
                env = cfg._step_env(f, nxt, cfg._step_env(f, bb, {}))
                if tg in restores:
                    p = None
                else:
                    p = cfg.flag_reach(f, tg, rets, avoid=restores | div, init_env=env)
                    if tg in rets:
                        p = [tg]
                rep.check(p is None, "take-restore", "%s[%s]" % (short(k), nm),
                          "*self is taken (left as BadValue) and this arm returns without writing it back: the node is destroyed",
                          site=site(f, t["sp"]), detail={"path_blocks": p})
    rep.floor("functions that take *self", n_bodies, 8)

    # (a') the deferred rebuild of a mapping uses the same insertion primitive as the eager loader (LinkedHashMap::insert, directly or
    # through FromIterator/Extend), so repeated keys resolve the same way in both modes (later value wins, entry moves to the back)
    ins = F.fn(LOADER + "::insert_new_node")
    eager = sorted({ck for _, _, ck, _ in ins.calls() if ck and ck.startswith("hashlink::LinkedHashMap::")})
    rep.check(eager == ["hashlink::LinkedHashMap::insert"], "rebuild-primitive", "YamlLoader::insert_new_node", "the eager loader no longer places pairs with LinkedHashMap::insert",
              site=ins.span, detail=eager)
    NEUTRAL = ("::new", "::default", "::with_capacity", "::with_capacity_and_hasher", "::into_iter", "::len", "::is_empty", "::iter", "::hasher", "::reserve")
    nreb = 0
    for k, f in sorted(F.fns.items()):
        if f.name != "parse_representation_recursive" or f.kind != "AssocFn" or not f.file.endswith("macros.rs"):
            continue
        nreb += 1
        bodies = [f] + [g for k2, g in F.fns.items() if k2.startswith(k + "::{closure")]
        prim = set()
        for g in bodies:
            for _, t, ck, fr in g.calls():
                key = (fr.get("resolved") or ck) if fr else ck
                if ck and ck.startswith("hashlink::LinkedHashMap::") and not ck.endswith(NEUTRAL):
                    prim.add(ck)
                if ck in ("std::iter::Iterator::collect", "std::iter::Extend::extend") and "LinkedHashMap" in " ".join(fr.get("substs", [])) + t["dest_ty"]:
                    prim.add("FromIterator/Extend")
        okp = prim and prim <= {"hashlink::LinkedHashMap::insert", "FromIterator/Extend"}
        rep.check(okp, "rebuild-primitive", short(k), "the mapping is rebuilt with %s: an entry whose resolved key already exists is treated differently from the eager "
                  "loader's insert (position/value of repeated keys)" % sorted(prim), site=f.span, detail=sorted(prim))
    rep.floor("parse_representation_recursive bodies", nreb, 4)

    # (b) variant maps
    yaml = "saphyr::yaml::Yaml"
    targets = {
        "<saphyr::yaml_owned::YamlOwned as saphyr::loader::LoadableYamlNode>::from_bare_yaml": (yaml, "saphyr::yaml_owned::YamlOwned"),
        "<saphyr::annotated::marked_yaml::MarkedYaml as saphyr::loader::LoadableYamlNode>::from_bare_yaml": (yaml, "saphyr::annotated::yaml_data::YamlData"),
        "<saphyr::annotated::marked_yaml_owned::MarkedYamlOwned as saphyr::loader::LoadableYamlNode>::from_bare_yaml": (yaml, "saphyr::annotated::yaml_data_owned::YamlDataOwned"),
        "saphyr::scalar::Scalar::into_owned": ("saphyr::scalar::Scalar", "saphyr::scalar::ScalarOwned"),
        "saphyr::scalar::ScalarOwned::as_scalar": ("saphyr::scalar::ScalarOwned", "saphyr::scalar::Scalar"),
    }
    for key, (src, dst) in targets.items():
        f = F.fn(key)
        names = tables.variant_names(F, src)
        dst_names = {v["name"] for v in F.adt(dst)["variants"]}
        sw = [(bb, p, adt) for bb, p, adt in tables.discr_switches(f) if adt == src and p["l"] == 1]
        if not sw:
            rep.incomplete("no switch on the %s discriminant found in %s" % (src, key), f.span)
            continue
        bb, p, adt = sw[0]
        m, other = cfg.switch_edge_blocks(f, bb)
        covered = set(m)
        for v, nm in sorted(names.items()):
            tg = m.get(v, other)
            blocks, aggs, results, calls = tables.arm_walk(f, tg)
            built = {(s["rv"]["adt"], s["rv"]["variant"]) for _, s in aggs if s["rv"]["adt"] == dst}
            ok = built == {(dst, nm)}
            rep.check(ok, "variant-map", "%s[%s]" % (short(key), nm),
                      "the %s arm of %s does not build exactly %s::%s" % (nm, short(key), short(dst), nm),
                      site=f.span, detail=sorted("%s::%s" % (short(a), b) for a, b in built))
            # payload provenance: operand i flows from field i of the same variant of the source
            for _, s in aggs:
                rv = s["rv"]
                if rv["adt"] != dst or rv["variant"] != nm:
                    continue
                src_fields = [v2 for v2 in F.adt(src)["variants"] if v2["name"] == nm][0]["fields"]
                for i, o in enumerate(rv["ops"]):
                    e = cfg.expr_operand(f, o)
                    leaves = tables.expr_leaves(e)
                    callsx = tables.expr_calls(e)
                    from_src = [l for l in leaves if l[0] == "place" and l[1] == ("param", 1)]
                    if nm in ("Sequence", "Mapping") and not from_src:
                        # containers are rebuilt empty (from_bare_yaml is only handed empty containers by the loader)
                        emptyctor = all(c and (c.endswith("::new") or c.endswith("::default")) for c in callsx)
                        rep.check(emptyctor, "variant-payload", "%s[%s].%d" % (short(key), nm, i),
                                  "collection payload is neither moved from the source nor an empty constructor", site=f.span,
                                  detail=cfg.expr_str(e))
                        continue
                    okp = bool(from_src) and all(
                        [x for x in l[2] if isinstance(x, tuple) and x[0] in ("downcast", "field")][-2:] == [("downcast", nm), ("field", str(i))]
                        for l in from_src) and all(c and c.lower().endswith(CONVERSIONS) or c.endswith("Deref>::deref") for c in callsx)
                    rep.check(okp, "variant-payload", "%s[%s].%d" % (short(key), nm, i),
                              "payload %d of %s::%s is not the same-position payload of the source variant passed through value-preserving "
                              "conversions only" % (i, short(dst), nm), site=f.span, detail=cfg.expr_str(e))

    # loader early_parse switch: same three operands on both sides
    oe = F.fn("<%s as saphyr_parser::parser::SpannedEventReceiver>::on_event" % LOADER)
    vf = [(bb, t) for bb, t, ck, fr in oe.calls() if ck and ck.endswith("::value_from_cow_and_metadata")]
    reprs = [(bi, s) for bi, si, s in cfg.stmts(oe) if s["k"] == "assign" and s["rv"]["k"] == "agg" and s["rv"].get("variant") == "Representation"
             and s["rv"].get("adt") == yaml]
    ok = len(vf) == 1 and len(reprs) == 1
    det = None
    if ok:
        a1 = [tables.expr_leaves(cfg.expr_operand(oe, a)) for a in vf[0][1]["args"]]
        a2 = [tables.expr_leaves(cfg.expr_operand(oe, o)) for o in reprs[0][1]["rv"]["ops"]]

        def fld(ls):
            out = []
            for l in ls:
                if l[0] == "place":
                    out.append(tuple(x for x in l[2] if isinstance(x, tuple) and x[0] in ("downcast", "field")))
            return out
        f1 = [fld(x) for x in a1]
        f2 = [fld(x) for x in a2]
        want = [[(("downcast", "Scalar"), ("field", "0"))], [(("downcast", "Scalar"), ("field", "1"))], [(("downcast", "Scalar"), ("field", "3"))]]
        extra_calls = [c for a in list(vf[0][1]["args"]) + list(reprs[0][1]["rv"]["ops"]) for c in tables.expr_calls(cfg.expr_operand(oe, a))
                       if not (c and c.lower().endswith(CONVERSIONS))]
        ok = f1 == want and f2 == want and not extra_calls
        det = {"early": str(f1), "deferred": str(f2), "non_conversion_calls": extra_calls}
        # both under a switch on self.early_parse
        swok = False
        for bi, b in enumerate(oe.blocks):
            if b["cleanup"] or b["term"]["k"] != "switch":
                continue
            if cfg.self_field_of_switch(oe, bi) == ["early_parse"]:
                m, other = cfg.switch_edge_blocks(oe, bi)
                if 0 in m and cfg.dominated_by_edge(oe, reprs[0][0], bi, m[0]) and cfg.dominated_by_edge(oe, vf[0][0], bi, other):
                    swok = True
        ok = ok and swok
    rep.check(ok, "early-parse-switch", "YamlLoader::on_event[Scalar]",
              "the eager and deferred scalar paths of the loader are not built from the same (text, style, tag) of the event, selected by early_parse",
              site=oe.span, detail=det)
    # value_from_cow_and_metadata: None -> BadValue, Some -> Value (four node types)
    nvf = 0
    for k, f in sorted(F.fns.items()):
        if f.name != "value_from_cow_and_metadata" or f.kind != "AssocFn":
            continue
        nvf += 1
        self_adt = f.d.get("impl_adt")
        sw = [(bb, p, adt) for bb, p, adt in tables.discr_switches(f) if adt == "std::option::Option"]
        okv = False
        det = None
        mo = [(bb, t, ck) for bb, t, ck, fr in f.calls() if ck in ("std::option::Option::map_or", "std::option::Option::map_or_else")]
        if mo:
            bb, t, ck = mo[0]
            recv = cfg.expr_operand(f, t["args"][0])
            from_parse = recv[0] == "call" and recv[1].endswith("::parse_from_cow_and_metadata")
            dflt = _built_variants(F, f, cfg.expr_operand(f, t["args"][1]), self_adt, data_adt(self_adt))
            mapper = _built_variants(F, f, cfg.expr_operand(f, t["args"][2]), self_adt, data_adt(self_adt))
            okv = from_parse and dflt == {"BadValue"} and mapper == {"Value"}
            det = {"receiver": cfg.expr_str(recv), "None": sorted(dflt), "Some": sorted(mapper)}
        elif sw:
            bb, p, adt = sw[-1]
            m, other = cfg.switch_edge_blocks(f, bb)
            t_some = m.get(1, other)
            t_none = m.get(0, other)
            _, ag1, _, _ = tables.arm_walk(f, t_some)
            _, ag0, _, _ = tables.arm_walk(f, t_none)
            b1 = {s["rv"]["variant"] for _, s in ag1 if s["rv"]["adt"] == self_adt}
            b0 = {s["rv"]["variant"] for _, s in ag0 if s["rv"]["adt"] == self_adt}
            okv = b1 == {"Value"} and b0 == {"BadValue"}
            det = {"Some": sorted(b1), "None": sorted(b0)}
            pc = [ck for _, _, ck, _ in f.calls() if ck and ck.endswith("::parse_from_cow_and_metadata")]
            okv = okv and len(pc) == 1
        rep.check(okv, "value-from-cow", short(k), "value_from_cow_and_metadata does not map Some(scalar)->Value(scalar), None->BadValue",
                  site=f.span, detail=det)
    rep.floor("value_from_cow_and_metadata instances", nvf, 4)

    eager_deferred_agreement(rep, F)
    recursive_resolution(rep, F)
    # owned and borrowed node types resolve scalars with the same function
    from . import C08
    C08.owned_delegates(rep, F, "owned-resolver-delegates")
    # (c) span-blind Eq/Hash of marked nodes
    span_blind(rep, F, "span-blind")
    # Eq/Hash agree on derive for the data types
    for ty in ["saphyr::annotated::yaml_data::YamlData", "saphyr::annotated::yaml_data_owned::YamlDataOwned", "saphyr::yaml::Yaml",
               "saphyr::yaml_owned::YamlOwned", "saphyr::scalar::Scalar", "saphyr::scalar::ScalarOwned"]:
        d = {im["trait"]: im["derived"] for im in F.impls if im.get("adt") == ty and im.get("trait") in ("std::cmp::PartialEq", "std::hash::Hash")}
        rep.check(d == {"std::cmp::PartialEq": True, "std::hash::Hash": True}, "derived-eq-hash", short(ty),
                  "PartialEq and Hash are not both derived for this type (a manual impl must be reviewed for agreement)", detail=d)

    # (d) macro instantiation parity: same inherent method names on the four data types
    sets = {}
    for ty in DATA_TYPES:
        sets[ty] = {f.name for f in F.fns.values() if f.d.get("impl_adt") == ty and f.kind == "AssocFn" and not f.d.get("impl_trait")
                    and f.file.endswith("macros.rs")}
    rep.floor("macro-generated methods per node type", len(sets[DATA_TYPES[0]]), 30)
    # the macro has a borrowing and an owned flavour: compare within each flavour
    for a, b in ((DATA_TYPES[0], DATA_TYPES[2]), (DATA_TYPES[1], DATA_TYPES[3])):
        missing = sorted((sets[a] - sets[b]) - set(PARITY_EXCEPTIONS))
        extra = sorted((sets[b] - sets[a]) - set(PARITY_EXCEPTIONS))
        rep.check(not missing and not extra, "macro-parity", "%s~%s" % (short(a), short(b)),
                  "the macro-generated method sets of the plain and annotated node types of one flavour differ",
                  detail={"missing": missing, "extra": extra})
    # every method of the owned flavour also exists in the borrowing flavour
    extra = sorted((sets[DATA_TYPES[1]] - sets[DATA_TYPES[0]]) - set(PARITY_EXCEPTIONS))
    rep.check(not extra, "macro-parity", "owned-subset-of-borrowing", "the owned node type has macro methods the borrowing type lacks", detail=extra)
    return rep
