"""Which token a character starts: the dispatch at the end of Scanner::fetch_next_token (used by C03).

After white space, comments, document markers and the indentation test, fetch_next_token looks at the character at the cursor (c), the one
after it (nc), the flow level and - for a ':' right after a JSON-like key - an index comparison, and hands over to one fetch_*
function.  E8 enumerates the paths from the read of `c` to the first fetch_* call (or error) and the table

    (c, nc, flow level = 0 / > 0, adjacent-value position or not)  ->  fetcher (with its constant argument)

is compared with YAML 1.2.2 (5.3 indicator characters, 7.3.3 ns-plain-first, 7.4 flow collections, 8.1 block scalar headers), for the rows on which
the specification leaves no choice:

    [ ] { } ,                    flow sequence start / end, flow mapping start / end, flow entry
    - ? :  followed by a blank, a break or the end of input    block entry / key / value          (followed by a letter: a plain scalar)
    :  inside a flow collection, followed by a flow indicator, or at the position right after a quoted scalar / a closing bracket    value
    * & !                        alias, anchor, tag
    | >  outside flow collections   literal / folded block scalar
    ' "                          single- / double-quoted scalar
    % @ `                        not the start of anything: an error
    a letter                     a plain scalar
"""
from .common import *
from engine import e7, e8, fold
from engine.e8 import Unknown

FN = SCANNER + "::fetch_next_token"
S_ = SCANNER + "::"


class DispatchRec(e8.SymRec):
    def __init__(self, F, f):
        super().__init__(f)
        self.F = F
        self.fo = fold.Folder(F)
        self.domains = {("c",): [ord(x) for x in "[]{},-?:*&!|>'\"%@`a#"], ("nc",): [ord(x) for x in " \t\n\r\0a,[]{}"],
                        ("fl",): [0, 1, 2], ("adj",): [0, 1]}

    def _peek(self, v):
        if v[0] == "call" and v[1] and v[1].endswith("Input::peek"):
            return 0
        if v[0] == "call" and v[1] and v[1].endswith("Input::peek_nth") and v[2][1][0] == "const":
            return v[2][1][1]
        return None

    def _fl(self, v):
        return v[0] == "proj" and v[2] == "field" and v[3] == "flow_level"

    def _adj(self, v):
        if v[0] == "bin" and v[1] in ("Eq", "Ne"):
            names = []
            for x in (v[2], v[3]):
                n = []
                while x[0] == "proj":
                    if x[2] == "field":
                        n.append(x[3])
                    x = x[1]
                names.append(tuple(reversed(n)))
            return sorted(names) == [("adjacent_value_allowed_at",), ("mark", "index")]
        return False

    def leaf(self, v):
        k = self._peek(v)
        if k == 0:
            return ("c",)
        if k == 1:
            return ("nc",)
        if self._fl(v):
            return ("fl",)
        if self._adj(v):
            return ("adj",)
        return None

    def interp(self, v, env):
        k = self._peek(v)
        if k == 0 and ("c",) in env:
            return env[("c",)]
        if k == 1 and ("nc",) in env:
            return env[("nc",)]
        if self._fl(v) and ("fl",) in env:
            return env[("fl",)]
        if self._adj(v) and ("adj",) in env:
            return env[("adj",)] if v[1] == "Eq" else 1 - env[("adj",)]
        if v[0] == "call" and v[1] and v[1].startswith("saphyr_parser::char_traits::") and len(v[2]) == 1:
            try:
                a = e8.evaluate(v[2][0], env, self.interp)
                return int(bool(self.fo.call(v[1], [a])))
            except (Unknown, fold.Unsupported, fold.Diverged):
                return None
        return None

    def call_effect(self, bi, t, ck, st):
        f = self.f
        if ck.startswith(S_ + "fetch_"):
            arg = None
            if len(t["args"]) > 1:
                v = e8.operand_value(f, t["args"][1], st)
                if v[0] == "const":
                    arg = bool(v[1]) if isinstance(v[1], (bool, int)) else v[1]
                elif v[0] == "adt":
                    arg = v[2]
            st["@target"] = (ck[len(S_):], arg)
            return "stop"
        if ck.endswith(("ScanError::new_str", "ScanError::new")):
            st["@target"] = ("error", None)
            return "stop"
        return "transparent"


def spec(c, nc, fl, adj):
    """the fetcher YAML 1.2.2 prescribes, or None where this table does not decide"""
    ch, n = chr(c), chr(nc)
    blankz = n in " \t\n\r\0"
    if ch == "[":
        return ("fetch_flow_collection_start", "FlowSequenceStart")
    if ch == "{":
        return ("fetch_flow_collection_start", "FlowMappingStart")
    if ch == "]":
        return ("fetch_flow_collection_end", "FlowSequenceEnd")
    if ch == "}":
        return ("fetch_flow_collection_end", "FlowMappingEnd")
    if ch == ",":
        return ("fetch_flow_entry", None)
    if ch == "-":
        return ("fetch_block_entry", None) if blankz else ("fetch_plain_scalar", None) if n == "a" else None
    if ch == "?":
        return ("fetch_key", None) if blankz else ("fetch_plain_scalar", None) if n == "a" else None
    if ch == ":":
        if blankz:
            return ("fetch_value", None)
        if fl > 0 and (n in ",[]{}" or adj):
            return ("fetch_flow_value", None)
        if n == "a" and fl == 0:
            return ("fetch_plain_scalar", None)
        return None
    if ch == "*":
        return ("fetch_anchor", True)
    if ch == "&":
        return ("fetch_anchor", False)
    if ch == "!":
        return ("fetch_tag", None)
    if ch in "|>" and fl == 0:
        return ("fetch_block_scalar", ch == "|")
    if ch == "'":
        return ("fetch_flow_scalar", True)
    if ch == '"':
        return ("fetch_flow_scalar", False)
    if ch in "%@`":
        return ("error", None)
    if ch == "a":
        return ("fetch_plain_scalar", None)
    return None


def check(rep, F, rule="token-dispatch-table"):
    f = F.fns.get(FN)
    if f is None:
        raise facts.MissingAnchor("fetch_next_token not found")
    rec = DispatchRec(F, f)
    # the read of the character the dispatch is made on: the last Input::peek call that dominates every fetch_flow_entry / fetch_tag call
    targets = [bb for bb, t, ck, fr in f.calls() if ck in (S_ + "fetch_flow_entry", S_ + "fetch_tag", S_ + "fetch_plain_scalar")]
    peeks = [bb for bb, t, ck, fr in f.calls() if ck and ck.endswith("Input::peek") and all(bb in f.dominators().get(tb, ()) for tb in targets)]
    if not targets or not peeks:
        raise facts.MissingAnchor("fetch_next_token: no read of the cursor character dominates the fetchers")
    start = max(peeks, key=lambda b: len(f.dominators().get(b, ())))
    ps = e7.paths(f, start, rec, limit=20000)
    n = 0
    bad = {}
    for c in rec.domains[("c",)]:
        for nc in rec.domains[("nc",)]:
            for fl in (0, 1):
                for adj in (0, 1):
                    want = spec(c, nc, fl, adj)
                    if want is None:
                        continue
                    env = {("c",): c, ("nc",): nc, ("fl",): fl, ("adj",): adj}
                    got = set()
                    for p in ps:
                        try:
                            if e8.matches(p, env, rec.interp):
                                got.add(p["state"].get("@target", ("?", p["why"])))
                        except Unknown:
                            got.add(("?", "undecided guard"))
                    n += 1
                    if got != {want}:
                        key = (chr(c), "blank/break/end" if chr(nc) in " \t\n\r\0" else "flow indicator" if chr(nc) in ",[]{}" else "a letter", "block" if fl == 0 else "flow",
                               "adjacent" if adj and chr(c) == ":" and fl else "")
                        bad.setdefault(key, (want, got))
    for (ch, ncl, ctx, adjs), (want, got) in sorted(bad.items(), key=str):
        rep.bad(rule, "%r followed by %s, %s context%s" % (ch, ncl, ctx, (", " + adjs) if adjs else ""),
                "the character %r followed by %s in %s context%s must be handed to %s%s; fetch_next_token hands it to %s" % (
                    ch, ncl, ctx, (" (%s position)" % adjs) if adjs else "", want[0], "" if want[1] is None else "(%s)" % (want[1],),
                    ", ".join(sorted("%s%s" % (g[0], "" if g[1] is None else "(%s)" % (g[1],)) for g in got)) or "nothing"), site=f.span)
    if not bad:
        rep.ok(rule, "fetch_next_token", {"rows": n, "paths": len(ps)})
    return n
