#!/usr/bin/env python3
"""maintenance helper: evaluate behaviour-preserving refactorings (written by independent sub-agents, kept under /verif/neutral/<name>/)
against every claimed check.  A check that reports anything on one of them is a false alarm to be corrected in the machinery.
usage: tools/neutral_eval.py [import <srcdir>] [names...]
  import <srcdir>: copy <srcdir>/<NID>/out/patch_<i>.diff + why_<i>.txt into /verif/neutral/<NID>-<i>/ first"""
import json, os, subprocess, tempfile, shutil, sys
from concurrent.futures import ThreadPoolExecutor
V = "/verif"
KIND = os.environ.get("NEUTRAL_KIND", "neutral")   # "neutral": behaviour-preserving refactorings; "benign": feature additions that keep every property
args = sys.argv[1:]
if args[:1] == ["import"]:
    src = args[1]
    args = args[2:]
    for nid in sorted(os.listdir(src)):
        out = os.path.join(src, nid, "out")
        if not os.path.isdir(out):
            continue
        for fn in sorted(os.listdir(out)):
            if fn.startswith("patch_") and fn.endswith(".diff"):
                i = fn[len("patch_"):-len(".diff")]
                d = os.path.join(V, KIND, "%s-%s" % (nid, i))
                os.makedirs(d, exist_ok=True)
                shutil.copy(os.path.join(out, fn), os.path.join(d, "patch.diff"))
                why = os.path.join(out, "why_%s.txt" % i)
                if os.path.exists(why):
                    shutil.copy(why, os.path.join(d, "why.txt"))
man = json.load(open(V + "/MANIFEST.json"))


def evaluate(name):
    d = os.path.join(V, KIND, name)
    if not os.path.exists(os.path.join(d, "patch.diff")) or (args and name not in args):
        return None
    scratch = tempfile.mkdtemp(prefix="neutral-")
    fired = {}
    try:
        subprocess.run("rsync -a --exclude target --exclude .git /repo/ %s/" % scratch, shell=True, check=True)
        p = subprocess.run("cd %s && patch -p1 -s < %s/patch.diff" % (scratch, d), shell=True)
        if p.returncode != 0:
            return {"name": name, "status": "patch does not apply to the current tree", "fired": {}}
        for c in man["checks"]:
            cid = c["property_id"]
            if os.environ.get("ONLY_CHECKS") and cid not in os.environ["ONLY_CHECKS"].split(","):
                continue
            evd = tempfile.mkdtemp()
            q = subprocess.run(c["quick_cmd"], shell=True, cwd=V, env=dict(os.environ, VERIF_EVIDENCE_DIR=evd, VERIF_REPO=scratch), stdout=subprocess.PIPE, text=True)
            if q.returncode != 0:
                try:
                    fired[cid] = json.load(open(os.path.join(evd, cid + ".json")))["coverage"].get("new_violations", [])[:6]
                except Exception:
                    fired[cid] = ["?" + q.stdout[-300:]]
            shutil.rmtree(evd, ignore_errors=True)
    finally:
        shutil.rmtree(scratch, ignore_errors=True)
    if os.environ.get("ONLY_CHECKS") and os.path.exists(os.path.join(d, "result.json")):
        only_c = os.environ["ONLY_CHECKS"].split(",")
        prev = json.load(open(os.path.join(d, "result.json"))).get("fired", {})
        merged = {k: v for k, v in prev.items() if k not in only_c}
        merged.update(fired)
        fired = merged
    res = {"name": name, "status": "evaluated", "fired": fired}
    json.dump(res, open(os.path.join(d, "result.json"), "w"), indent=1)
    print(name, fired if fired else "silent", flush=True)
    return res


names = sorted(os.listdir(V + "/" + KIND)) if os.path.isdir(V + "/" + KIND) else []
with ThreadPoolExecutor(int(os.environ.get("REEVAL_JOBS", "4"))) as ex:
    rows = [r for r in ex.map(evaluate, names) if r]
allrows = []
for n in names:
    rp = os.path.join(V, KIND, n, "result.json")
    if os.path.exists(rp):
        allrows.append(json.load(open(rp)))
with open(V + "/" + KIND + "/INDEX.md", "w") as fh:
    fh.write(("# Feature additions that keep every property, written by independent sub-agents" if KIND == "benign" else "# Behaviour-preserving refactorings written by independent sub-agents") + "\n\n")
    fh.write("\n\nEach was written without any knowledge of /verif, compiles, passes the 604 existing "
             "tests and comes with an argument why behaviour is unchanged for every input (`why.txt`). Every claimed check is run against each (on a scratch copy); "
             "a report on one of them is a false alarm of the check.\n\n| refactoring | checks that report something (now) |\n|---|---|\n")
    for r in allrows:
        fh.write("| %s | %s |\n" % (r["name"], ", ".join("%s (%s)" % (k, v[0] if v else "") for k, v in sorted(r["fired"].items())) or "none"))
print("with reports:", sum(1 for r in allrows if r["fired"]), "of", len(allrows))
