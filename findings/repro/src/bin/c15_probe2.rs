use saphyr_parser::{Event, Parser};
fn show(s: &str) {
    let mut out = vec![];
    for e in Parser::new_from_str(s) {
        match e {
            Ok((Event::Scalar(v, ..), _)) => out.push(format!("={v}")),
            Ok((Event::MappingStart(..), _)) => out.push("+MAP".into()),
            Ok((Event::MappingEnd, _)) => out.push("-MAP".into()),
            Ok((Event::SequenceStart(..), _)) => out.push("+SEQ".into()),
            Ok((Event::SequenceEnd, _)) => out.push("-SEQ".into()),
            Err(e) => { out.push(format!("ERR {e}")); break }
            _ => {}
        }
    }
    println!("{:?} -> {}", s, out.join(" "));
}
fn main() {
    for s in ["[ a: { b: c, d: e } ]", "[ ? : x ]", "[ ? ]", "[ a: [b, c], d ]", "[ a: {b: c}, d: e ]"] { show(s); }
}
