"""C04 — plain and quoted scalars yield exactly the text YAML assigns to them.

Clause decided (only this): the double-quoted escape decoding table is the YAML 1.2 table.  Each named escape of
resolve_flow_scalar_escape_sequence maps to the code point section 5.7 of the specification gives, x/u/U select 2/4/8 hex digits,
every other character after `\\` reaches an error, the hex accumulator is (value << 4) + as_hex(c) with as_hex the hexadecimal digit
value (folded from its body), and the result passes through char::from_u32 with None -> Err.
Also decided: line folding of quoted and plain scalars as path tables against section 6.5 (rules/folding.py, engine E7) and the
push-class facts (every character copied from the cursor into scalar text is a content character; E1 pass B).  '' un-doubling, where a
plain scalar ends and the text as a value are not decided here.
"""
import json
from .common import *
from engine import tables, fold
from engine.facts import is_local, op_const, const_value, op_place

PID = "C04"
RESOLVE = SCANNER + "::resolve_flow_scalar_escape_sequence"


def new_report(tier):
    return make_report(PID, tier, "proof", [
        "tables/yaml12_escapes.json is a faithful transcription of YAML 1.2.2 section 5.7 (escaped characters)",
        "char::from_u32 returns None exactly for surrogates and values above 0x10FFFF (std)",
        "the folding table in rules/folding.py is a faithful transcription of YAML 1.2.2 sections 6.5 and 7.3.1",
    ], "E4 switch-table extraction from the MIR of resolve_flow_scalar_escape_sequence (arm constant per escape character, hex-length arms, "
       "default arm), expression shape of the hex accumulator, constant folding of as_hex/is_hex over the alphabet, compared with the "
       "specification's table; E7 guarded-path tables of the flush / line-break / blank regions of scan_flow_scalar and scan_plain_scalar "
       "(buffer roles inferred from how they are written) evaluated on every feasible (flag, buffer-empty) combination against section 6.5; "
       "E1 pass B character-class windows at every push of a cursor character. Quote un-doubling, plain-scalar termination and the text "
       "as a value are outside static reach.")


def scanner_escape_table(F):
    """returns (named: {escape char code point -> decoded code point}, hexlen: {escape char -> digits}, default_target_bb, info)"""
    f = F.fn(RESOLVE)
    # the result variable (the char moved into Ok(..)) and the hex-length variable (the usize handed to lookahead / used as the digit count),
    # identified by use, not by name
    ret_l, len_l = [], []
    for bi, si, s in cfg.stmts(f):
        if s["k"] == "assign" and s["lhs"]["l"] == 0 and not s["lhs"]["p"] and s["rv"]["k"] == "agg" and s["rv"].get("variant") == "Ok":
            l = is_local(s["rv"]["ops"][0])
            l = cfg.resolve_copy_chain(f, l) if l is not None else None
            if l is not None and f.locals[l]["ty"] == "char":
                ret_l.append(l)
    for bb, t, ck, fr in f.calls():
        if ck and ck.endswith("Input::lookahead"):
            l = is_local(t["args"][1])
            l = cfg.resolve_copy_chain(f, l) if l is not None else None
            if l is not None and f.locals[l]["ty"] == "usize" and len(cfg.defs_of_local(f, l)) > 1:
                len_l.append(l)
    sw = None
    for bi, b in enumerate(f.blocks):
        t = b["term"]
        if b["cleanup"] or t["k"] != "switch" or t["dty"] != "char" or len(t["vals"]) < 10:
            continue
        e = cfg.expr_operand(f, t["discr"], 6)
        if e[0] == "call" and e[1] == INPUT + "::peek_nth" and e[2][1] == ("const", 1):
            sw = bi
    if sw is None:
        raise facts.MissingAnchor("the match on the escape character was not found in resolve_flow_scalar_escape_sequence")
    t = f.blocks[sw]["term"]
    named, hexlen = {}, {}
    problems = []
    for v, tg in zip(t["vals"], t["targets"]):
        # walk the arm until the join (first block with more than one predecessor that is not the arm start)
        b = tg
        got = None
        hops = 0
        while hops < 6:
            hops += 1
            for s in f.blocks[b]["stmts"]:
                if s["k"] == "assign" and not s["lhs"]["p"]:
                    c = op_const(s["rv"].get("a", {})) if s["rv"]["k"] == "use" else None
                    if s["lhs"]["l"] in ret_l:
                        if c is not None:
                            cv = const_value(c)
                            got = ("ret", cv[1] if isinstance(cv, tuple) else cv)
                        else:
                            e = cfg.expr_operand(f, s["rv"].get("a", {}), 6) if s["rv"]["k"] == "use" else ("?",)
                            if e[0] == "call" and e[1] == "std::option::Option::unwrap" and e[2][0][0] == "call" and e[2][0][1] == "std::char::from_u32" \
                                    and e[2][0][2][0][0] == "const":
                                got = ("ret", e[2][0][2][0][1])
                    if s["lhs"]["l"] in len_l and c is not None:
                        got = ("len", const_value(c))
            if got:
                break
            nxt = f.succs(b)
            if len(nxt) != 1:
                break
            b = nxt[0]
        if got is None:
            problems.append(v)
        elif got[0] == "ret":
            named[v] = got[1]
        else:
            hexlen[v] = got[1]
    return named, hexlen, t["otherwise"], {"fn": f, "switch_bb": sw, "unresolved_arms": problems}


def run(tier):
    rep = new_report(tier)
    F = facts.load()
    with open(os.path.join(facts.VERIF, "tables", "yaml12_escapes.json")) as fh:
        spec = json.load(fh)
    named, hexlen, default_bb, info = scanner_escape_table(F)
    f = info["fn"]
    rep.check(not info["unresolved_arms"], "escape-arms-resolved", "resolve_flow_scalar_escape_sequence", "an escape arm assigns neither a constant character nor a hex length",
              site=f.span, detail=[chr(x) for x in info["unresolved_arms"]])
    want_named = {ord(k) if len(k) == 1 else int(k[2:], 16): v for k, v in spec["named"].items()}
    want_hex = {ord(k): v for k, v in spec["hex_digits"].items()}
    for esc, cp in sorted(want_named.items()):
        got = named.get(esc)
        rep.check(got == cp, "escape-table", "\\%s" % (chr(esc) if esc > 32 else "x%02x" % esc),
                  "the escape \\%s decodes to U+%s; YAML 1.2 says U+%04X" % (chr(esc) if esc > 32 else "<%d>" % esc, ("%04X" % got) if got is not None else "nothing (rejected)", cp),
                  site=f.span)
    for esc in sorted(set(named) - set(want_named)):
        rep.bad("escape-table", "\\%s" % chr(esc), "the scanner accepts the escape \\%s (-> U+%04X) which YAML 1.2 does not define" % (chr(esc), named[esc]), site=f.span)
    for esc, n in sorted(want_hex.items()):
        rep.check(hexlen.get(esc) == n, "escape-hex-length", "\\%s" % chr(esc), "the escape \\%s reads %s hex digits; YAML 1.2 says %d" % (chr(esc), hexlen.get(esc), n), site=f.span)
    for esc in sorted(set(hexlen) - set(want_hex)):
        rep.bad("escape-hex-length", "\\%s" % chr(esc), "unexpected hex escape \\%s" % chr(esc), site=f.span)
    rep.floor("named escapes extracted", len(named), 17)
    # default arm -> Err
    errs = cfg.err_sink_blocks(f)
    esc_path = cfg.flag_reach(f, default_bb, cfg.return_blocks(f), avoid=errs) if default_bb not in errs else None
    rep.check(esc_path is None, "unknown-escape-rejected", "resolve_flow_scalar_escape_sequence", "a character that is not an escape is accepted after a backslash", site=f.span)
    # hex accumulator shape: value = ((value << 4) + as_hex(c)).0 with c = peek_nth(i), under is_hex(c) (C01 checks the guard)
    okacc = False
    for bi, si, s in cfg.stmts(f):
        if s["k"] == "assign" and not s["lhs"]["p"] and f.locals[s["lhs"]["l"]]["ty"] == "u32" and s["rv"]["k"] == "use":
            e = cfg.expr_operand(f, s["rv"]["a"], 10)
            st = cfg.expr_str(e).replace(" ", "")
            if e[0] == "place" and e[2] == [("field", "0")] and e[1][0] == "bin" and e[1][1] == "AddWithOverflow":
                a, b = e[1][2], e[1][3]
                if a[0] == "bin" and a[1] == "Shl" and a[3] == ("const", 4) and b[0] == "call" and b[1] == "saphyr_parser::char_traits::as_hex" \
                        and "peek_nth" in cfg.expr_str(b):
                    okacc = True
    rep.check(okacc, "hex-accumulator", "resolve_flow_scalar_escape_sequence", "the hex escape value is no longer accumulated as (value << 4) + as_hex(peek_nth(i))",
              site=f.span)
    # the decoded value goes through char::from_u32 and None is an error (the guard itself is C06)
    fu = [bb for bb, t, ck, fr in f.calls() if ck == "std::char::from_u32" and cfg.expr_operand(f, t["args"][0], 4)[0] != "const"]
    rep.check(len(fu) == 1, "from-u32", "resolve_flow_scalar_escape_sequence", "the decoded code point no longer goes through char::from_u32", site=f.span)
    # as_hex / is_hex tables by constant folding
    fo = fold.Folder(F)
    bad = []
    ishex = fold.predicate_table(F, "saphyr_parser::char_traits::is_hex")
    for cp in fold.ALPHABET:
        exp = int(chr(cp), 16) if cp < 128 and chr(cp) in "0123456789abcdefABCDEF" else None
        if (cp in ishex) != (exp is not None):
            bad.append("is_hex(%r)" % chr(cp))
        if exp is not None:
            try:
                if fo.call("saphyr_parser::char_traits::as_hex", [cp]) != exp:
                    bad.append("as_hex(%r)" % chr(cp))
            except (fold.Diverged, fold.Unsupported) as ex:
                bad.append("as_hex(%r): %s" % (chr(cp), ex))
    rep.check(not bad, "hex-digit-value", "as_hex/is_hex", "is_hex/as_hex are not the hexadecimal digit predicate/value", detail=bad[:10])
    # content characters are passed through, breaks and the end-of-input padding never are: every cursor character pushed into text
    # excludes LF, CR and NUL (E1 pass B)
    from . import classdom
    for B in ((16,) if tier == "quick" else (8, 16, 128)):
        EB = classdom.run(F, B)
        classdom.contract_sites(rep, F, EB, B)
        forbid = EB.BRK | EB.A.mask([0])
        n = classdom.cursor_pushes(rep, F, EB, B, "content-push-class", forbid, "only content characters may be copied from the input into a scalar")
        rep.extra.setdefault("class_pass", {})[str(B)] = {"contexts": EB.contexts, "cursor_push_sites": n}
        rep.floor("cursor-character push sites (B=%d)" % B, n, 8)
    # line folding of plain and quoted scalars as path tables (E7) against section 6.5
    from . import folding
    nf = folding.check(rep, F)
    rep.floor("folding cases decided", nf, 36)
    # what one round of the quoted-scalar content loop does ('' un-doubling, closing quote, escaped line break, escapes, ordinary characters)
    from . import quoting
    nq_ = quoting.check(rep, F)
    rep.floor("quoted-scalar content cases", nq_, 100)
    rep.extra["escape_table"] = {("\\" + (chr(k) if k > 32 else "x%02x" % k)): "U+%04X" % v for k, v in sorted(named.items())}
    rep.extra["hex_lengths"] = {"\\" + chr(k): v for k, v in sorted(hexlen.items())}
    return rep
