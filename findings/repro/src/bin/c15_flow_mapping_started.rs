// C15: `flow_mapping_started` is set at '{' and only cleared when an *implicit* mapping ends, so it survives the
// document (and the collection) it was set in.
use saphyr_parser::{Event, Parser};
fn parse(src: &str) -> Result<usize, String> {
    let mut n = 0;
    for r in Parser::new_from_str(src) {
        match r { Ok((Event::DocumentStart(_), _)) => n += 1, Ok(_) => {}, Err(e) => return Err(e.info().to_string()) }
    }
    Ok(n)
}
fn main() {
    let a = "{a: b}\n";
    let b = "[ : foo ]\n";
    let ra = parse(a);
    let rb = parse(b);
    let rab = parse(&format!("{a}...\n{b}"));
    println!("A alone        : {ra:?}");
    println!("B alone        : {rb:?}");
    println!("A ... B        : {rab:?}");
    let one = parse("[{a: b}, : foo]\n");
    println!("[{{a: b}}, : foo] : {one:?}");
    if ra.is_ok() && rb.is_ok() && rab.is_err() { println!("DEPENDENT"); std::process::exit(1) } else { println!("INDEPENDENT") }
}
