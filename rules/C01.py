"""C01 — parsing always terminates: no panic, abort or hang.

Clauses decided:
 (a) Input-contract discipline (E1): for every analysed buffer capacity, every peek/peek_nth/skip/skip_n of the scanner and of the
     provided methods of `trait Input` is covered by a prior lookahead, raw reads happen only on an empty buffer, no look-ahead
     request exceeds the capacity, and the in-repo implementations advertise a capacity >= the largest constant request;
 (b) parser token slot: every fetch_token() is reached with the peek slot filled;
 (d) argument preconditions: skip_ws_to_eol only with the constants SkipTabs::Yes/No, as_hex only under is_hex of the same value,
     flow_level decremented only under flow_level > 0, simple_keys pushed/popped only by its four owners;
 (e) loop progress: every natural loop of the scanner, the inputs, the parser and the loader has, on every cycle, a progress step of
     an enumerated kind; every non-Err return of fetch_next_token has consumed a character or queued a token;
 (f) review gate: every other panic-capable construct reachable from the parsing entry points is discharged mechanically or listed
     in tables/panic_review_parse.json.
"""
from .common import *
from engine import e1, panics, tables
from engine.facts import is_local, op_const, const_value, op_place

PID = "C01"
LEMMAS = [{"name": "skip_block_scalar_indent:bounded-space-skip", "fn": SCANNER + "::skip_block_scalar_indent",
           "step_fn": SCANNER + "::skip_blank", "floor_const": 3}]
QUICK_CAPS = [8, 16, 128]
THOROUGH_CAPS = [8, 9, 15, 16, 17, 64, 128, 1024]
ROOTS = [PARSER + "::next_event_impl", PARSER + "::peek", PARSER + "::next_event", PARSER + "::load", "<%s as std::iter::Iterator>::next" % PARSER,
         PARSER + "::new", PARSER + "::new_from_str", PARSER + "::new_from_iter",
         "<%s as saphyr_parser::parser::SpannedEventReceiver>::on_event" % LOADER, "saphyr::loader::LoadableYamlNode::load_from_str",
         "saphyr::loader::LoadableYamlNode::load_from_parser", "saphyr::loader::LoadableYamlNode::load_from_iter"]
LOOP_FILES = ("parser/src/scanner.rs", "parser/src/input.rs", "parser/src/input/str.rs", "parser/src/input/buffered.rs", "parser/src/parser.rs",
              "saphyr/src/loader.rs")


def new_report(tier):
    return make_report(PID, tier, "other", [
        "the documented contract of `trait Input` (lookahead(n) makes n characters available; peek/skip need them; raw reads bypass the buffer)",
        "std iterators over Range/slice/Chars are finite; str::strip_prefix and split_first_char return a strictly shorter string",
        "the invariants I1-I5 named in tables/panic_review_parse.json (reviewed, not proved)",
    ], "E1 abstract interpretation of the scanner over [lb,ub] buffered-character bounds with partitioned counters, per capacity; forward "
       "must-analysis of the parser's token slot; dominance rules for argument preconditions; per-loop cycle/progress classification; E1 pass B "
       "(character-class window) for class preconditions and must-progress of the outer scalar loops; UTF-8 boundary provenance of str slice "
       "offsets; panic-site inventory with mechanical discharge and a per-(function, kind) review table. Linear-time bound and stack exhaustion (C11) are not decided.")


def parse_path_functions(F):
    edges, _ = callgraph.build(F)
    roots = [r for r in ROOTS if r in F.fns]
    return sorted(callgraph.reachable(edges, roots))


def scanner_entries(F):
    ents = [k for k, f in F.fns.items() if f.d.get("impl_adt") == SCANNER and f.is_pub and f.kind == "AssocFn" and not f.d.get("impl_trait")]
    ents.append("<%s as std::iter::Iterator>::next" % SCANNER)
    return sorted(ents)


def run_e1(F, B):
    E = e1.E1(F, B, LEMMAS)
    for k in scanner_entries(F):
        f = F.fns[k]
        E.analyse(k, 0, e1.INF, tuple([None] * f.arg_count))
    return E


def clause_a(rep, F, caps):
    floor_sites = None
    for B in caps:
        try:
            E = run_e1(F, B)
        except e1.Violation as ex:
            rep.incomplete("E1 (capacity %d): %s" % (B, ex))
            continue
        for lg in E.lemma_log:
            rep.check(lg["ok"], "relational-lemma", "%s@B=%d" % (lg["lemma"], B),
                      "a premise of the relational lemma no longer holds: the bounded space-skip loop must be re-examined", detail=lg.get("premises"))
        nsites = 0
        for (fk, bb), s in sorted(E.sites.items()):
            nsites += 1
            f = F.fns[fk]
            inst = "%s:%s@B=%d" % (short(fk), s["prim"], B)
            if s["bad"]:
                b = s["bad"][0]
                rep.bad("input-contract", inst, "%s (buffered characters known: [%s, %s])" % (b["what"], b["lb"], b["ub"]),
                        site=site(f, f.blocks[bb]["term"]["sp"]), detail={"call_chain": b["call_chain"], "capacity": B})
            else:
                rep.ok("input-contract", inst, {"contexts": s["ok"]})
        rep.extra.setdefault("e1", {})[str(B)] = {"contexts": E.contexts, "sites": nsites}
        floor_sites = nsites if floor_sites is None else min(floor_sites, nsites)
        # asserts on buflen() in provided methods must be unreachable
        for (fk, bb), hits in sorted(E.diverge_hits.items()):
            if fk.startswith(INPUT + "::"):
                f = F.fns[fk]
                rep.bad("input-contract", "%s:assert@B=%d" % (short(fk), B), "an assert on buflen() in a provided Input method can fail",
                        site=site(f, f.blocks[bb]["term"]["sp"]), detail={"state": hits[0][:2], "chain": hits[0][2]})
        if B == caps[0]:
            rep.extra["fetch_next_token_exits"] = [(x[2], x[3], str(x[4])) for x in E.analyse(SCANNER + "::fetch_next_token", 0, e1.INF, (None,))]
            clause_e_summary(rep, F, E)
            # (c) and the must-consume facts come from the character-class pass (E1 pass B)
            from . import classdom
            EB = classdom.run(F, B)
            classdom.contract_sites(rep, F, EB, B)
            n = classdom.plain_scalar_precondition(rep, F, EB, B, "plain-scalar-precondition")
            rep.extra["class_pass"] = {"capacity": B, "contexts": EB.contexts, "next_can_be_plain_scalar_contexts": n}
            for (fk, bb), hits in sorted(EB.diverge_hits.items()):
                f = F.fns[fk]
                reviewed = fk == SCANNER + "::insert_token"
                rep.check(reviewed, "class-unreachable-panic", short(fk), "a panic/debug_assert in the scanner is reachable under the character-class analysis",
                          site=site(f, f.blocks[bb]["term"]["sp"]))
            clause_e_loops(rep, F, E, EB)
    rep.floor("Input primitive call sites visited by E1", floor_sites or 0, 100)
    # E1 follows calls, not closures: an Input operation inside a closure would escape the look-ahead analysis (fail closed)
    onpath = parse_path_functions(F)
    for k, f in sorted(F.fns.items()):
        if f.kind == "Closure" and f.crate == "saphyr_parser" and "::test" not in k:
            # only closures of code that runs while parsing matter (a provided Input method nobody on the parse path calls is outside the property)
            parent = f.d.get("closure_of")
            while parent in F.fns and F.fns[parent].kind == "Closure":
                parent = F.fns[parent].d.get("closure_of")
            if parent not in onpath and not any(p in onpath for p in f.d.get("closure_of_also", ())):
                continue
            ops = [fr["name"] for bb, t, ck, fr in f.calls() if fr and fr.get("trait") == INPUT]
            rep.check(not ops, "input-contract", "%s:closure" % short(k), "an Input operation (%s) is performed inside a closure, which the look-ahead "
                      "analysis does not follow: analysis incomplete" % ", ".join(ops), site=f.span)
    # capacity of the in-repo implementations
    maxreq = 0
    for k, f in F.fns.items():
        if f.crate != "saphyr_parser":
            continue
        for bb, t, ck, fr in f.calls():
            if fr and fr.get("trait") == INPUT and fr["name"] == "lookahead" and len(t["args"]) > 1:
                c = const_value(op_const(t["args"][1]) or {})
                if isinstance(c, int):
                    maxreq = max(maxreq, c)
    rep.extra["largest_constant_lookahead"] = maxreq
    rep.floor("largest constant look-ahead request", maxreq, 4)
    nimpl = 0
    for k, f in sorted(F.fns.items()):
        if f.name == "bufmaxlen" and f.d.get("impl_trait") == INPUT:
            nimpl += 1
            e = cfg.expr_local(f, 0)
            cap = e[1] if e[0] == "const" and isinstance(e[1], int) else None
            generic = None
            for d_ in cfg.defs_of_local(f, 0):
                if d_[0] == "stmt" and d_[3]["rv"]["k"] == "use":
                    c_ = op_const(d_[3]["rv"]["a"]) or {}
                    if isinstance(c_.get("opaque"), str) and c_["opaque"].isidentifier() and c_.get("ty") == "usize":
                        generic = c_["opaque"]
            if cap is None and generic is not None:
                # the capacity is a const parameter of the implementation: every instantiation is a back-end of its own; the look-ahead
                # analysis below is run for the capacities of the quantifier, and the bound is an obligation of whoever instantiates it
                rep.ok("capacity", short(k), {"capacity_is_const_parameter": generic})
                rep.extra.setdefault("impl_capacities", {})[short(k)] = "const " + generic
                rep.notes.append("the capacity of %s is the const parameter %s: analysed for the capacities %s" % (short(k), generic, list(caps)))
                continue
            rep.check(cap is not None and cap >= maxreq and cap >= 8, "capacity", short(k),
                      "an Input implementation advertises a buffer capacity below the scanner's largest look-ahead request (%d)" % maxreq,
                      site=f.span, detail={"bufmaxlen": cap})
            if cap is not None and cap not in caps and cap < 100000:
                rep.notes.append("capacity %d of %s is not among the analysed capacities" % (cap, k))
            rep.extra.setdefault("impl_capacities", {})[short(k)] = cap
    rep.floor("impl Input blocks with a bufmaxlen", nimpl, 2)
    # BufferedInput: the ring's capacity is the advertised capacity (same constant item, or the same literal)
    bi = F.adt(BUFINPUT)
    bt = [fld["ty"] for v in bi["variants"] for fld in v["fields"] if fld["name"] == "buffer"]
    bm = F.fn("<%s as %s>::bufmaxlen" % (BUFINPUT, INPUT))
    item = None
    for d in cfg.defs_of_local(bm, 0):
        if d[0] == "stmt" and d[3]["rv"]["k"] == "use" and op_const(d[3]["rv"]["a"]):
            item = op_const(d[3]["rv"]["a"]).get("item")
    cap = (rep.extra.get("impl_capacities") or {}).get(short(bm.key))
    tys = bt[0].replace(" ", "") if bt else ""
    same = bool(tys) and ((item is not None and tys.endswith("," + item.split("::")[-1] + ">")) or (isinstance(cap, int) and tys.endswith(",%d>" % cap))
                          or (isinstance(cap, str) and cap.startswith("const ") and tys.endswith("," + cap[6:] + ">")))
    rep.check(same, "capacity", "BufferedInput.buffer", "the ring buffer's capacity is not the constant advertised by bufmaxlen()",
              detail={"type": bt, "bufmaxlen": cap, "constant": item})


def clause_e_summary(rep, F, E):
    exits = E.analyse(SCANNER + "::fetch_next_token", 0, e1.INF, (None,))
    for (lb, ub, cons, enq, rk) in exits:
        is_err = rk is not None and rk[0] == "var" and rk[1] == 1
        if is_err:
            rep.ok("fetch-progress", "fetch_next_token[Err]", "exempt")
            continue
        rep.check(cons or enq, "fetch-progress", "fetch_next_token[Ok]",
                  "a non-error return of fetch_next_token has neither consumed a character nor queued a token on some path: the token loop can spin",
                  site=F.fns[SCANNER + "::fetch_next_token"].span, detail={"consumed": cons, "enqueued": enq})


def must_consume_functions(E):
    """local functions all of whose memoised exits (in every context reached) have consumed a character"""
    by_fn = {}
    for (fk, lb, ub, args, fl), exits in E.memo.items():
        ok = all(x[2] for x in exits if not (x[4] is not None and x[4][0] == "var" and x[4][1] == 1 and False))
        by_fn[fk] = by_fn.get(fk, True) and ok and bool(exits)
    return {k for k, v in by_fn.items() if v}


FINITE_ITER = ("<std::ops::Range as std::iter::Iterator>::next", "<std::slice::Iter as std::iter::Iterator>::next",
               "<std::slice::IterMut as std::iter::Iterator>::next", "<std::str::Chars as std::iter::Iterator>::next",
               "<&mut I as std::iter::Iterator>::next", "<std::vec::IntoIter as std::iter::Iterator>::next")
import re as _re
# `next` of an iterator over a finite collection (a string, a slice, a vector, a bounded range, a map) or of a std adaptor around one.
# Adaptors take their finiteness from what they wrap: the function must not build an unbounded source (repeat, cycle, successors,
# from_fn, an open range).
_FINITE_NEXT = _re.compile(r"<std::(str::(Chars|CharIndices|Bytes|Lines|Split\w*|Matches|MatchIndices)|slice::\w+|vec::(IntoIter|Drain)|ops::(Range|RangeInclusive)|"
                           r"collections::\w+::\w+|iter::(Enumerate|Skip|Take|TakeWhile|SkipWhile|Rev|Peekable|Map|Filter|FilterMap|Zip|Copied|Cloned|Chain|StepBy|Flatten))"
                           r"(<.*>)? as std::iter::Iterator>::next$")
_UNBOUNDED_SOURCES = ("std::iter::repeat", "std::iter::repeat_with", "std::iter::successors", "std::iter::from_fn", "Iterator::cycle", "std::ops::RangeFrom")


def finite_iterator_step(f, key):
    if key in FINITE_ITER:
        return True
    if not _FINITE_NEXT.match(key or ""):
        return False
    if "std::iter::" in key:
        for bb, t, ck, fr in f.calls():
            if ck and ck.endswith(_UNBOUNDED_SOURCES):
                return False
        for bi, si, st in cfg.stmts(f):
            if st["k"] == "assign" and st["rv"]["k"] == "agg" and str(st["rv"].get("adt", "")).endswith("RangeFrom"):
                return False
    return True


SHRINK = ("str::strip_prefix", "saphyr_parser::input::str::split_first_char")


def may_consume_functions(F):
    """local functions from which a consuming Input primitive is reachable"""
    edges, _ = callgraph.build(F, fanout_traits=False)
    direct = set()
    for k, f in F.fns.items():
        if f.crate != "saphyr_parser":
            continue
        for bb, t, ck, fr in f.calls():
            if fr and fr.get("trait") == INPUT and fr["name"] in ("skip", "skip_n", "raw_read_ch", "raw_read_non_breakz_ch"):
                direct.add(k)
    rev = {}
    for a, bs in edges.items():
        for b in bs:
            rev.setdefault(b, set()).add(a)
    seen = set(direct)
    st = list(direct)
    while st:
        k = st.pop()
        for c in rev.get(k, ()):
            if c not in seen:
                seen.add(c)
                st.append(c)
    return seen


def clause_e_loops(rep, F, E, EB=None):
    must = must_consume_functions(E)
    may = may_consume_functions(F)
    site_must = {k for k, v in (EB.site_cons.items() if EB is not None else []) if v}
    rep.extra["must_consume_functions"] = sorted(short(k) for k in must if "Scanner::" in k)
    nloops = 0
    weak = []
    for k, f in sorted(F.fns.items()):
        if f.file not in LOOP_FILES or "::test" in k:
            continue
        for head, body in f.natural_loops():
            nloops += 1
            strong_blocks, weak_blocks = set(), set()
            kinds = set()
            for b in body:
                t = f.blocks[b]["term"]
                if t["k"] != "call":
                    continue
                fr = t["f"].get("fn")
                if not fr:
                    continue
                key = fr.get("resolved") or fr["key"]
                base = fr["key"]
                if fr.get("trait") == INPUT and fr["name"] in ("skip", "raw_read_ch"):
                    strong_blocks.add(b); kinds.add("consume")
                elif fr.get("trait") == INPUT and fr["name"] == "raw_read_non_breakz_ch":
                    # consumes on Some; the None edge must leave the loop: checked through the weak/strong split below
                    strong_blocks.add(b); kinds.add("raw-read")
                elif finite_iterator_step(f, key):
                    strong_blocks.add(b); kinds.add("finite-iterator")
                elif key in SHRINK:
                    strong_blocks.add(b); kinds.add("string-shrink")
                elif base in (PARSER + "::skip", PARSER + "::next_event_impl", PARSER + "::fetch_token"):
                    strong_blocks.add(b); kinds.add("token-or-event-consumed")
                elif base == SCANNER + "::fetch_next_token":
                    strong_blocks.add(b); kinds.add("fetch-progress-summary")
                elif base == "std::vec::Vec::pop":
                    strong_blocks.add(b); kinds.add("stack-pop")
                elif key in must or base in must:
                    strong_blocks.add(b); kinds.add("must-consume-call")
                elif (k, b) in site_must:
                    # the class pass shows the callee consumes in every context that reaches this call site (e.g. skip_ws_to_eol at a tab)
                    strong_blocks.add(b); kinds.add("must-consume-at-this-site")
                elif (key in may or base in may) and (key in F.fns or base in F.fns):
                    weak_blocks.add(b); kinds.add("may-consume-call")
            # counter loops: x = x + const>0 stored back to the local that an exit test compares with a bound
            for b in body:
                for s in f.blocks[b]["stmts"]:
                    if s["k"] == "assign" and not s["lhs"]["p"] and s["rv"]["k"] == "use":
                        e = cfg.expr_operand(f, s["rv"]["a"], 4)
                        if e[0] == "place" and e[2] == [("field", "0")] and e[1][0] == "bin" and e[1][1] == "AddWithOverflow" and e[1][3][0] == "const" \
                                and isinstance(e[1][3][1], int) and e[1][3][1] > 0 and e[1][2] == ("phi", s["lhs"]["l"]):
                            if _loop_exit_tests_local(f, body, s["lhs"]["l"]):
                                strong_blocks.add(b); kinds.add("bounded-counter")
            inst = "%s#loop@bb%d" % (short(k), head)
            inst = "%s#loop%d" % (short(k), [h for h, _ in f.natural_loops()].index(head))
            if not _cycle_avoiding(f, head, body, strong_blocks):
                rep.ok("loop-progress", inst, sorted(kinds))
            elif EB is not None and (k, head) in EB.loop_heads_seen and (k, head) not in EB.spin_sources:
                # the class pass followed every abstract state around this loop: none comes back to the head without having consumed
                rep.ok("loop-progress", inst, sorted(kinds | {"class-pass: every return to the loop head has consumed"}))
                rep.extra.setdefault("loops_by_class_pass", []).append(inst)
            elif not _cycle_avoiding(f, head, body, strong_blocks | weak_blocks):
                weak.append(inst)
                rep.ok("loop-progress-weak", inst, sorted(kinds))
            else:
                cyc = _cycle_avoiding(f, head, body, strong_blocks | weak_blocks)
                names = sorted({(f.blocks[b]["term"]["f"].get("fn") or {}).get("name", "?") for b in body if f.blocks[b]["term"]["k"] == "call"})
                exc = [e for e in loop_exceptions() if e["fn"] == k and sorted(e["callees"]) == names]
                if exc:
                    rep.ok("loop-progress-reviewed", inst, exc[0]["reason"])
                    rep.extra.setdefault("exceptions_applied", []).append({"loop": inst, "reason": exc[0]["reason"]})
                    continue
                rep.bad("loop-progress", inst, "a cycle of this loop passes no progress step (no consuming call, iterator step, token/event "
                        "consumption, stack pop or bounded counter): it can spin forever", site="%s (%s)" % (f.key, f.span), detail={"cycle_blocks": cyc})
    rep.extra["loops"] = {"total": nloops, "weak": weak}
    rep.floor("natural loops classified", nloops, 35)


def loop_exceptions():
    import json
    with open(os.path.join(facts.VERIF, "tables", "c01_loop_exceptions.json")) as fh:
        return json.load(fh)["entries"]


def _loop_exit_tests_local(f, body, l):
    for b in body:
        t = f.blocks[b]["term"]
        if t["k"] == "switch" and any(s not in body for s in f.succs(b)):
            e = cfg.expr_operand(f, t["discr"], 5)
            if e[0] == "bin" and e[1] in ("Lt", "Le", "Gt", "Ge", "Ne") and (e[2] == ("phi", l) or e[3] == ("phi", l)):
                return True
    return False


def _cycle_avoiding(f, head, body, removed):
    """a cycle through `head` inside the loop body that avoids the removed blocks (returns block list) or None"""
    if head in removed:
        return None
    seen = set()
    st = [(head, [head])]
    while st:
        b, path = st.pop()
        for s in f.succs(b):
            if s not in body or s in removed:
                continue
            if s == head:
                return path + [head]
            if s not in seen:
                seen.add(s)
                st.append((s, path + [s]))
    return None


def clause_b(rep, F):
    """forward must-analysis of Parser.token: Some after peek_token()? ; unknown after skip()/fetch_token()/any other &mut self method"""
    PRES = {PARSER + "::push_state", PARSER + "::pop_state", PARSER + "::register_anchor", PARSER + "::resolve_tag"}
    n = 0
    for k, f in sorted(F.fns.items()):
        if f.d.get("impl_adt") != PARSER or f.kind != "AssocFn":
            continue
        sites = [bb for bb, t, ck, fr in f.calls() if ck == PARSER + "::fetch_token"]
        if not sites:
            continue
        # state: True = slot known Some
        st_in = {0: False}
        work = [0]
        while work:
            b = work.pop()
            s = st_in[b]
            t = f.blocks[b]["term"]
            outs = []
            if t["k"] == "call":
                fr = t["f"].get("fn")
                ck = fr["key"] if fr else None
                if ck == PARSER + "::peek_token":
                    # Ok continuation: after `?` the Continue edge; conservatively the slot is Some after the call returns Ok.
                    # peek_token returns Err without filling the slot; the Err edge leaves the function (from_residual), so Some on all continuing paths
                    s2 = True
                elif ck in (PARSER + "::skip", PARSER + "::fetch_token"):
                    s2 = False
                elif ck in PRES or ck is None or not (ck or "").startswith(PARSER + "::"):
                    s2 = s
                    # a foreign call receiving &mut self.token ?  (take): treat Option::take on the token field as clearing
                    if ck == "std::option::Option::take":
                        e = cfg.strip_reborrow(cfg.expr_operand(f, t["args"][0]))
                        if e[0] == "ref" and cfg.expr_fields(e[1]) == ["token"]:
                            s2 = False
                else:
                    s2 = False
                if t["t"] is not None:
                    outs.append((t["t"], s2))
            else:
                # direct writes to self.token
                s2 = s
                for stt in f.blocks[b]["stmts"]:
                    if stt["k"] == "assign" and cfg.touches_field(stt["lhs"], PARSER, "token"):
                        s2 = False
                for x in f.succs(b):
                    outs.append((x, s2))
            # `?` after peek_token: the Break edge goes to an Err return; both edges keep s2 (harmless)
            for tg, v in outs:
                if f.blocks[tg]["cleanup"]:
                    continue
                old = st_in.get(tg)
                new = v if old is None else (old and v)
                if old != new:
                    st_in[tg] = new
                    work.append(tg)
        for bb in sites:
            n += 1
            rep.check(st_in.get(bb, False), "token-slot", "%s:fetch_token" % short(k),
                      "fetch_token() (an expect) can be reached without a preceding successful peek_token() on some path", site=site(f, f.blocks[bb]["term"]["sp"]))
    rep.floor("fetch_token call sites", n, 3)


def clause_d(rep, F):
    # skip_ws_to_eol argument
    n = 0
    for k, f in sorted(F.fns.items()):
        if f.crate != "saphyr_parser":
            continue
        for bb, t, ck, fr in f.calls():
            if ck in (SCANNER + "::skip_ws_to_eol", INPUT + "::skip_ws_to_eol"):
                n += 1
                e = cfg.expr_operand(f, t["args"][1])
                okk = (e[0] == "adt" and e[1].endswith("input::SkipTabs") and e[2] in ("Yes", "No")) or (e[0] == "param" and f.name == "skip_ws_to_eol")
                rep.check(okk, "skip-tabs-constant", "%s->skip_ws_to_eol" % short(k), "skip_ws_to_eol is called with something other than the constants "
                          "SkipTabs::Yes/No (StrInput asserts this)", site=site(f, t["sp"]), detail=cfg.expr_str(e))
    rep.floor("skip_ws_to_eol call sites", n, 6)
    # as_hex under is_hex
    n = 0
    for k, f in sorted(F.fns.items()):
        if f.crate != "saphyr_parser":
            continue
        for bb, t, ck, fr in f.calls():
            if ck == "saphyr_parser::char_traits::as_hex":
                n += 1
                arg = tables.normalize(cfg.expr_operand(f, t["args"][0], 10))
                okk = False
                for b2 in f.dominators().get(bb, ()):
                    tt = f.blocks[b2]["term"]
                    if tt["k"] != "switch":
                        continue
                    e = cfg.expr_operand(f, tt["discr"], 10)
                    neg = False
                    while e[0] == "un" and e[1] == "Not":
                        e = e[2]; neg = not neg
                    same_local = False
                    if e[0] == "call" and e[1] == "saphyr_parser::char_traits::is_hex":
                        # the test and the conversion read the same variable (whatever the depth at which its definition is printed)
                        la = is_local(t["args"][0])
                        for b3, t3, ck3, fr3 in f.calls():
                            if ck3 == "saphyr_parser::char_traits::is_hex" and t3["dest"] is not None and not t3["dest"]["p"] \
                                    and cfg.resolve_copy_chain(f, t3["dest"]["l"]) == cfg.resolve_copy_chain(f, is_local(tt["discr"]) if is_local(tt["discr"]) is not None else -1):
                                lb = is_local(t3["args"][0])
                                if la is not None and lb is not None and cfg.resolve_copy_chain(f, la) == cfg.resolve_copy_chain(f, lb):
                                    same_local = True
                    if e[0] == "call" and e[1] == "saphyr_parser::char_traits::is_hex" and (tables.normalize(e[2][0]) == arg or same_local):
                        m, other = cfg.switch_edge_blocks(f, b2)
                        true_tg = m.get(0) if neg else other
                        if true_tg is not None and cfg.dominated_by_edge(f, bb, b2, true_tg):
                            okk = True
                rep.check(okk, "as-hex-guarded", "%s->as_hex" % short(k), "as_hex (unreachable! on non-hex input) is not dominated by is_hex of the same value",
                          site=site(f, t["sp"]), detail=cfg.expr_str(arg))
    rep.extra["as_hex_call_sites"] = n
    # flow_level decrement under flow_level > 0
    dfl = F.fn(SCANNER + "::decrease_flow_level")
    subs = [w for w in cfg.field_writes(dfl, SCANNER, "flow_level") if w["kind"] == "assign"]
    okk = bool(subs)
    for w in subs:
        g = False
        for b2 in dfl.dominators().get(w["bb"], ()):
            tt = dfl.blocks[b2]["term"]
            if tt["k"] == "switch":
                e = cfg.expr_operand(dfl, tt["discr"], 6)
                if e[0] == "bin" and e[1] == "Gt" and cfg.expr_fields(e[2]) == ["flow_level"] and e[3] == ("const", 0):
                    if cfg.dominated_by_edge(dfl, w["bb"], b2, tt["otherwise"]):
                        g = True
        okk = okk and g
    rep.check(okk, "flow-level-decrement-guarded", "decrease_flow_level", "flow_level is decremented outside `if self.flow_level > 0`", site=dfl.span)
    # owners of simple_keys
    pushers, poppers = set(), set()
    for k, f in F.fns.items():
        if f.crate != "saphyr_parser":
            continue
        for w in cfg.field_writes(f, SCANNER, "simple_keys"):
            if w["kind"] == "borrow_mut" and w.get("use"):
                c = w["use"]["callee"] or ""
                if c.endswith("Vec::push"):
                    pushers.add(short(k))
                elif c.endswith("Vec::pop") or c.endswith("::clear") or c.endswith("::truncate") or c.endswith("::remove"):
                    poppers.add(short(k))
    rep.check(pushers <= {"scanner::Scanner::fetch_stream_start", "scanner::Scanner::increase_flow_level", "scanner::Scanner::save_simple_key", "scanner::Scanner::new"}
              and poppers <= {"scanner::Scanner::decrease_flow_level", "scanner::Scanner::save_simple_key"}, "simple-keys-writers", "Scanner.simple_keys",
              "simple_keys is pushed or popped outside its owners: invariant I1 (len = flow_level + 1) no longer follows",
              detail={"push": sorted(pushers), "pop": sorted(poppers)})


def clause_f(rep, F):
    table = panics.load_table(os.path.join(facts.VERIF, "tables", "panic_review_parse.json"))
    fns = parse_path_functions(F)
    total, disc, residual = panics.review(rep, "panic-review", F, fns, table, short)
    rep.extra["panic_sites"] = {"functions": len(fns), "total": total, "mechanically_discharged": disc, "reviewed": sum(len(v) for v in residual.values())}
    rep.floor("functions reachable from the parsing entry points", len(fns), 200)
    rep.floor("panic-capable sites inventoried", total, 100)
    # the reviewed unreachable!() of state_machine's End arm rests on parse() answering State::End before dispatching: check the premise
    from . import C02
    okend, pf = C02.end_answered_before_dispatch(F)
    rep.check(okend, "unreachable-end-state", "parse", "parse() can dispatch in State::End (for instance when a driver other than next_event delivered StreamEnd): "
              "the unreachable!() of state_machine's End arm panics", site=pf.span)
    # the reviewed diverging sites of the push interface (assert_eq!(ev, DocumentEnd) in load_document, unreachable!() in load_node and the
    # loaders' on_event) rest on invariant I4: the event sentence is well-nested (C02's role typing of the state machine and balance of
    # the state stack).  The premise is checked here, with C02's own rules: if it fails, those panics are reachable.
    sub = C02.run("quick")
    prem = [v for v in sub.violations if v["rule"] in ("role-typing", "stack-ops", "dispatch", "reachable-panic", "single-writer")]
    rep.check(not prem, "event-grammar-premise", "load_document/load_node", "the event sentence is no longer provably well-nested (%s): the assertions of the push "
              "interface that are reviewed as unreachable under that invariant (assert_eq!(ev, DocumentEnd), unreachable!() in load_node) can fire - a panic "
              "instead of an error" % "; ".join(sorted({"%s %s" % (v["rule"], v["key"].split(":", 1)[-1][:60]) for v in prem})[:3]),
              site=F.fn(PARSER + "::load_node").span, detail={"violations_of_C02": len(prem)})
    # str slices: the byte offset is a character boundary by construction (a review entry cannot see an off-by-one in the offset)
    from . import utf8
    ns = utf8.check(rep, F, fns)
    rep.extra["str_slice_sites"] = ns
    rep.floor("str slice sites on the parse path", ns, 2)
    # every table entry still names an existing function
    for (fk, kind), ent in sorted(table.items()):
        if fk not in F.fns:
            rep.notes.append("review table entry for vanished function %s (%s)" % (fk, kind))


def run(tier):
    rep = new_report(tier)
    F = facts.load()
    caps = THOROUGH_CAPS if tier == "thorough" else QUICK_CAPS
    rep.extra["capacities"] = caps
    clause_a(rep, F, caps)
    clause_b(rep, F)
    clause_d(rep, F)
    clause_f(rep, F)
    # (e') the parser side of termination: no cycle of states without a consumed token (E5)
    from . import parserprogress
    parserprogress.check(rep, F)
    return rep
