//! C04: an indented `---` / `...` on a continuation line of a multi-line plain scalar is text (markers exist at column 0 only), but
//! scan_plain_scalar tested for a marker after every line break whatever the column: the scalar was cut and the input rejected.
use saphyr::{LoadableYamlNode, Yaml};
fn main() {
    let mut ok = true;
    for (src, want) in [("key: a\n  --- b\n", "a --- b"), ("key: a\n  ... b\n", "a ... b"), ("key: a\n  ---\n", "a ---")] {
        let got = Yaml::load_from_str(src).map(|d| d[0]["key"].as_str().map(str::to_owned));
        println!("{src:?} -> {got:?} (want {want:?})");
        ok &= matches!(got, Ok(Some(ref s)) if s == want);
    }
    // markers at column 0 still end the scalar
    let two = Yaml::load_from_str("a\n--- b\n").map(|d| d.len());
    println!("\"a\\n--- b\\n\" -> {two:?} documents (want 2)");
    ok &= two == Ok(2);
    println!("{}", if ok { "TEXT KEPT" } else { "REJECTED OR CUT" });
    std::process::exit(if ok { 0 } else { 1 });
}
