//! C04: inside a plain scalar indicator characters are ordinary text; only the first character is restricted.  In flow context the test
//! "a plain scalar cannot start with '-' followed by , [ ] { }" was repeated at every word of the scalar: `[a -, b]` was rejected.
use saphyr::{LoadableYamlNode, Yaml};
fn main() {
    let mut ok = true;
    for (src, want) in [("[a -, b]", Some("a -")), ("{k: x -}", None), ("[-, b]", None)] {
        let got = Yaml::load_from_str(src);
        println!("{src:?} -> {:?}", got.as_ref().map(|d| format!("{:?}", d[0])));
        match (src, want) {
            ("[-, b]", _) => ok &= got.is_err(),       // a scalar that *starts* with "-," is still an error
            ("{k: x -}", _) => ok &= matches!(got, Ok(ref d) if d[0]["k"].as_str() == Some("x -")),
            (_, Some(w)) => ok &= matches!(got, Ok(ref d) if d[0][0].as_str() == Some(w)),
            _ => {}
        }
    }
    println!("{}", if ok { "TEXT KEPT" } else { "REJECTED" });
    std::process::exit(if ok { 0 } else { 1 });
}
