#!/usr/bin/env python3
"""maintenance helper: apply a patch to /repo, run the given checks with the evidence redirected, undo the patch.
usage: tools/try_patch.py <patch> <ID> [<ID> ...]"""
import subprocess, os, sys, tempfile, shutil
patch, pids = os.path.abspath(sys.argv[1]), sys.argv[2:]
subprocess.run("git -C /repo apply %s" % patch, shell=True, check=True)
try:
    for pid in pids:
        evd = tempfile.mkdtemp()
        p = subprocess.run("./verif check %s" % pid, shell=True, cwd="/verif", env=dict(os.environ, VERIF_EVIDENCE_DIR=evd), stdout=subprocess.PIPE, text=True)
        print(pid, "exit", p.returncode)
        for l in p.stdout.splitlines():
            if l.startswith("  rule"):
                print("   ", l.strip()[:260])
        shutil.rmtree(evd, ignore_errors=True)
finally:
    subprocess.run("git -C /repo checkout -- .", shell=True)
