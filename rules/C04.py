"""C04 — plain and quoted scalars yield exactly the text YAML assigns to them.

Clause decided (only this): the double-quoted escape decoding table is the YAML 1.2 table.  Each named escape of
resolve_flow_scalar_escape_sequence maps to the code point section 5.7 of the specification gives, x/u/U select 2/4/8 hex digits,
every other character after `\\` reaches an error, the hex accumulator is (value << 4) + as_hex(c) with as_hex the hexadecimal digit
value (folded from its body), and the result passes through char::from_u32 with None -> Err.
Also decided: line folding of quoted and plain scalars as path tables against section 6.5 (rules/folding.py, engine E7) and the
push-class facts (every character copied from the cursor into scalar text is a content character; E1 pass B).  '' un-doubling, where a
plain scalar ends and the text as a value are not decided here.
"""
import json
from .common import *
from engine import tables, fold
from engine.facts import is_local, op_const, const_value, op_place

PID = "C04"
RESOLVE = SCANNER + "::resolve_flow_scalar_escape_sequence"


def new_report(tier):
    return make_report(PID, tier, "proof", [
        "tables/yaml12_escapes.json is a faithful transcription of YAML 1.2.2 section 5.7 (escaped characters)",
        "char::from_u32 returns None exactly for surrogates and values above 0x10FFFF (std)",
        "the folding table in rules/folding.py is a faithful transcription of YAML 1.2.2 sections 6.5 and 7.3.1",
    ], "E4 switch-table extraction from the MIR of resolve_flow_scalar_escape_sequence (arm constant per escape character, hex-length arms, "
       "default arm), expression shape of the hex accumulator, constant folding of as_hex/is_hex over the alphabet, compared with the "
       "specification's table; E7 guarded-path tables of the flush / line-break / blank regions of scan_flow_scalar and scan_plain_scalar "
       "(buffer roles inferred from how they are written) evaluated on every feasible (flag, buffer-empty) combination against section 6.5; "
       "E1 pass B character-class windows at every push of a cursor character. Quote un-doubling, plain-scalar termination and the text "
       "as a value are outside static reach.")


class EscRec:
    """recogniser for engine E7: symbolic constants along the paths of resolve_flow_scalar_escape_sequence"""
    transparent = ()

    def __init__(self, F, f):
        from engine import e7
        self.F, self.f = F, f

    def _known(self, st, op):
        c = op_const(op)
        if c is not None:
            v = const_value(c)
            if isinstance(v, tuple) and v[0] == "char":
                return ("chr", v[1])
            if isinstance(v, bool):
                return ("num", int(v))
            if isinstance(v, int):
                return ("num", v)
            return None
        l = is_local(op)
        if l is not None:
            return st.get(("val", l))
        # a field of a value of a private enum / struct built earlier on this path: (_x as Variant).i
        pl = op_place(op)
        if pl is not None and pl["p"]:
            base = st.get(("val", pl["l"]))
            fld = [e for e in pl["p"] if e["k"] == "field"]
            if base is not None and base[0] == "adt" and len(fld) == 1 and all(e["k"] in ("field", "downcast", "deref") for e in pl["p"]) and fld[0]["i"] < len(base[2]):
                return base[2][fld[0]["i"]]
        return None

    def guard(self, bi, st):
        from engine.e7 import Cons, TRUE, FALSE
        f = self.f
        t = f.blocks[bi]["term"]
        e = cfg.expr_operand(f, t["discr"], 8)
        if t["dty"] == "char":
            if e[0] == "call" and e[1] and e[1].endswith("Input::peek_nth") and e[2][1] == ("const", 1):
                edges = [(Cons([v]), tg) for v, tg in zip(t["vals"], t["targets"])]
                edges.append((Cons(neg=t["vals"]), t["otherwise"]))
                return (("esc",), edges)
        k = self._known(st, t["discr"])
        if k is not None and k[0] == "num":
            for v, tg in zip(t["vals"], t["targets"]):
                if v == k[1]:
                    return (("known", bi), [(TRUE, tg)])
            return (("known", bi), [(TRUE, t["otherwise"])])
        edges = [(Cons([v]), tg) for v, tg in zip(t["vals"], t["targets"])]
        edges.append((Cons(neg=t["vals"]), t["otherwise"]))
        return (("opaque", bi), edges)

    def stmt(self, s, st):
        f = self.f
        if s["k"] != "assign" or s["lhs"]["p"]:
            return None
        l = s["lhs"]["l"]
        rv = s["rv"]
        v = None
        if rv["k"] == "use":
            v = self._known(st, rv["a"])
        elif rv["k"] == "bin":
            a, b = self._known(st, rv["a"]), self._known(st, rv["b"])
            if a and b and a[0] == b[0] == "num" and rv["op"] in ("Eq", "Ne", "Lt", "Le", "Gt", "Ge"):
                x, y = a[1], b[1]
                v = ("num", int({"Eq": x == y, "Ne": x != y, "Lt": x < y, "Le": x <= y, "Gt": x > y, "Ge": x >= y}[rv["op"]]))
        elif rv["k"] == "agg" and rv.get("variant") == "Ok" and l == 0:
            k = self._known(st, rv["ops"][0])
            return ("ret", k[1] if k and k[0] == "chr" else "dynamic")
        elif rv["k"] == "agg" and rv.get("adt") and rv.get("vidx") is not None:
            v = ("adt", rv["vidx"], tuple(self._known(st, o) for o in rv["ops"]))
        elif rv["k"] == "discr":
            base = st.get(("val", rv["p"]["l"])) if not [e for e in rv["p"]["p"] if e["k"] != "deref"] else None
            if base is not None and base[0] == "adt":
                v = ("num", base[1])
        if v is None:
            st.pop(("val", l), None)
        else:
            st[("val", l)] = v
        return None

    def call(self, bi, t, ck, st):
        f = self.f
        d = t["dest"]
        dl = d["l"] if not d["p"] else None
        if dl is not None:
            st.pop(("val", dl), None)
        if ck == "std::char::from_u32":
            k = self._known(st, t["args"][0])
            if k and k[0] == "num" and dl is not None:
                st[("val", dl)] = ("optchr", k[1])
            return "transparent"
        if ck == "std::option::Option::unwrap":
            k = self._known(st, t["args"][0])
            if k and k[0] == "optchr" and dl is not None:
                st[("val", dl)] = ("chr", k[1])
            return "transparent"
        if ck.endswith("Input::lookahead"):
            k = self._known(st, t["args"][1])
            return ("op", ("lookahead", k[1] if k and k[0] == "num" else "dynamic"))
        if ck.endswith("Scanner::skip_n_non_blank"):
            k = self._known(st, t["args"][1])
            return ("op", ("consume", k[1] if k and k[0] == "num" else "dynamic"))
        if ck.endswith("ScanError::new_str") or ck.endswith("::from_residual"):
            return ("op", ("err",))
        return "transparent"


def scanner_escape_table(F):
    """returns (named: {escape char code point -> decoded code point}, hexlen: {escape char -> digits}, default_is_error, info).
    Path based (engine E7): for every value the character after the backslash can take, what the function returns (a constant character)
    or how many hex digits it asks for - whatever the shape of the match (one flat match, nested matches, early returns)."""
    from engine import e7
    f = F.fn(RESOLVE)
    rec = EscRec(F, f)
    ps = [p for p in e7.paths(f, 0, rec, limit=20000) if p["why"] != "unreachable"]
    listed = set()
    for p in ps:
        c = p["guards"].get(("esc",))
        if c is not None and c.pos is not None:
            listed |= set(c.pos)
    if not listed:
        raise facts.MissingAnchor("the match on the escape character was not found in resolve_flow_scalar_escape_sequence")
    named, hexlen, problems = {}, {}, []

    def outcome(v):
        rets, looks, errs, oks = set(), set(), 0, 0
        for p in e7.matching(ps, {("esc",): v}):
            if p["why"] not in ("return", "back-edge"):
                continue
            if any(o[0] == "err" for o in p["ops"]):
                errs += 1
                continue
            oks += 1
            for o in p["ops"]:
                if o[0] == "ret":
                    rets.add(o[1])
                if o[0] == "lookahead":
                    looks.add(o[1])
        return rets, looks, errs, oks
    for v in sorted(listed):
        rets, looks, errs, oks = outcome(v)
        consts = {r for r in rets if r != "dynamic"}
        if len(consts) == 1 and "dynamic" not in rets and not looks:
            named[v] = consts.pop()
        elif len(looks) == 1 and "dynamic" not in looks and not consts:
            hexlen[v] = looks.pop()
        elif oks == 0:
            continue        # listed but rejected
        else:
            problems.append(v)
    other = next(c for c in range(0x41, 0x7B) if c not in listed)
    rets, looks, errs, oks = outcome(other)
    return named, hexlen, (oks == 0 and errs > 0), {"fn": f, "unresolved_arms": problems, "paths": len(ps)}


def run(tier):
    rep = new_report(tier)
    F = facts.load()
    with open(os.path.join(facts.VERIF, "tables", "yaml12_escapes.json")) as fh:
        spec = json.load(fh)
    named, hexlen, default_bb, info = scanner_escape_table(F)
    f = info["fn"]
    rep.check(not info["unresolved_arms"], "escape-arms-resolved", "resolve_flow_scalar_escape_sequence", "an escape arm assigns neither a constant character nor a hex length",
              site=f.span, detail=[chr(x) for x in info["unresolved_arms"]])
    want_named = {ord(k) if len(k) == 1 else int(k[2:], 16): v for k, v in spec["named"].items()}
    want_hex = {ord(k): v for k, v in spec["hex_digits"].items()}
    for esc, cp in sorted(want_named.items()):
        got = named.get(esc)
        rep.check(got == cp, "escape-table", "\\%s" % (chr(esc) if esc > 32 else "x%02x" % esc),
                  "the escape \\%s decodes to U+%s; YAML 1.2 says U+%04X" % (chr(esc) if esc > 32 else "<%d>" % esc, ("%04X" % got) if got is not None else "nothing (rejected)", cp),
                  site=f.span)
    for esc in sorted(set(named) - set(want_named)):
        rep.bad("escape-table", "\\%s" % chr(esc), "the scanner accepts the escape \\%s (-> U+%04X) which YAML 1.2 does not define" % (chr(esc), named[esc]), site=f.span)
    for esc, n in sorted(want_hex.items()):
        rep.check(hexlen.get(esc) == n, "escape-hex-length", "\\%s" % chr(esc), "the escape \\%s reads %s hex digits; YAML 1.2 says %d" % (chr(esc), hexlen.get(esc), n), site=f.span)
    for esc in sorted(set(hexlen) - set(want_hex)):
        rep.bad("escape-hex-length", "\\%s" % chr(esc), "unexpected hex escape \\%s" % chr(esc), site=f.span)
    rep.floor("named escapes extracted", len(named), 17)
    # any character that is not an escape reaches an error
    rep.check(default_bb is True, "unknown-escape-rejected", "resolve_flow_scalar_escape_sequence", "a character that is not an escape is accepted after a backslash", site=f.span)
    # hex accumulator shape: value = ((value << 4) + as_hex(c)).0 with c = peek_nth(i), under is_hex(c) (C01 checks the guard)
    okacc = False
    for bi, si, s in cfg.stmts(f):
        if s["k"] == "assign" and not s["lhs"]["p"] and f.locals[s["lhs"]["l"]]["ty"] == "u32" and s["rv"]["k"] == "use":
            e = cfg.expr_operand(f, s["rv"]["a"], 10)
            st = cfg.expr_str(e).replace(" ", "")
            if e[0] == "place" and e[2] == [("field", "0")] and e[1][0] == "bin" and e[1][1] == "AddWithOverflow":
                a, b = e[1][2], e[1][3]
                if a[0] == "bin" and a[1] == "Shl" and a[3] == ("const", 4) and b[0] == "call" and b[1] == "saphyr_parser::char_traits::as_hex" \
                        and "peek_nth" in cfg.expr_str(b):
                    okacc = True
    rep.check(okacc, "hex-accumulator", "resolve_flow_scalar_escape_sequence", "the hex escape value is no longer accumulated as (value << 4) + as_hex(peek_nth(i))",
              site=f.span)
    # the decoded value goes through char::from_u32 and None is an error (the guard itself is C06)
    fu = [bb for bb, t, ck, fr in f.calls() if ck == "std::char::from_u32" and cfg.expr_operand(f, t["args"][0], 4)[0] != "const"]
    rep.check(len(fu) == 1, "from-u32", "resolve_flow_scalar_escape_sequence", "the decoded code point no longer goes through char::from_u32", site=f.span)
    # as_hex / is_hex tables by constant folding
    fo = fold.Folder(F)
    bad = []
    ishex = fold.predicate_table(F, "saphyr_parser::char_traits::is_hex")
    for cp in fold.ALPHABET:
        exp = int(chr(cp), 16) if cp < 128 and chr(cp) in "0123456789abcdefABCDEF" else None
        if (cp in ishex) != (exp is not None):
            bad.append("is_hex(%r)" % chr(cp))
        if exp is not None:
            try:
                if fo.call("saphyr_parser::char_traits::as_hex", [cp]) != exp:
                    bad.append("as_hex(%r)" % chr(cp))
            except (fold.Diverged, fold.Unsupported) as ex:
                bad.append("as_hex(%r): %s" % (chr(cp), ex))
    rep.check(not bad, "hex-digit-value", "as_hex/is_hex", "is_hex/as_hex are not the hexadecimal digit predicate/value", detail=bad[:10])
    # content characters are passed through, breaks and the end-of-input padding never are: every cursor character pushed into text
    # excludes LF, CR and NUL (E1 pass B)
    from . import classdom
    for B in ((16,) if tier == "quick" else (8, 16, 128)):
        EB = classdom.run(F, B)
        classdom.contract_sites(rep, F, EB, B)
        forbid = EB.BRK | EB.A.mask([0])
        n = classdom.cursor_pushes(rep, F, EB, B, "content-push-class", forbid, "only content characters may be copied from the input into a scalar")
        rep.extra.setdefault("class_pass", {})[str(B)] = {"contexts": EB.contexts, "cursor_push_sites": n}
        rep.floor("cursor-character push sites (B=%d)" % B, n, 8)
    # line folding of plain and quoted scalars as path tables (E7) against section 6.5
    from . import folding
    nf = folding.check(rep, F)
    rep.floor("folding cases decided", nf, 36)
    # what one round of the quoted-scalar content loop does ('' un-doubling, closing quote, escaped line break, escapes, ordinary characters)
    from . import quoting
    nq_ = quoting.check(rep, F)
    rep.floor("quoted-scalar content cases", nq_, 100)
    # inside a word of a plain scalar '#' is content: the comment test is reached from a content character only across a blank or break
    from . import plainword
    rep.floor("plain-word paths", plainword.check(rep, F), 20)
    # an indented `---` / `...` inside a multi-line plain or quoted scalar is text: the marker test sits where the column is 0
    from . import markers
    rep.floor("document marker tests in the flow/plain scalar scanners", markers.check(rep, F, only={SCANNER + "::scan_plain_scalar", SCANNER + "::scan_flow_scalar"}), 2)
    rep.extra["escape_table"] = {("\\" + (chr(k) if k > 32 else "x%02x" % k)): "U+%04X" % v for k, v in sorted(named.items())}
    rep.extra["hex_lengths"] = {"\\" + chr(k): v for k, v in sorted(hexlen.items())}
    # "one line break becomes a space, n+1 consecutive breaks become n newlines": a break of the input is one break whatever its spelling -
    # the plain and quoted scalar scanners consume breaks only through the helpers that take CR LF as a whole
    from . import C05 as _C05
    _C05.breaks_are_single_line_feeds(rep, F, roots=[SCANNER + "::scan_plain_scalar", SCANNER + "::scan_flow_scalar"], what="a plain or quoted scalar", floor=4)
    # the character classes the scalar scanners cut text with
    from . import charclass
    rep.floor("character classes compared with their productions", charclass.check(rep, F, ["is_z", "is_break", "is_breakz", "is_blank", "is_blank_or_breakz", "is_flow", "is_hex"]), 6)
    return rep
