//! C18: "for every text that starts with an ASCII character or a byte-order mark, decoding its UTF-8/UTF-16 encoding returns the same
//! documents as loading the text directly".  Given as a string, a leading U+FEFF becomes part of the first scalar; decoded from bytes it is stripped.
use saphyr::{LoadableYamlNode, Yaml, YamlDecoder};
fn main() {
    let text = "\u{feff}a: 1\n";
    println!("direct: {:?}", Yaml::load_from_str(text).map(|d| format!("{:?}", d)));
    println!("utf8 bytes: {:?}", YamlDecoder::read(text.as_bytes()).decode().map(|d| format!("{:?}", d)).map_err(|e| e.to_string()));
    let u16le: Vec<u8> = text.encode_utf16().flat_map(|u| u.to_le_bytes()).collect();
    println!("utf16le bytes: {:?}", YamlDecoder::read(&u16le[..]).decode().map(|d| format!("{:?}", d)).map_err(|e| e.to_string()));
    let nobom = "a: 1\n";
    println!("no bom direct: {:?}", Yaml::load_from_str(nobom).map(|d| format!("{:?}", d)));
}
