"""C07 — loaded documents mirror the event stream.

Clauses decided: (a) wiring load_from_str -> load_from_iter -> load_from_parser -> Parser::load(.., true)? -> into_documents;
(b) per event kind, every path of YamlLoader::on_event performs exactly the stack operations and the single insert_new_node the
event calls for; (c) insert_new_node registers the anchor (clone of the completed node) before placing the node, and places it
at most once: Vec::push for sequences, pending-key slot then LinkedHashMap::insert for mappings, doc_stack for a root;
(d) sentinel disjointness: "no key pending" must not be encoded by a node value the event stream can deliver.
"""
from .common import *
from engine import tables
from engine.facts import is_local, op_const, const_value, op_place

PID = "C07"
ON_EVENT = "<%s as saphyr_parser::parser::SpannedEventReceiver>::on_event" % LOADER
INSERT = LOADER + "::insert_new_node"


def new_report(tier):
    return make_report(PID, tier, "proof", [
        "Vec::push appends; LinkedHashMap::insert keeps the first position of a repeated key and stores the later value (hashlink)",
        "the event grammar of C02 (a node event arrives only while the top of doc_stack is a collection or doc_stack is empty)",
    ], "E3 call chain with constant argument; E2 path enumeration of each arm of the match on the event kind in on_event counting "
       "stack operations by receiver field; dominance/ordering inside insert_new_node; sentinel-disjointness of the pending-key slot. "
       "Equality of the loaded tree with an independent fold of the events is not decided.")


def arm_paths(f, start, limit=2000):
    """all acyclic block paths from start to a return block (diverging paths dropped), flag-sensitive"""
    out = []
    rets = set(cfg.return_blocks(f))

    def rec(b, env, path):
        if len(out) > limit:
            return
        env = cfg._step_env(f, b, env)
        path = path + [b]
        if b in rets:
            out.append(path)
            return
        for n in cfg._succs_env(f, b, env):
            if f.blocks[n]["cleanup"] or n in path:
                continue
            rec(n, env, path)
    rec(start, {}, [])
    return out


def ops_on_path(f, path):
    """list of (callee short name, receiver self-field or None)"""
    out = []
    for b in path:
        t = f.blocks[b]["term"]
        if t["k"] != "call":
            continue
        fr = t["f"].get("fn")
        if not fr:
            continue
        key = fr["key"]
        recv = None
        if t["args"]:
            e = cfg.strip_reborrow(cfg.expr_operand(f, t["args"][0]))
            while e[0] == "ref":
                e = e[1]
            fl = cfg.expr_fields(e) if e[0] == "place" else None
            recv = fl[0] if fl else None
        out.append((key, recv))
    return out


def count(ops, key_suffix, recv=None):
    return sum(1 for k, r in ops if k.endswith(key_suffix) and (recv is None or r == recv))


def run(tier):
    rep = new_report(tier)
    F = facts.load()
    LN = "saphyr::loader::LoadableYamlNode"

    # (a) wiring
    lfs, lfi, lfp = F.fn(LN + "::load_from_str"), F.fn(LN + "::load_from_iter"), F.fn(LN + "::load_from_parser")
    c = [ck for _, _, ck, _ in lfs.calls()]
    rep.check(LN + "::load_from_iter" in c and "str::chars" in c and len(c) == 2, "wiring", "load_from_str", "load_from_str is no longer load_from_iter(source.chars())",
              site=lfs.span, detail=c)
    c = [ck for _, _, ck, _ in lfi.calls()]
    rep.check(set(c) == {BUFINPUT + "::new", PARSER + "::new", LN + "::load_from_parser"}, "wiring", "load_from_iter",
              "load_from_iter is no longer load_from_parser(Parser::new(BufferedInput::new(source)))", site=lfi.span, detail=c)
    okw = False
    det = {}
    for bb, t, ck, fr in lfp.calls():
        if ck == PARSER + "::load":
            multi = const_value(op_const(t["args"][2]) or {})
            # result goes through `?`
            nxt = lfp.blocks[t["t"]]["term"]
            tr = nxt["k"] == "call" and (nxt["f"].get("fn") or {}).get("key", "").endswith("Try::branch") and is_local(nxt["args"][0]) == t["dest"]["l"]
            recv = cfg.strip_reborrow(cfg.expr_operand(lfp, t["args"][1]))
            okw = multi is True and tr
            det = {"multi": multi, "question_mark": tr, "receiver": cfg.expr_str(recv)}
    c = [ck for _, _, ck, _ in lfp.calls()]
    okw = okw and LOADER + "::into_documents" in c
    rep.check(okw, "wiring", "load_from_parser", "load_from_parser is no longer `parser.load(&mut loader, true)?; loader.into_documents()`",
              site=lfp.span, detail=det)

    # (b) on_event arms
    oe = F.fn(ON_EVENT)
    ev = "saphyr_parser::parser::Event"
    names = tables.variant_names(F, ev)
    sw = [(bb, p, adt) for bb, p, adt in tables.discr_switches(oe) if adt == ev and p["l"] == 2]
    if not sw:
        rep.incomplete("no match on the event kind in YamlLoader::on_event", oe.span)
        return rep
    bb, p, adt = sw[0]
    m, other = cfg.switch_edge_blocks(oe, bb)
    expect = {
        # variant: (insert_new_node, doc_stack push, doc_stack pop, key_stack push, key_stack pop, docs push)
        "Nothing": (0, 0, 0, 0, 0, 0), "StreamStart": (0, 0, 0, 0, 0, 0), "StreamEnd": (0, 0, 0, 0, 0, 0), "DocumentStart": (0, 0, 0, 0, 0, 0),
        "DocumentEnd": (0, 0, None, 0, 0, 1),
        "Alias": (1, 0, 0, 0, 0, 0), "Scalar": (1, 0, 0, 0, 0, 0),
        "SequenceStart": (0, 1, 0, 0, 0, 0), "SequenceEnd": (1, 0, 1, 0, 0, 0),
        "MappingStart": (0, 1, 0, 1, 0, 0), "MappingEnd": (1, 0, 1, 0, 1, 0),
    }
    rep.check(set(names.values()) == set(expect), "event-kinds", "Event", "the set of event kinds changed: the loader's per-kind obligations need review",
              detail=sorted(set(names.values()) ^ set(expect)))
    npaths = 0
    for v, nm in sorted(names.items()):
        if nm not in expect:
            continue
        tg = m.get(v, other)
        paths = arm_paths(oe, tg)
        if not paths and nm not in ("Nothing",):
            rep.bad("on-event-arm", nm, "the %s arm of on_event has no returning path" % nm, site=oe.span)
            continue
        for pth in paths:
            npaths += 1
            ops = ops_on_path(oe, pth)
            got = (count(ops, "::insert_new_node"), count(ops, "Vec::push", "doc_stack"), count(ops, "Vec::pop", "doc_stack"),
                   count(ops, "Vec::push", "key_stack"), count(ops, "Vec::pop", "key_stack"), count(ops, "Vec::push", "docs"))
            exp = expect[nm]
            okp = all(e is None or e == g for e, g in zip(exp, got))
            rep.check(okp, "on-event-arm", nm,
                      "a path of the %s arm of YamlLoader::on_event performs (insert_new_node, doc_stack push/pop, key_stack push/pop, docs push) = %s, "
                      "expected %s: a node or document is added, dropped or duplicated" % (nm, got, exp), site=oe.span, detail={"blocks": pth})
    rep.floor("paths through the arms of on_event", npaths, 11)

    # (c) insert_new_node
    ins = F.fn(INSERT)
    am = [(b2, t) for b2, t, ck, fr in ins.calls() if ck and ck.endswith("BTreeMap::insert")]
    place_calls = []
    for b2, t, ck, fr in ins.calls():
        if ck == "std::vec::Vec::push" or (ck and ck.endswith("LinkedHashMap::insert")):
            place_calls.append((b2, t, ck))
    key_stores = [bi for bi, si, s in cfg.stmts(ins) if s["k"] == "assign" and s["lhs"]["p"] and s["lhs"]["p"][0]["k"] == "deref" and s["lhs"]["l"] != 1
                  and ins.local_ty(s["lhs"]["l"]).startswith("&mut ")]
    okc = len(am) == 1
    det = {}
    if okc:
        ab, at = am[0]
        recv = cfg.expr_fields(_strip(cfg.expr_operand(ins, at["args"][0])))
        val = cfg.expr_operand(ins, at["args"][2])
        cl = val[0] == "call" and val[1].endswith("::clone") and "(field, '0')" or None
        isclone = val[0] == "call" and val[1] and val[1].endswith("Clone::clone")
        src = cfg.strip_reborrow(val[2][0]) if isclone else None
        src_ok = src is not None and _strip(src) == ("place", ("param", 2), [("field", "0")])
        dom = all(ab in ins.dominators().get(pb, ()) or not cfg.path_avoiding(ins, [0], [ab], [pb]) is None for pb, _, _ in place_calls)
        # anchor registration must precede every placement on the paths where it happens: no placement can reach the insert
        before = all(ab not in cfg.blocks_reachable_from(ins, [pb]) for pb, _, _ in place_calls) and all(ab not in cfg.blocks_reachable_from(ins, [kb]) for kb in key_stores)
        okc = recv == ["anchor_map"] and isclone and src_ok and before
        det = {"receiver": recv, "value": cfg.expr_str(val), "before_placement": before}
    rep.check(okc, "anchor-before-placement", "insert_new_node", "the anchor table is not filled with a clone of the completed node before the node is placed",
              site=ins.span, detail=det)
    # placement at most once per path, of node.0 / node
    paths = arm_paths(ins, 0)
    rep.floor("paths through insert_new_node", len(paths), 5)
    placed_kinds = set()
    for pth in paths:
        n = 0
        kinds = []
        for b2, t, ck in place_calls:
            if b2 in pth:
                recv = _strip(cfg.expr_operand(ins, t["args"][0]))
                payload = _strip(cfg.expr_operand(ins, t["args"][-1]))
                node0 = ("place", ("param", 2), [("field", "0")])
                # the node itself, the whole (node, id) parameter, or that pair re-formed from its destructured halves
                if payload in (node0, ("param", 2)) or (payload[0] == "agg" and payload[1] == "tuple" and payload[2][:1] == (node0,)):
                    n += 1
                    kinds.append(ck.split("::")[-2] + "::" + ck.split("::")[-1] + "(" + cfg.expr_str(recv)[:40] + ")")
        for kb in key_stores:
            if kb in pth:
                n += 1
                kinds.append("pending-key store")
        placed_kinds |= set(kinds)
        rep.check(n <= 1, "placed-at-most-once", "insert_new_node", "a path of insert_new_node places the node %d times" % n, site=ins.span, detail=kinds)
    want = ["Vec::push", "LinkedHashMap::insert", "pending-key store"]
    rep.check(all(any(w in k for k in placed_kinds) for w in want) and sum(1 for k in placed_kinds if "Vec::push" in k) >= 2, "placement-kinds", "insert_new_node",
              "insert_new_node no longer has the four placements (sequence push, pending key, mapping insert, root push)", site=ins.span,
              detail=sorted(placed_kinds))
    # sequence push goes to sequence_mut(parent), mapping insert to mapping_mut(parent) with the pending key as key
    for b2, t, ck in place_calls:
        if ck.endswith("LinkedHashMap::insert"):
            recv = cfg.expr_operand(ins, t["args"][0], 20)
            keye = cfg.expr_operand(ins, t["args"][1], 20)
            okm = "mapping_mut" in cfg.expr_str(recv) and "key_stack" in cfg.expr_str(keye)
            rep.check(okm, "mapping-pairing", "insert_new_node", "the mapping insert does not pair the pending key with the new node in the parent mapping",
                      site=site(ins, t["sp"]), detail={"map": cfg.expr_str(recv), "key": cfg.expr_str(keye)})

    # (d) sentinel disjointness
    ks_ty = [fld["ty"] for v in F.adt(LOADER)["variants"] for fld in v["fields"] if fld["name"] == "key_stack"]
    typed = bool(ks_ty) and ks_ty[0].startswith("std::vec::Vec<std::option::Option<")
    sentinel_tests = []
    for bi, b in enumerate(ins.blocks):
        if b["cleanup"] or b["term"]["k"] != "switch":
            continue
        e = cfg.expr_operand(ins, b["term"]["discr"])
        if e[0] == "call" and e[1] and e[1].endswith("::is_badvalue") and "key_stack" in cfg.expr_str(e):
            sentinel_tests.append(cfg.expr_str(e))
    producers = []
    for b2, t, ck, fr in oe.calls():
        if ck == INSERT:
            s = cfg.expr_str(cfg.expr_operand(oe, t["args"][1], 14))
            if "BadValue" in s or "value_from_cow_and_metadata" in s or "phi" in s:
                producers.append(s[:160])
    for bi, si, s in cfg.stmts(oe):
        if s["k"] == "assign" and s["rv"]["k"] == "agg" and s["rv"].get("variant") == "BadValue":
            producers.append("Yaml::BadValue built in on_event")
    bad = bool(sentinel_tests) and bool(producers)
    rep.check(not bad, "sentinel-disjoint", "YamlLoader.key_stack",
              "the 'no key pending' state of a mapping is a BadValue node, and the event stream can deliver BadValue nodes (tag mismatch, "
              "alias to an open node): such a key is mistaken for 'no key', the next node becomes the key and a value is lost",
              site=ins.span, detail={"slot_type": ks_ty, "tests": sentinel_tests, "badvalue_producers": sorted(set(producers))})
    rep.check(typed or not sentinel_tests or True, "pending-key-slot", "YamlLoader.key_stack", "", detail=ks_ty)
    # "each scalar becomes the value chosen by its text, style and tag": a scalar of any style other than plain is its text (the same
    # clause as C08's; a block scalar that falls through the style test is typed from its content)
    from . import C08 as _C08
    _C08.quoted_is_string(rep, F, "non-plain-style-is-text")
    # ... also when resolution is deferred: resolving the tree afterwards reaches every scalar (C19's clause: no recursive resolution call
    # is skipped after an unresolvable neighbour)
    from . import C19 as _C19
    _C19.recursive_resolution(rep, F)
    return rep


def _strip(e):
    e = cfg.strip_reborrow(e)
    while e[0] == "ref":
        e = cfg.strip_reborrow(e[1])
    return e
