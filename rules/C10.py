"""C10 — all input back-ends behave identically.

Clauses decided (the back-end independent half of the scanner's contract, and sibling parity where it is a finite table):
 (i)   the scanner touches its input only through `trait Input` (the `input` field is only ever the receiver of a trait call);
 (ii)  for every capacity of the quantifier (8, 16, 64, 128 and the capacities the in-repo inputs advertise) the look-ahead
       discipline of C01(a) holds, so no back-end is ever asked for a character it was not told to make available;
 (iii) StrInput's overrides of the nine single-character predicates agree with the provided bodies on the complete finite domain
       {end of input} u {first byte 0x00..0xFF}: both are folded from their MIR and compared, and the character predicates involved are
       ASCII-only (false on every byte >= 0x80 and on the non-ASCII samples, all their constants < 0x80), which extends the agreement
       to every non-ASCII first character;
 (iv)  byte-level overrides count in characters: every character predicate applied to a `u8 as char` value in str.rs is false on
       0x80..=0xFF and every strip_prefix pattern is ASCII, so byte counts over the consumed class equal character counts;
 (v)   no override needs more than the default: its panic-capable constructs are discharged by its own length tests (or reviewed).
Extensional equality of the remaining byte-level fast paths (next_is_document_*, next_can_be_plain_scalar, the bulk skips) with
their char-level defaults is a program-equivalence question and is not decided.
"""
from .common import *
import itertools
from engine import fold, panics, tables, e1
from engine.facts import is_local, op_const, const_value, op_place
from . import C01

PID = "C10"
STR = "<%s as %s>::" % (STRINPUT, INPUT)
SINGLE = ["next_is_blank_or_break", "next_is_blank_or_breakz", "next_is_blank", "next_is_break", "next_is_breakz", "next_is_z", "next_is_flow",
          "next_is_digit", "next_is_alpha"]


def new_report(tier):
    return make_report(PID, tier, "proof", [
        "a back-end that honours the Input contract returns the same characters for the same requests; the scanner can only tell back-ends "
        "apart through characters it did not request or through buflen/buf_is_empty/bufmaxlen",
        "StrInput.buffer is the not-yet-consumed suffix of the input; peek() is its first character or NUL at the end (checked: unwrap_or('\\\\0'))",
    ], "E6 use inventory of Scanner.input; E1 per capacity; exhaustive comparison of finite tables folded from the MIR of the override and of the "
       "provided body of each single-character predicate; constant/ASCII checks of the character predicates; panic-site discharge per override.")


def skip_ws_to_eol_agreement(rep, F, tier, rule="override-agreement"):
    """StrInput::skip_ws_to_eol against the provided body, both folded on every short text over {SP, TAB, #, a, LF, CR, e-acute}"""
    STR = "<%s as %s>::" % (STRINPUT, INPUT)
    # (iii+) skip_ws_to_eol: both bodies folded on every text of up to 3 (quick) / 5 (thorough) characters over {SP, TAB, #, a, LF, CR, e-acute}
    # for both tab modes: same count, same result (tabs seen / whitespace seen / the error), same remaining input
    SK = "saphyr_parser::input::SkipTabs"
    ovw, dfw = F.fns.get(STR + "skip_ws_to_eol"), F.fns.get(INPUT + "::skip_ws_to_eol")
    if ovw is not None and dfw is not None:
        def _eqh(a):
            return int(a[0][3] == a[1][3] and a[0][4] == a[1][4])

        def _sfc(a):
            sx = a[0][1]
            return ("some", ("tuple", ord(sx[0]), ("str", sx[1:]))) if sx else ("none",)
        def _res(r):
            try:
                res = r[2]
                if res[2] == "Ok":
                    return "(%d, tabs=%s ws=%s)" % (r[1], res[4][0][4][0], res[4][0][4][1])
                return "(%d, error)" % r[1]
            except Exception:
                return str(r)[:80]
        EQ = {"<%s as std::cmp::PartialEq<input::SkipTabs>>::eq" % SK: _eqh, "std::cmp::PartialEq::eq": _eqh, "std::cmp::PartialEq::ne": lambda a: 1 - _eqh(a)}
        mism, ncase = [], 0
        maxlen = 3 if tier == "quick" else 5
        try:
            for n_ in range(0, maxlen + 1):
                for tt_ in itertools.product(" \t#a\n\r\u00e9", repeat=n_):
                    text = "".join(tt_)
                    for vi, vn in ((0, "Yes"), (1, "No")):
                        ncase += 1
                        model = ("struct", {"buffer": ("str", text)})
                        h1 = dict(EQ)
                        h1["saphyr_parser::input::str::split_first_char"] = _sfc
                        r1 = fold.Folder(F, h1).call(ovw.key, [("ref", model), ("adt", SK, vn, vi, ())])
                        rest1 = model[1]["buffer"]
                        while isinstance(rest1, tuple) and rest1[0] == "ref":
                            rest1 = rest1[1]
                        rest1 = rest1[1]
                        pos = {"i": 0}
                        at = lambda k_, text=text, pos=pos: ord(text[pos["i"] + k_]) if pos["i"] + k_ < len(text) else 0

                        def _skip(a, pos=pos):
                            pos["i"] += 1
                            return ("zst",)
                        h2 = dict(EQ)
                        h2.update({INPUT + "::look_ch": lambda a, at=at: at(0), INPUT + "::peek": lambda a, at=at: at(0), INPUT + "::skip": _skip})
                        r2 = fold.Folder(F, h2).call(dfw.key, [("ref", ("struct", {})), ("adt", SK, vn, vi, ())])
                        rest2 = text[pos["i"]:]
                        if r1 != r2 or rest1 != rest2:
                            mism.append("%r (tabs: %s): override %s / %r, provided body %s / %r" % (text, vn, _res(r1), rest1, _res(r2), rest2))
            rep.check(not mism, rule, "skip_ws_to_eol", "StrInput::skip_ws_to_eol disagrees with the provided body (count, result or remaining input) for: %s"
                      % ", ".join(mism[:5]), site=ovw.span, detail={"cases": ncase, "disagreements": len(mism)})
            rep.extra.setdefault("multi_char_agreement", {})["skip_ws_to_eol"] = ncase
        except (fold.Unsupported, fold.Diverged) as ex:
            rep.incomplete("cannot fold skip_ws_to_eol: %s" % ex, ovw.span)


def run(tier):
    rep = new_report(tier)
    F = facts.load()
    # (i) only trait calls on the input
    n_use = 0
    for k, f in sorted(F.fns.items()):
        if f.d.get("impl_adt") != SCANNER and not (f.kind == "Closure" and SCANNER in (f.d.get("closure_of") or "")):
            continue
        if f.d.get("derived"):
            continue
        for bi, si, s in cfg.stmts(f):
            if s["k"] != "assign":
                continue
            rv = s["rv"]
            touched = [p for p in cfg.rv_places(rv) if cfg.touches_field(p, SCANNER, "input")]
            if cfg.touches_field(s["lhs"], SCANNER, "input"):
                touched.append(s["lhs"])
            for p in touched:
                n_use += 1
                ok = False
                if rv["k"] == "ref" and not s["lhs"]["p"] and cfg.place_fields(p) == ["input"]:
                    u = cfg.borrow_use(f, s["lhs"]["l"])
                    if u is not None and u["arg"] == 0:
                        t = f.blocks[u["bb"]]["term"]
                        fr = t["f"].get("fn")
                        ok = bool(fr and fr.get("trait") == INPUT)
                    if not ok and u is not None:
                        pass
                    if not ok:
                        # captured by a closure that only uses it as the receiver of trait calls
                        for bi2, si2, s2 in cfg.stmts(f):
                            if s2["k"] == "assign" and s2["rv"]["k"] == "agg" and s2["rv"].get("agg") == "closure":
                                if any(cfg.resolve_copy_chain(f, is_local(o)) == s["lhs"]["l"] for o in s2["rv"]["ops"] if is_local(o) is not None):
                                    c = F.fns.get(s2["rv"]["def"])
                                    if c is not None and _closure_uses_input_only_through_trait(c):
                                        ok = True
                if f.name == "new" and rv["k"] == "agg":
                    ok = True
                rep.check(ok, "input-only-through-trait", short(k), "the scanner uses its input other than as the receiver of an Input trait method", site=site(f, s["sp"]))
    rep.floor("uses of Scanner.input", n_use, 100)
    # (ii) E1 per capacity of the quantifier
    caps = [8, 16, 64, 128] if tier == "quick" else [8, 9, 15, 16, 17, 64, 128, 1024]
    rep.extra["capacities"] = caps
    for B in caps:
        E = C01.run_e1(F, B)
        bad = [(k, v) for k, v in E.sites.items() if v["bad"]]
        for lg in E.lemma_log:
            rep.check(lg["ok"], "relational-lemma", "%s@B=%d" % (lg["lemma"], B), "a premise of the relational lemma no longer holds", detail=lg.get("premises"))
        for (fk, bb), s in sorted(E.sites.items()):
            f = F.fns[fk]
            if s["bad"]:
                b = s["bad"][0]
                rep.bad("request-before-use", "%s:%s@B=%d" % (short(fk), s["prim"], B),
                        "%s: a buffered back-end panics or returns padding here while the string back-end returns text" % b["what"],
                        site=site(f, f.blocks[bb]["term"]["sp"]), detail={"call_chain": b["call_chain"]})
            else:
                rep.ok("request-before-use", "%s:%s@B=%d" % (short(fk), s["prim"], B))
    # StrInput::peek is first char or NUL
    pk = F.fn(STR + "peek")
    e = cfg.expr_str(cfg.expr_local(pk, 0, 10))
    rep.check("unwrap_or" in e and "Chars" in e or ("unwrap_or" in e and "chars" in e), "strinput-peek", "StrInput::peek", "StrInput::peek is no longer `first char or NUL`", site=pk.span, detail=e)

    # (iii) single-character predicates: override vs provided body on the complete finite domain
    preds_used = set()
    for nm in SINGLE:
        ov = F.fns.get(STR + nm)
        df = F.fns.get(INPUT + "::" + nm)
        if ov is None or df is None:
            rep.ok("override-agreement", nm, "no override" if ov is None else "no default")
            continue
        for g in (ov, df):
            for bb, t, ck, fr in g.calls():
                if ck and ck.startswith("saphyr_parser::char_traits::"):
                    preds_used.add(ck)
        mism = []
        try:
            for case in [None] + list(range(256)):
                # override: buffer empty / first byte = case
                buf = b"" if case is None else bytes([case])
                model = ("struct", {"buffer": ("strbuf", buf)})
                hooks_o = {
                    "str::is_empty": lambda a: int(len(a[0][1]) == 0),
                    "str::len": lambda a: len(a[0][1]),
                    "str::as_bytes": lambda a: ("bytes", tuple(a[0][1])),
                }
                fo = fold.Folder(F, hooks_o)
                got = fo.call(ov.key, [("ref", model)])
                # provided body: peek() yields NUL at the end, the ASCII char itself, or (for a non-ASCII first byte) some non-ASCII char:
                # the predicates are checked to be false on all of those, represented here by U+00E9
                ch = 0 if case is None else (case if case < 128 else 0xE9)
                fd = fold.Folder(F, {INPUT + "::peek": lambda a, ch=ch: ch})
                want = fd.call(df.key, [("ref", ("struct", {}))])
                if got != want:
                    mism.append("end of input" if case is None else "first byte 0x%02x" % case)
        except (fold.Unsupported, fold.Diverged) as ex:
            rep.incomplete("cannot fold %s: %s" % (nm, ex), ov.span)
            continue
        rep.check(not mism, "override-agreement", nm, "StrInput::%s disagrees with the provided body for: %s" % (nm, ", ".join(mism[:6])), site=ov.span,
                  detail={"cases": 257, "disagreements": len(mism)})
    rep.floor("character predicates used by the single-character tests", len(preds_used), 5)
    skip_ws_to_eol_agreement(rep, F, tier)
    # (iii-arm) the two arms of the block-scalar content reader (how much is buffered differs between back-ends): same stop class, same text
    from . import armconfluence
    rep.floor("implementations of raw_read_non_breakz_ch", armconfluence.raw_read_contract(rep, F), 2)
    rep.floor("arms of scan_block_scalar_content_line", armconfluence.arms(rep, F), 2)
    # (iii'') the bulk operations: one round of the override's loop and of the provided body's loop, tabulated over the unit at the cursor
    from . import bulkops
    rep.floor("bulk operations compared", bulkops.check(rep, F), 3)
    rep.floor("bulk operations whose returned count is classified", bulkops.count_unit(rep, F), 2)
    # the back-ends are given the characters as they are: a constructor stores its source argument itself (no trimming, no byte order
    # mark dropped, no normalisation) - whatever is done to the text before the Input methods see it is done by one back-end only
    ncon = 0
    for adt_key in (STRINPUT, BUFINPUT):
        adt = F.adts.get(adt_key)
        if adt is None:
            continue
        for k, f in sorted(F.fns.items()):
            if f.d.get("impl_adt") != adt_key or f.d.get("impl_trait") or "::{closure" in k:
                continue
            for bi, si, st in cfg.stmts(f):
                if st["k"] == "assign" and st["rv"]["k"] == "agg" and st["rv"].get("adt") == adt_key:
                    ncon += 1
                    src = cfg.expr_operand(f, st["rv"]["ops"][0], 8)
                    rep.check(src[0] == "param", "back-end-keeps-its-source", short(k), "%s builds the back-end from %s instead of its source argument as given: the "
                              "characters this back-end delivers differ from what the others deliver for the same text" % (short(k), cfg.expr_str(src)[:120]),
                              site=site(f, st["sp"]))
    rep.floor("constructions of the input back-ends", ncon, 2)
    # (iii') multi-character tests (document markers, "can a plain scalar go on here"): override vs provided body on every text of up to
    # four characters over the characters either body distinguishes (plus a letter and a two-byte character), by constant folding
    LETTERS = [0x2D, 0x2E, 0x20, 0x09, 0x0A, 0x0D, 0x3A, 0x2C, 0x5B, 0x7D, 0x61, 0xE9]
    MULTI = {"next_is_document_indicator": (4, [()]), "next_is_document_start": (4, [()]), "next_is_document_end": (4, [()]),
             "next_can_be_plain_scalar": (2, [(0,), (1,)])}
    blankz = set(fold.predicate_table(F, "saphyr_parser::char_traits::is_blank_or_breakz"))
    for nm, (width, extra_args) in MULTI.items():
        ov = F.fns.get(STR + nm)
        df = F.fns.get(INPUT + "::" + nm)
        if ov is None or df is None:
            rep.ok("override-agreement", nm, "no override" if ov is None else "no default")
            continue
        alpha = LETTERS if width <= 2 else [0x2D, 0x2E, 0x20, 0x0A, 0x0D, 0x61, 0xE9]
        mism, ncase = [], 0
        try:
            for n in range(0, width + 1):
                for text in itertools.product(alpha, repeat=n):
                    if nm == "next_can_be_plain_scalar" and (n == 0 or text[0] in blankz):
                        continue      # precondition of both bodies (C01 plain-scalar-precondition): the cursor is on a content character
                    raw = "".join(map(chr, text)).encode("utf-8")
                    for xa in extra_args:
                        ncase += 1
                        model = ("struct", {"buffer": ("strbuf", raw)})
                        hooks_o = {
                            "str::is_empty": lambda a: int(len(a[0][1]) == 0),
                            "str::len": lambda a: len(a[0][1]),
                            "str::as_bytes": lambda a: ("bytes", tuple(a[0][1])),
                        }
                        got = fold.Folder(F, hooks_o).call(ov.key, [("ref", model)] + list(xa))
                        at = lambda k, text=text: text[k] if k < len(text) else 0
                        hooks_d = {
                            INPUT + "::peek": lambda a, at=at: at(0),
                            INPUT + "::peek_nth": lambda a, at=at: at(a[1]),
                            INPUT + "::buflen": lambda a: 4,
                            INPUT + "::next_char_is": lambda a, at=at: int(at(0) == a[1]),
                            INPUT + "::nth_char_is": lambda a, at=at: int(at(a[1]) == a[2]),
                            INPUT + "::next_2_are": lambda a, at=at: int((at(0), at(1)) == (a[1], a[2])),
                            INPUT + "::next_3_are": lambda a, at=at: int((at(0), at(1), at(2)) == (a[1], a[2], a[3])),
                        }
                        want = fold.Folder(F, hooks_d).call(df.key, [("ref", ("struct", {}))] + list(xa))
                        if got != want:
                            mism.append("%r%s: override %s, provided body %s" % ("".join(map(chr, text)), " (in flow)" if xa == (1,) else "", bool(got), bool(want)))
        except (fold.Unsupported, fold.Diverged) as ex:
            rep.incomplete("cannot fold %s: %s" % (nm, ex), ov.span)
            continue
        rep.check(not mism, "override-agreement", nm, "StrInput::%s disagrees with the provided body for: %s" % (nm, "; ".join(mism[:4])), site=ov.span,
                  detail={"cases": ncase, "disagreements": len(mism)})
        rep.extra.setdefault("multi_char_agreement", {})[nm] = ncase
    # the predicates involved are ASCII-only
    for pk_ in sorted(preds_used):
        tab = fold.predicate_table(F, pk_, alphabet=list(range(256)) + fold.ALPHABET)
        hi = sorted(c for c in tab if c >= 0x80)
        consts = _char_consts(F, pk_)
        rep.check(not hi and all(c < 0x80 for c in consts), "ascii-only-predicate", short(pk_),
                  "a character predicate used by a byte-level fast path accepts non-ASCII input: the lead/continuation bytes of a multi-byte "
                  "character would be classified differently by StrInput and by the provided body", site=F.fns[pk_].span,
                  detail={"true_on": ["U+%04X" % c for c in hi][:8], "constants": sorted(consts)})
    # (iv) byte-level counting in str.rs
    nby = 0
    for k, f in sorted(F.fns.items()):
        if f.d.get("impl_adt") != STRINPUT or f.d.get("impl_trait") != INPUT:
            continue
        for bb, t, ck, fr in f.calls():
            if ck and ck.startswith("saphyr_parser::char_traits::") and t["args"]:
                e = cfg.expr_operand(f, t["args"][0], 6)
                if e[0] == "cast" and e[1] == "char":
                    nby += 1
                    tab = fold.predicate_table(F, ck, alphabet=list(range(0x80, 0x100)))
                    rep.check(not tab, "byte-as-char", "%s->%s" % (short(k), ck.split("::")[-1]),
                              "a byte >= 0x80 cast to char satisfies this predicate: byte-level counting/skipping would split a multi-byte character", site=site(f, t["sp"]))
            if ck == "str::strip_prefix" and len(t["args"]) > 1:
                c = op_const(t["args"][1])
                v = const_value(c) if c else None
                s = chr(v[1]) if isinstance(v, tuple) else v
                if isinstance(s, str):
                    nby += 1
                    rep.check(all(ord(x) < 0x80 for x in s), "byte-as-char", "%s->strip_prefix(%r)" % (short(k), s),
                              "a non-ASCII prefix is counted by byte-length difference", site=site(f, t["sp"]))
    rep.floor("byte-level classification sites in str.rs", nby, 12)
    # (vi) the scanner's buffer-state dependent arms account positions identically: the raw-read arm of the block-scalar line reader
    # (taken only by back-ends whose buffer runs empty) advances the mark by the number of characters it read, like the buffered arm
    from . import C12
    sbl = F.fn(SCANNER + "::scan_block_scalar_content_line")
    probs = C12.balance(rep, F, sbl)
    rep.check(not probs, "raw-arm-position-accounting", "scan_block_scalar_content_line",
              "the raw-read arm (only taken by inputs whose buffer runs empty) does not advance the mark by the characters it consumed: positions differ between back-ends",
              site=sbl.span, detail=[p[0] for p in probs][:3])
    # (v) overrides need no more than their own guards
    table = panics.load_table(os.path.join(facts.VERIF, "tables", "panic_review_parse.json"))
    fns = sorted(k for k, f in F.fns.items() if f.d.get("impl_trait") == INPUT and f.d.get("impl_adt") == STRINPUT)
    total, disc, residual = panics.review(rep, "override-panic-free", F, fns, table, short)
    rep.extra["strinput_panic_sites"] = {"total": total, "mechanically_discharged": disc, "reviewed": sum(len(v) for v in residual.values())}
    # who may look at how much is buffered: a function whose result depends on buflen()/buf_is_empty() can differ between back-ends of
    # different capacity; the functions that do so today are the reviewed buffer-dependent sites (assertions of the provided look-ahead
    # tests, and the two scanner functions whose buffered and raw arms are checked by raw-arm-position-accounting)
    BUFFER_STATE_READERS = {
        INPUT + "::buf_is_empty": "definition (buflen() == 0)",
        "<" + STRINPUT + " as " + INPUT + ">::buf_is_empty": "override, constant",
        INPUT + "::next_2_are": "debug assertion on the look-ahead contract only",
        INPUT + "::next_3_are": "debug assertion on the look-ahead contract only",
        INPUT + "::next_is_document_end": "debug assertion on the look-ahead contract only",
        INPUT + "::next_is_document_indicator": "debug assertion on the look-ahead contract only",
        INPUT + "::next_is_document_start": "debug assertion on the look-ahead contract only",
        SCANNER + "::scan_block_scalar_content_line": "buffered arm then raw arm (raw-arm-position-accounting)",
        SCANNER + "::skip_block_scalar_indent": "large-indent arm (C01 reviewed loop, request-before-use)",
    }
    from . import C01 as _C01
    onpath = _C01.parse_path_functions(F)
    readers = {}
    for k, f in F.fns.items():
        if f.crate != "saphyr_parser" or "::test" in k or f.d.get("derived"):
            continue
        root = k
        while root in F.fns and F.fns[root].kind == "Closure":
            root = F.fns[root].d.get("closure_of")
        if root not in onpath and k not in onpath:
            continue
        for bb, t, ck, fr in f.calls():
            if fr and fr.get("trait") == INPUT and fr["name"] in ("buflen", "buf_is_empty"):
                readers.setdefault(root, []).append(fr["name"])
    for k, names in sorted(readers.items()):
        rep.check(k in BUFFER_STATE_READERS, "buffer-state-readers", short(k), "this function now asks how much is buffered (%s): its result can depend on the "
                  "back-end's buffer capacity and fill state, which is exactly what must not influence parsing" % ", ".join(sorted(set(names))), site=F.fns[k].span)
    # ... and where the reason is "assertion only", the value read may do nothing but decide between going on and panicking: every
    # buflen() of the function feeds exactly one test one of whose edges leads straight to a panic
    n_assert = 0
    for k, why in sorted(BUFFER_STATE_READERS.items()):
        if "assertion" not in why or k not in F.fns:
            continue
        f = F.fns[k]
        ncalls = sum(1 for bb, t, ck, fr in f.calls() if fr and fr.get("trait") == INPUT and fr["name"] in ("buflen", "buf_is_empty"))
        div = cfg.diverging_blocks(f)
        ntests, steering = 0, []
        for bi, b in enumerate(f.blocks):
            t = b["term"]
            if b["cleanup"] or t["k"] != "switch":
                continue
            e = cfg.expr_str(cfg.expr_operand(f, t["discr"], 8))
            if "Input::buflen" in e or "Input::buf_is_empty" in e:
                ntests += 1
                succ = list(t["targets"]) + [t["otherwise"]]
                if not any(x in div or (f.blocks[x]["term"]["k"] == "goto" and f.blocks[x]["term"]["t"] in div) for x in succ):
                    steering.append(bi)
        n_assert += 1
        rep.check(ncalls == ntests and not steering, "buffer-state-assert-only", short(k),
                  "the buffer fill state is read for more than an assertion here (%d reads, %d tests, %d of them with no panicking edge): the answer of this "
                  "look-ahead test then depends on how much the back-end happens to have buffered" % (ncalls, ntests, len(steering)), site=f.span)
    rep.floor("functions that read the buffer state", len(readers), 4)
    rep.floor("assert-only readers of the buffer state", n_assert, 3)
    return rep


def _closure_uses_input_only_through_trait(c):
    """every call in the closure that receives a captured reference as first argument is an Input trait call"""
    n = 0
    for bb, t, ck, fr in c.calls():
        if not t["args"]:
            continue
        e = cfg.expr_operand(c, t["args"][0], 6)
        s = cfg.expr_str(e)
        if "arg1" in s:
            if fr and fr.get("trait") == INPUT:
                n += 1
            elif fr and fr["key"].startswith(("std::ops::Deref", "std::clone::Clone")):
                continue
            else:
                return False
    return n > 0


def _char_consts(F, key, seen=None):
    """all char constants compared/switched in a predicate and the local predicates it calls (incl. promoted ranges and str patterns)"""
    seen = seen if seen is not None else set()
    if key in seen or key not in F.fns:
        return set()
    seen.add(key)
    f = F.fns[key]
    out = set()
    bodies = [f.d] + list(f.d.get("promoted", []))
    for body in bodies:
        for blk in body["blocks"]:
            for s in blk["stmts"]:
                if s["k"] == "assign":
                    for o in cfg.rv_operands(s["rv"]):
                        c = op_const(o)
                        if c is not None:
                            v = const_value(c)
                            if isinstance(v, tuple) and v[0] == "char":
                                out.add(v[1])
                            elif isinstance(v, str):
                                out |= {ord(x) for x in v}
            t = blk["term"]
            if t["k"] == "switch" and t.get("dty") == "char":
                out |= set(t["vals"])
            if t["k"] == "call":
                for a in t["args"]:
                    c = op_const(a)
                    if c is not None:
                        v = const_value(c)
                        if isinstance(v, tuple) and v[0] == "char":
                            out.add(v[1])
                        elif isinstance(v, str):
                            out |= {ord(x) for x in v}
                fr = t["f"].get("fn")
                if fr and fr["key"] in F.fns:
                    out |= _char_consts(F, fr["key"], seen)
    return out
