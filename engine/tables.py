"""E4: extraction of finite tables (variant maps, switch tables, constant sets) from MIR."""
from .facts import is_local, op_const, const_value, op_place
from . import cfg


def discr_switches(fn):
    """yields (bb, place_expr, adt_path) for every switch on `discriminant(place)`"""
    for bi, b in enumerate(fn.blocks):
        if b["cleanup"]:
            continue
        t = b["term"]
        if t["k"] != "switch":
            continue
        l = is_local(t["discr"])
        if l is None:
            continue
        ds = cfg.defs_of_local(fn, l)
        # the discriminant temp may be defined in several blocks (one per switch); take the def in this block
        for d in ds:
            if d[0] == "stmt" and d[1] == bi and d[3]["rv"]["k"] == "discr":
                yield bi, d[3]["rv"]["p"], d[3]["rv"]["adt"]


def variant_names(F, adt_path):
    a = F.adts.get(adt_path)
    if a is None:
        return None
    return {v["discr"]: v["name"] for v in a["variants"]}


def arm_walk(fn, start, stop_on_result=True, limit=400):
    """Blocks of one match arm: forward from `start` until `_0` has been assigned (or Return).
    Returns (blocks, aggregates, result_exprs, calls) where aggregates = list of rv dicts of ADT aggregates,
    result_exprs = rvalues/terms assigned to _0."""
    seen = set()
    st = [start]
    aggs = []
    results = []
    calls = []
    while st and len(seen) < limit:
        b = st.pop()
        if b in seen or fn.blocks[b]["cleanup"]:
            continue
        seen.add(b)
        done = False
        for s in fn.blocks[b]["stmts"]:
            if s["k"] != "assign":
                continue
            rv = s["rv"]
            if rv["k"] == "agg" and rv.get("agg") == "adt":
                aggs.append((b, s))
            if s["lhs"]["l"] == 0 and not s["lhs"]["p"]:
                results.append(("stmt", b, s))
                done = True
        t = fn.blocks[b]["term"]
        if t["k"] == "call":
            calls.append((b, t))
            if t["dest"]["l"] == 0 and not t["dest"]["p"]:
                results.append(("call", b, t))
                done = True
        if t["k"] == "return":
            continue
        if done and stop_on_result:
            continue
        st.extend(fn.succs(b))
    return seen, aggs, results, calls


def expr_leaves(e, out=None):
    """all place/param/const/call leaves of an expression tree"""
    out = out if out is not None else []
    k = e[0]
    if k in ("place",):
        if e[1][0] in ("param", "local", "phi"):
            out.append(e)
        else:
            expr_leaves(e[1], out)
        for x in e[2]:
            if isinstance(x, tuple) and x[0] == "index":
                expr_leaves(x[1], out)
    elif k in ("param", "local", "phi", "const", "fnitem", "unknown", "rv"):
        out.append(e)
    elif k == "ref":
        expr_leaves(e[1], out)
    elif k == "bin":
        expr_leaves(e[2], out)
        expr_leaves(e[3], out)
    elif k in ("un", "cast"):
        expr_leaves(e[2], out)
    elif k == "discr":
        expr_leaves(e[1], out)
    elif k == "call":
        for a in e[2]:
            expr_leaves(a, out)
    elif k == "adt":
        for a in e[3]:
            expr_leaves(a, out)
    elif k == "agg":
        for a in e[2]:
            expr_leaves(a, out)
    return out


def expr_calls(e, out=None):
    out = out if out is not None else []
    k = e[0]
    if k == "call":
        out.append(e[1])
        for a in e[2]:
            expr_calls(a, out)
    elif k == "ref":
        expr_calls(e[1], out)
    elif k == "bin":
        expr_calls(e[2], out)
        expr_calls(e[3], out)
    elif k in ("un", "cast"):
        expr_calls(e[2], out)
    elif k == "discr":
        expr_calls(e[1], out)
    elif k == "adt":
        for a in e[3]:
            expr_calls(a, out)
    elif k == "agg":
        for a in e[2]:
            expr_calls(a, out)
    elif k == "place":
        expr_calls(e[1], out)
    return out


def str_constants(fn, include_closures=None):
    """all &str constants appearing in a body: list of (string, bb)"""
    out = []
    for bi, b in enumerate(fn.blocks):
        if b["cleanup"]:
            continue
        ops = []
        for s in b["stmts"]:
            if s["k"] == "assign":
                ops.extend(cfg.rv_operands(s["rv"]))
        t = b["term"]
        if t["k"] == "call":
            ops.extend(t["args"])
        for o in ops:
            c = o.get("const")
            if c is not None and "str" in c:
                out.append((c["str"], bi))
    return out
