"""Percent-decoding of tag text (used by C16): the table of one round of scan_uri_escapes.

A tag suffix is reported percent-decoded (YAML 1.2.2 5.6 ns-uri-char / 6.9.1: escapes denote the bytes of the UTF-8 encoding).  The
function reads one %XX escape per round of its loop and carries two integers from round to round: how many escapes of the current
character are still to come, and the code point accumulated so far.  E8 enumerates the paths of one round with the escaped byte as
a symbol (its two hex digits are `as_hex(peek_nth(1))`, `as_hex(peek_nth(2))`) and folds the guards and the two carried values over
all 256 bytes:

  first escape of a character (nothing pending):
     00..7F  -> the character is that byte, decoding ends
     C0..DF  -> 1 more, payload byte & 1F;   E0..EF -> 2 more, payload byte & 0F;   F0..F7 -> 3 more, payload byte & 07
     80..BF, F8..FF -> error
  a following escape (n pending): 80..BF -> n-1 pending, code = (code << 6) | (byte & 3F);   anything else -> error
  when nothing is pending the code goes through char::from_u32 (None is an error: surrogates, values above 10FFFF).

If the function no longer has this shape (no carried code point handed to char::from_u32) but hands collected bytes to
std's from_utf8, the decoding is std's and the table is vacuous; any other shape is reported as not analysable.
"""
from .common import *
from engine import e7, e8
from engine.e8 import Unknown

FN = SCANNER + "::scan_uri_escapes"
AS_HEX = "saphyr_parser::char_traits::as_hex"
CODE_SAMPLES = (0, 1, 0x02, 0x07, 0x0F, 0x1F, 0x2A, 0x3FF, 0x7FF, 0xFFFF, 0x10FF)


class UriRec(e8.SymRec):
    def __init__(self, f):
        super().__init__(f)
        self.domains = {("byte",): range(256)}

    def _nib(self, v):
        if v[0] == "call" and v[1] == AS_HEX and len(v[2]) == 1:
            a = v[2][0]
            if a[0] == "call" and a[1] and a[1].endswith("Input::peek_nth") and a[2][1][0] == "const":
                return a[2][1][1]
        return None

    def leaf(self, v):
        return ("byte",) if self._nib(v) in (1, 2) else None

    def interp(self, v, env):
        k = self._nib(v)
        if k is None or ("byte",) not in env:
            return None
        return env[("byte",)] >> 4 if k == 1 else env[("byte",)] & 15

    def call_effect(self, bi, t, ck, st):
        f = self.f
        if ck == "std::char::from_u32":
            st["@code"] = e8.operand_value(f, t["args"][0], st)
            return "stop"
        if ck.endswith("ScanError::new_str") or ck.endswith("ScanError::new"):
            return ("op", ("err",))
        if ck == SCANNER + "::skip_n_non_blank":
            v = e8.operand_value(f, t["args"][1], st)
            return ("op", ("consume", v[1] if v[0] == "const" else "?"))
        if ck.startswith(SCANNER + "::skip") or ck.startswith(SCANNER + "::read"):
            return ("op", ("consume", "?"))
        return "transparent"


def check(rep, F, rule="percent-decoding"):
    f = F.fn(FN)
    # the carried locals: the operand of char::from_u32, and the integer compared with zero that decides whether the loop goes round
    fu = [(bb, t) for bb, t, ck, fr in f.calls() if ck == "std::char::from_u32"]
    if not fu:
        std = [ck for bb, t, ck, fr in f.calls() if ck.endswith("::from_utf8") or ck.endswith("::from_utf8_lossy")]
        if std:
            rep.extra["percent_decoding"] = {"delegated_to": std[0]}
            return 0
        raise facts.MissingAnchor("scan_uri_escapes: the decoded value no longer goes through char::from_u32 or from_utf8")
    loops = f.natural_loops()
    items = list(loops.items() if isinstance(loops, dict) else loops)
    if len(items) != 1:
        raise facts.MissingAnchor("scan_uri_escapes: expected one loop, found %d" % len(items))
    head = items[0][0]
    rec = UriRec(f)
    code_l = None
    e = cfg.expr_operand(f, fu[0][1]["args"][0], 6)
    if e[0] == "phi":
        code_l = e[1]
    if code_l is None:
        raise facts.MissingAnchor("scan_uri_escapes: the operand of char::from_u32 is not a value carried round the loop")
    # the pending counter: a loop-carried integer local, other than the code, written inside the loop
    body = items[0][1]
    carried = set()
    for bi, si, s in cfg.stmts(f):
        if bi in body and s["k"] == "assign" and not s["lhs"]["p"] and len(cfg.defs_of_local(f, s["lhs"]["l"])) > 1 \
                and f.locals[s["lhs"]["l"]].get("name"):
            carried.add(s["lhs"]["l"])
    pend = sorted(carried - {code_l})
    if len(pend) != 1:
        raise facts.MissingAnchor("scan_uri_escapes: expected one carried counter besides the code point, found %s" % [f.locals[l].get("name") for l in pend])
    W = pend[0]
    rec.domains[("in", W)] = range(0, 6)
    ps = e7.paths(f, head, rec)
    n = 0
    reported = set()

    def outcome(p, env):
        """('err',) | ('more', pending, code) | ('done', code)"""
        if any(o == ("err",) for o in p["ops"]):
            return ("err",)
        st = p["state"]
        try:
            if p["why"].startswith("call std::char::from_u32"):
                return ("done", e8.evaluate(st["@code"], env, rec.interp))
            if p["why"] == "back-edge":
                return ("more", e8.evaluate(st.get(W, ("in", W)), env, rec.interp), e8.evaluate(st.get(code_l, ("in", code_l)), env, rec.interp))
        except Unknown as ex:
            return ("unknown", str(ex))
        return ("other", p["why"])

    def wellformed(p):
        # paths on which the "%XX" shape test failed end in an error whatever the byte is; they are C06's business
        return ("byte",) in p["guards"] or not any(o == ("err",) for o in p["ops"])

    for w in range(0, 4):
        for b in range(256):
            bad = []
            for c in (CODE_SAMPLES if w else (0,)):
                env = {("byte",): b, ("in", W): w, ("in", code_l): c}
                ms = [p for p in e7.matching(ps, {("byte",): b, ("in", W): w}) if wellformed(p)]
                got = sorted({outcome(p, env) for p in ms}, key=str)
                if w == 0:
                    if b < 0x80:
                        want = ("done", b)
                    elif 0xC0 <= b < 0xE0:
                        want = ("more", 1, b & 0x1F)
                    elif 0xE0 <= b < 0xF0:
                        want = ("more", 2, b & 0x0F)
                    elif 0xF0 <= b < 0xF8:
                        want = ("more", 3, b & 0x07)
                    else:
                        want = ("err",)
                else:
                    if 0x80 <= b < 0xC0:
                        v = (c << 6) | (b & 0x3F)
                        want = ("more", w - 1, v) if w > 1 else ("done", v)
                    else:
                        want = ("err",)
                if got != [want]:
                    bad.append((c, want, got))
            n += 1
            cls = _class(w, b)
            if not bad:
                rep.ok(rule, cls)
            elif cls not in reported:
                reported.add(cls)
                c, want, got = bad[0]
                rep.bad(rule, cls, "percent-decoding of tag text: %s must give %s, the code gives %s (byte %02X%s)"
                        % (cls, _say(want), "; ".join(_say(g) for g in got) or "no path", b, ", code so far %X" % c if w else ""),
                        site=f.span, detail={"byte": b, "pending": w, "code_so_far": c})
    # every escape consumes exactly its three characters
    cons = {o for p in ps if not any(x == ("err",) for x in p["ops"]) for o in p["ops"] if o[0] == "consume"}
    rep.check(cons == {("consume", 3)}, rule, "consumes-three", "an accepted %%XX escape must consume exactly three characters; the paths consume %s" % sorted(cons, key=str),
              site=f.span)
    rep.extra["percent_decoding"] = {"paths": len(ps), "cases": n, "carried": [f.locals[W].get("name"), f.locals[code_l].get("name")]}
    return n


def _class(w, b):
    if w == 0:
        for lo, hi, nm in ((0, 0x80, "a single-byte escape %00..%7F"), (0x80, 0xC0, "a continuation byte %80..%BF with nothing pending"),
                           (0xC0, 0xE0, "a two-byte lead %C0..%DF"), (0xE0, 0xF0, "a three-byte lead %E0..%EF"),
                           (0xF0, 0xF8, "a four-byte lead %F0..%F7"), (0xF8, 0x100, "an invalid lead %F8..%FF")):
            if lo <= b < hi:
                return nm
    return "a continuation escape %80..%BF" + (" (last)" if w == 1 else "") if 0x80 <= b < 0xC0 else "a non-continuation byte while escapes are pending"


def _say(o):
    if o[0] == "done":
        return "the character U+%04X" % o[1]
    if o[0] == "more":
        return "%d more escape(s) with code %X" % (o[1], o[2])
    if o[0] == "err":
        return "an error"
    return "%s (%s)" % (o[0], o[1])
