"""The literal-block path of the emitter (multiline_strings), used by C09.

A string is written as a literal block scalar (`|` / `|-`, no indentation indicator, content lines = str::lines()) when
`multiline_strings` is on, the string contains a line feed and `is_valid_literal_block_scalar(string)` holds.  Three clauses, each a
necessary condition of the round trip:

 (a) literal-block-representable - the predicate is folded over every string of up to 4 characters over {a, SP, LF, TAB, -}: a string
     it accepts (and that contains LF) must be representable with those two headers: some line is not empty (a break needs a line to
     attach to), the first non-empty line does not start with a space (the content indentation is detected from it), the string
     does not end in two line feeds (clip keeps one).
 (b) literal-block-indented - one round of the content loop of emit_literal_block, tabulated (E8) over the nesting level at entry
     (-1 for a root scalar, see dump): between the line feed and the text of the line some indentation is written - write_indent
     at a level >= 1, or a constant blank.  A content line at column 0 can be read as a document marker (`...`, `---`) and a
     leading tab there is an error.
 (c) simple-key-not-a-block-scalar - emit_literal_block runs only under `self.multiline_strings`, and the simple-key branch of
     emit_mapping emits the key with that flag off.
"""
import itertools
from .common import *
from engine import e7, e8, fold
from engine.e8 import Unknown
from engine.facts import is_local, op_const, const_value

EMITTER = "saphyr::emitter::YamlEmitter"
PRED = "saphyr::char_traits::is_valid_literal_block_scalar"


def representable(rep, F, rule="literal-block-representable"):
    f = F.fns.get(PRED)
    if f is None:
        raise facts.MissingAnchor("is_valid_literal_block_scalar not found")
    bad, n = {}, 0
    try:
        for k in range(0, 5):
            for t in itertools.product("a \n\t-", repeat=k):
                s = "".join(t)
                if "\n" not in s:
                    continue
                n += 1
                if not fold.Folder(F).call(PRED, [("ref", ("str", s))]):
                    continue
                lines = s.split("\n")
                first = next((l for l in lines if l != ""), None)
                why = None
                if first is None:
                    why = "no-content-line"
                elif first.startswith(" "):
                    why = "first-line-starts-with-a-space"
                elif s.endswith("\n\n"):
                    why = "ends-in-two-line-feeds"
                if why:
                    bad.setdefault(why, []).append(s)
    except (fold.Unsupported, fold.Diverged) as ex:
        rep.incomplete("cannot fold is_valid_literal_block_scalar: %s" % ex, f.span)
        return 0
    for why, what in (("no-content-line", "consists of line feeds only (there is no line to attach a final break to: it loads back as the empty string)"),
                      ("first-line-starts-with-a-space", "has a first non-empty line that starts with a space (the content indentation is detected from that line: the "
                                                         "space is lost or the block is rejected)"),
                      ("ends-in-two-line-feeds", "ends in two line feeds (`|` keeps one)")):
        ex_ = bad.get(why, [])
        rep.check(not ex_, rule, why, "a string that %s is accepted for the literal block style, e.g. %s" % (what, ", ".join(repr(x) for x in ex_[:3])), site=f.span,
                  detail={"accepted_but_not_representable": len(ex_), "strings_folded": n})
    return n


class LitRec(e8.SymRec):
    def __init__(self, f):
        super().__init__(f)
        self.domains = {("self", "level"): range(-1, 4)}

    def _level(self, v):
        return v[0] == "proj" and v[2] == "field" and v[3] == "level" and v[1][0] == "proj" and v[1][2] == "deref" and v[1][1] == ("in", 1)

    def leaf(self, v):
        return ("self", "level") if self._level(v) else None

    def interp(self, v, env):
        if self._level(v) and ("self", "level") in env:
            return env[("self", "level")]
        return None

    def call_effect(self, bi, t, ck, st):
        f = self.f
        if ck == EMITTER + "::write_indent":
            lv = st.get(("field", "level"), ("proj", ("proj", ("in", 1), "deref", None), "field", "level"))
            return ("op", ("indent", lv))
        if ck in ("std::fmt::Write::write_str", "std::fmt::Write::write_char", "std::fmt::Write::write_fmt"):
            a = t["args"][1]
            c = op_const(a)
            lit = None
            ev = cfg.expr_operand(f, a, 6)
            while ev[0] == "ref":
                ev = ev[1]
            if ev[0] == "place" and all(x == "deref" for x in ev[2]):
                ev = ev[1]
            if ev[0] == "const" and isinstance(ev[1], str):
                lit = ev[1]
            elif ev[0] == "const" and isinstance(ev[1], tuple) and ev[1][0] == "char":
                lit = chr(ev[1][1])
            if lit is None:
                l = is_local(a)
                if l is not None:
                    for bb2, t2, ck2, fr2 in f.calls():
                        if ck2 == "std::fmt::Arguments::from_str" and t2["dest"]["l"] == l:
                            c2 = op_const(t2["args"][0])
                            lit = c2.get("str") if c2 else None
            if lit is None:
                return ("op", ("text",))
            if lit.endswith("\n"):
                return ("op", ("nl",))
            if lit != "" and lit.strip(" ") == "":
                return ("op", ("blank",))
            return ("op", ("const", lit))
        return "transparent"


def indented(rep, F, rule="literal-block-indented"):
    f = F.fns.get(EMITTER + "::emit_literal_block")
    if f is None:
        raise facts.MissingAnchor("emit_literal_block not found")
    loops = f.natural_loops()
    if not loops:
        raise facts.MissingAnchor("emit_literal_block has no content loop")
    rec = LitRec(f)
    ps = e7.paths(f, 0, rec, limit=5000)          # from the entry: header, one round of the loop (cut at the back edge), or the exit
    n = 0
    for lvl in range(-1, 4):
        env = {("self", "level"): lvl}
        wrong = []
        for p in ps:
            if not e8.matches(p, env, rec.interp):
                continue
            ops = p["ops"]
            # every `text` write that follows a line feed on this path: what lies between them
            for i, o in enumerate(ops):
                if o[0] != "text":
                    continue
                j = i - 1
                got = False
                seen_nl = False
                while j >= 0:
                    if ops[j][0] == "nl":
                        seen_nl = True
                        break
                    if ops[j][0] == "blank":
                        got = True
                    if ops[j][0] == "indent":
                        try:
                            if e8.evaluate(ops[j][1], env, rec.interp) >= 1:
                                got = True
                        except Unknown:
                            pass
                    j -= 1
                if seen_nl:
                    n += 1
                    if not got:
                        wrong.append(p)
        rep.check(not wrong, rule, "entry level %d" % lvl, "with nesting level %d at entry (%s) a content line of a literal block is written at column 0: `...` / `---` there is "
                  "a document marker and a leading tab an error" % (lvl, "a root scalar" if lvl < 0 else "inside a collection"), site=f.span)
    return n


def every_line_written(rep, F, rule="literal-block-every-line-written"):
    """(b') one round of the content loop writes the line it was given: on every path from the loop head round to the back edge (E7) the
    text of the line is written after the line feed.  The only rounds that may write no text are those taken when `str::is_empty` of the
    line itself (the item of str::lines) is true - an empty line has no text; any other test (a trimmed line, a length limit) drops
    content: white-space-only lines are content of a literal block."""
    f = F.fns.get(EMITTER + "::emit_literal_block")
    if f is None:
        raise facts.MissingAnchor("emit_literal_block not found")
    rec = LitRec(f)
    ps = [p for p in e7.paths(f, 0, rec, limit=5000) if p["why"] == "back-edge"]
    if not ps:
        raise facts.MissingAnchor("emit_literal_block: no path goes round a content loop")

    def empty_line_test(bi):
        t = f.blocks[bi]["term"]
        e = cfg.expr_operand(f, t["discr"], 10)
        if not (e[0] == "call" and e[1] == "str::is_empty" and len(e[2]) == 1):
            return False
        a = e[2][0]
        while a[0] == "ref":
            a = a[1]
        return a[0] == "place" and a[1][0] == "call" and a[1][1].endswith("Lines as std::iter::Iterator>::next") and \
            [x for x in a[2] if x != "deref"] == [("downcast", "Some"), ("field", "0")]
    n = 0
    bad = []
    for p in ps:
        ops = p["ops"]
        if ("nl",) not in ops:
            continue
        n += 1
        last_nl = max(i for i, o in enumerate(ops) if o == ("nl",))
        if any(o[0] == "text" for o in ops[last_nl:]):
            continue
        justified = False
        for k, cons in p["guards"].items():
            if k[0] == "opaque" and isinstance(k[1], int) and empty_line_test(k[1]) and not cons.admits(0):
                justified = True
        if not justified:
            bad.append([o[0] for o in ops])
    rep.check(not bad, rule, "emit_literal_block", "a round of the content loop writes the line feed but not the text of the line, on a path not guarded by "
              "`line.is_empty()`: that line's characters (blanks are content inside a literal block) are lost; ops on the path: %s" % (bad[:1],), site=f.span)
    return n


class _FlagRec(e8.SymRec):
    """paths of an emitter function with the option as the only symbol; values of private enums built on the way are carried along (E8), so
    a decision taken early and dispatched on later (`let style = ...; match style { Literal => ... }`) is followed"""
    def __init__(self, f, target_bb):
        super().__init__(f)
        self.target_bb = target_bb
        self.domains = {("ms",): [0, 1]}

    def _ms(self, v):
        return v[0] == "proj" and v[2] == "field" and v[3] == "multiline_strings"

    def leaf(self, v):
        return ("ms",) if self._ms(v) else None

    def interp(self, v, env):
        if self._ms(v) and ("ms",) in env:
            return env[("ms",)]
        return None

    def call_effect(self, bi, t, ck, st):
        if bi == self.target_bb:
            return "stop"
        return "transparent"


def _reached_only_with_flag_on(f, call_bb):
    """every path from the entry of f to the call in call_bb has taken the true edge of a test of self.multiline_strings"""
    rec = _FlagRec(f, call_bb)
    try:
        ps = e7.paths(f, 0, rec, limit=60000)
    except RuntimeError:
        return False
    hits = [p for p in ps if p["why"].startswith("call ") and p.get("end") in (call_bb, None) and p["why"].endswith("emit_literal_block")]
    if not hits:
        return False
    for p in hits:
        c = p["guards"].get(("ms",))
        if c is None or c.admits(0):
            return False
    return True


def not_for_keys(rep, F, rule="simple-key-not-a-block-scalar"):
    n = 0
    # (i) emit_literal_block only under self.multiline_strings
    for k, f in sorted(F.fns.items()):
        if f.d.get("impl_adt") != EMITTER:
            continue
        for bb, t, ck, fr in f.calls():
            if ck != EMITTER + "::emit_literal_block":
                continue
            n += 1
            ok = False
            for d in f.dominators().get(bb, ()):
                tt = f.blocks[d]["term"]
                if tt["k"] == "switch" and cfg.self_field_of_switch(f, d) == ["multiline_strings"]:
                    m, other = cfg.switch_edge_blocks(f, d)
                    if other is not None and (bb == other or cfg.dominated_by_edge(f, bb, d, other)):
                        ok = True
            if not ok:
                ok = _reached_only_with_flag_on(f, bb)
            rep.check(ok, rule, "%s->emit_literal_block" % short(k), "a literal block is emitted without `self.multiline_strings` having been tested", site=site(f, t["sp"]))
    # (ii) the simple-key branch of emit_mapping emits the key with the flag off
    em = F.fns.get(EMITTER + "::emit_mapping")
    if em is None:
        raise facts.MissingAnchor("emit_mapping not found")
    keys = [(bb, t) for bb, t, ck, fr in em.calls() if ck == EMITTER + "::emit_node"]
    rep.floor("direct emit_node calls of emit_mapping (simple keys)", len(keys), 1)
    for bb, t in keys:
        offs = set()
        for b2, t2, ck2, fr2 in em.calls():
            if ck2 == "std::mem::replace" and len(t2["args"]) == 2:
                tgt = cfg.strip_reborrow(cfg.expr_operand(em, t2["args"][0], 6))
                c = op_const(t2["args"][1])
                if tgt[0] == "ref" and cfg.expr_fields(tgt[1]) == ["multiline_strings"] and c is not None and const_value(c) is False:
                    offs.add(b2)
        for w in cfg.field_writes(em, EMITTER, "multiline_strings"):
            if w["kind"] == "assign" and w["stmt"]["rv"]["k"] == "use":
                c = op_const(w["stmt"]["rv"]["a"])
                if c is not None and const_value(c) is False:
                    offs.add(w["bb"])
        writers = {w["bb"] for w in cfg.field_writes(em, EMITTER, "multiline_strings")} | {b2 for b2, t2, ck2, fr2 in em.calls() if ck2 == "std::mem::replace"}
        ok = False
        for o in offs:
            if o in em.dominators().get(bb, ()):
                between = cfg.blocks_reachable_from(em, [o], avoid=[bb]) - {o}
                if not any(wb in between and bb in cfg.blocks_reachable_from(em, [wb]) for wb in writers - {o}):
                    ok = True
        rep.check(ok, rule, "emit_mapping:key", "a mapping key that is a multi-line string is emitted through the literal-block path: a block scalar cannot be a "
                  "simple key (`|-` ... `: value` does not load back)", site=site(em, t["sp"]))
    return n
