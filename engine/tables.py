"""E4: extraction of finite tables (variant maps, switch tables, constant sets) from MIR."""
from .facts import is_local, op_const, const_value, op_place
from . import cfg


def discr_switches(fn):
    """yields (bb, place_expr, adt_path) for every switch on `discriminant(place)`"""
    for bi, b in enumerate(fn.blocks):
        if b["cleanup"]:
            continue
        t = b["term"]
        if t["k"] != "switch":
            continue
        l = is_local(t["discr"])
        if l is None:
            continue
        ds = cfg.defs_of_local(fn, l)
        # the discriminant temp may be defined in several blocks (one per switch); take the def in this block
        for d in ds:
            if d[0] == "stmt" and d[1] == bi and d[3]["rv"]["k"] == "discr":
                yield bi, d[3]["rv"]["p"], d[3]["rv"]["adt"]


def variant_names(F, adt_path):
    a = F.adts.get(adt_path)
    if a is None:
        return None
    return {v["discr"]: v["name"] for v in a["variants"]}


def arm_walk(fn, start, stop_on_result=True, limit=400):
    """Blocks of one match arm: forward from `start` until `_0` has been assigned (or Return).
    Returns (blocks, aggregates, result_exprs, calls) where aggregates = list of rv dicts of ADT aggregates,
    result_exprs = rvalues/terms assigned to _0."""
    seen = set()
    st = [start]
    aggs = []
    results = []
    calls = []
    while st and len(seen) < limit:
        b = st.pop()
        if b in seen or fn.blocks[b]["cleanup"]:
            continue
        seen.add(b)
        done = False
        for s in fn.blocks[b]["stmts"]:
            if s["k"] != "assign":
                continue
            rv = s["rv"]
            if rv["k"] == "agg" and rv.get("agg") == "adt":
                aggs.append((b, s))
            if s["lhs"]["l"] == 0 and not s["lhs"]["p"]:
                results.append(("stmt", b, s))
                done = True
        t = fn.blocks[b]["term"]
        if t["k"] == "call":
            calls.append((b, t))
            if t["dest"]["l"] == 0 and not t["dest"]["p"]:
                results.append(("call", b, t))
                done = True
        if t["k"] == "return":
            continue
        if done and stop_on_result:
            continue
        st.extend(fn.succs(b))
    return seen, aggs, results, calls


def expr_leaves(e, out=None):
    """all place/param/const/call leaves of an expression tree"""
    out = out if out is not None else []
    k = e[0]
    if k in ("place",):
        if e[1][0] in ("param", "local", "phi"):
            out.append(e)
        else:
            expr_leaves(e[1], out)
        for x in e[2]:
            if isinstance(x, tuple) and x[0] == "index":
                expr_leaves(x[1], out)
    elif k in ("param", "local", "phi", "const", "fnitem", "unknown", "rv"):
        out.append(e)
    elif k == "ref":
        expr_leaves(e[1], out)
    elif k == "bin":
        expr_leaves(e[2], out)
        expr_leaves(e[3], out)
    elif k in ("un", "cast"):
        expr_leaves(e[2], out)
    elif k == "discr":
        expr_leaves(e[1], out)
    elif k == "call":
        for a in e[2]:
            expr_leaves(a, out)
    elif k == "adt":
        for a in e[3]:
            expr_leaves(a, out)
    elif k == "agg":
        for a in e[2]:
            expr_leaves(a, out)
    return out


def expr_calls(e, out=None):
    out = out if out is not None else []
    k = e[0]
    if k == "call":
        out.append(e[1])
        for a in e[2]:
            expr_calls(a, out)
    elif k == "ref":
        expr_calls(e[1], out)
    elif k == "bin":
        expr_calls(e[2], out)
        expr_calls(e[3], out)
    elif k in ("un", "cast"):
        expr_calls(e[2], out)
    elif k == "discr":
        expr_calls(e[1], out)
    elif k == "adt":
        for a in e[3]:
            expr_calls(a, out)
    elif k == "agg":
        for a in e[2]:
            expr_calls(a, out)
    elif k == "place":
        expr_calls(e[1], out)
    return out


def str_constants(fn, include_closures=None):
    """all &str constants appearing in a body: list of (string, bb)"""
    out = []
    for bi, b in enumerate(fn.blocks):
        if b["cleanup"]:
            continue
        ops = []
        for s in b["stmts"]:
            if s["k"] == "assign":
                ops.extend(cfg.rv_operands(s["rv"]))
        t = b["term"]
        if t["k"] == "call":
            ops.extend(t["args"])
        for o in ops:
            c = o.get("const")
            if c is not None and "str" in c:
                out.append((c["str"], bi))
    return out


def find_calls(e, suffix, out=None):
    """all ('call', key, args, bb) subtrees whose callee key ends with suffix"""
    out = out if out is not None else []
    if not isinstance(e, tuple) or not e:
        return out
    k = e[0]
    if k == "call":
        if e[1] and e[1].endswith(suffix):
            out.append(e)
        for a in e[2]:
            find_calls(a, suffix, out)
    elif k == "ref":
        find_calls(e[1], suffix, out)
    elif k == "bin":
        find_calls(e[2], suffix, out)
        find_calls(e[3], suffix, out)
    elif k in ("un", "cast"):
        find_calls(e[2], suffix, out)
    elif k == "discr":
        find_calls(e[1], suffix, out)
    elif k == "adt":
        for a in e[3]:
            find_calls(a, suffix, out)
    elif k in ("agg", "closure"):
        for a in e[2]:
            find_calls(a, suffix, out)
    elif k == "place":
        find_calls(e[1], suffix, out)
        for x in e[2]:
            if isinstance(x, tuple) and x[0] == "index":
                find_calls(x[1], suffix, out)
    return out


def normalize(e):
    """strip reborrows and block ids so that two expressions of the same value compare equal"""
    if not isinstance(e, tuple) or not e:
        return e
    k = e[0]
    if k == "ref":
        inner = normalize(e[1])
        if inner[0] == "place" and inner[2] and inner[2][-1] == "deref":
            rest = inner[2][:-1]
            return inner[1] if not rest else ("place", inner[1], rest)
        return ("ref", inner)
    if k == "call":
        return ("call", e[1], tuple(normalize(a) for a in e[2]))
    if k == "place":
        root = normalize(e[1])
        trail = [("index", normalize(x[1])) if isinstance(x, tuple) and x[0] == "index" else x for x in e[2]]
        if root[0] == "place":
            return ("place", root[1], root[2] + trail)
        if root[0] == "ref" and trail and trail[0] == "deref":
            inner = root[1]
            rest = trail[1:]
            if not rest:
                return inner
            if inner[0] == "place":
                return ("place", inner[1], inner[2] + rest)
            return ("place", inner, rest)
        return ("place", root, trail)
    if k == "bin":
        return ("bin", e[1], normalize(e[2]), normalize(e[3]))
    if k in ("un", "cast"):
        return (k, e[1], normalize(e[2]))
    if k == "discr":
        return ("discr", normalize(e[1]))
    if k == "adt":
        return ("adt", e[1], e[2], tuple(normalize(a) for a in e[3]))
    if k in ("agg", "closure"):
        return (k, e[1], tuple(normalize(a) for a in e[2]))
    return e
