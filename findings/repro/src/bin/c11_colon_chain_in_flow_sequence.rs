//! `[ : : : b ]`: a ':' that cannot use a pending simple key opens a single-pair mapping even when one is already open at this level.
use saphyr_parser::{Event, Parser};

fn events(s: &str) -> (Vec<String>, Option<String>) {
    let mut v = vec![];
    for e in Parser::new_from_str(s) {
        match e {
            Ok((ev, _)) => v.push(match ev {
                Event::Scalar(s, ..) => format!("={s}"),
                Event::SequenceStart(..) => "+SEQ".into(),
                Event::SequenceEnd => "-SEQ".into(),
                Event::MappingStart(..) => "+MAP".into(),
                Event::MappingEnd => "-MAP".into(),
                Event::DocumentStart(..) => "+DOC".into(),
                Event::DocumentEnd => "-DOC".into(),
                Event::StreamStart => "+STR".into(),
                Event::StreamEnd => "-STR".into(),
                other => format!("{other:?}"),
            }),
            Err(e) => return (v, Some(e.to_string())),
        }
    }
    (v, None)
}

fn main() {
    for s in ["[ : b ]", "[ : : b ]", "[ : : : b ]", "[ a: : b ]", "[ ? a : : b ]", "{ : : b }", "[ : b, : c ]"] {
        let (ev, err) = events(s);
        println!("{s:?}\n   {}\n   {:?}", ev.join(" "), err);
    }
}
