//! C03: `[ a: { b: c, d: e } ]` - a `,` between the entries of a flow mapping that is the value of a flow-sequence single pair
//! closed the pair early (end_implicit_mapping looked at the state of the enclosing `[` from inside the `{`).
use saphyr::{LoadableYamlNode, Yaml};
fn main() {
    let docs = Yaml::load_from_str("[ a: { b: c, d: e } ]").unwrap();
    let inner = &docs[0][0]["a"];
    println!("inner mapping of `[ a: {{ b: c, d: e }} ]` = {:?}", inner);
    let ok = inner["b"].as_str() == Some("c") && inner.as_mapping().map(|m| m.len()) == Some(2) && inner["d"].as_str() == Some("e");
    println!("{}", if ok { "DENOTED TREE" } else { "WRONG TREE" });
    std::process::exit(if ok { 0 } else { 1 });
}
