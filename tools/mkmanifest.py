#!/usr/bin/env python3
"""Regenerates /verif/MANIFEST.json from the claims table below (maintenance helper, not a check)."""
import json, os

V = os.path.dirname(os.path.dirname(os.path.abspath(__file__)))
props = [json.loads(l) for l in open(os.path.join(V, "properties.jsonl"))]

TRUST = "Trusted: rustc type checking/trait resolution/MIR construction (nightly, opt-level 0) as dumped by factgen; the std/hashlink/encoding_rs semantics named in the evidence file's trusted_base."

CLAIMS = {
 "C04": dict(cat="proof", tech="switch-table extraction from MIR, expression-shape check of the hex accumulator, constant folding of as_hex/is_hex, comparison with the specification's table",
   text="Proof of one clause only: the double-quoted escape table is the YAML 1.2 table (17 named escapes incl. TAB, \\x/\\u/\\U with 2/4/8 digits, nothing else accepted, any other character after a backslash reaches Err), the hex value is accumulated as (value << 4) + as_hex(c) with as_hex/is_hex the hexadecimal digit value/predicate (folded from their bodies over the alphabet) and passes through char::from_u32. Line folding, blank trimming, '' un-doubling, plain-scalar termination and the character-class facts about what is pushed into scalar text are NOT decided by this check (value-level string behaviour / class domain not built).",
   design="DESIGN.md §4 C04", note="tables/yaml12_escapes.json transcribes YAML 1.2.2 section 5.7; char::from_u32 semantics. " + TRUST),
 "C08": dict(cat="proof", tech="def-use (text identity), string-match table extraction, dominance of permissive std parsers by crate-local lexical predicates, comparison with the core-schema literal table",
   text="Proof of the structural clauses: every Scalar::String holds the untouched input and non-plain styles return it before any parser runs; under tag:yaml.org,2002: the bool/int/float/null arms build only that type (or None) and everything else String; ScalarOwned delegates; every literal the resolver compares against is a core-schema literal with the specified meaning and the JSON literals are present; every permissive std parser (from_str_radix / parse::<i64> after a stripped prefix, parse::<f64>) is reached only on the true edge of a crate-local lexical predicate applied to the same text. What those predicates accept, numeric value equality and 64-bit boundaries are not decided.",
   design="DESIGN.md §4 C08", note="std parser languages as documented; tables/core_schema_literals.json transcribes YAML 1.2.2 section 10.3.2. " + TRUST),
 "C09": dict(cat="other", tech="sibling-table agreement: escape_str's byte switch vs the scanner's escape table, need_quotes' extracted tests (folded closures, literal list, prefixes, parsers) vs the resolver's literals/prefixes/parsers, callee rule on the float arm",
   text="Three necessary conditions of the round trip, decided for the whole tables: every escape escape_str writes decodes (scanner table) to the byte it stands for and the bytes special inside double quotes are escaped; every literal, prefix path and std parser by which the resolver types a plain scalar has a counterpart that makes need_quotes true; the FloatingPoint arm writes .nan/.inf/-.inf and Debug formatting, never Display alone. Round-trip equality itself, layout (compact), complex keys and the multiline_strings path (known to be lossy for some strings, see DESIGN §6) are not decided.",
   design="DESIGN.md §4 C09", note="Same std parsers on both sides; <f64 as Debug> prints '.' or exponent. " + TRUST),
 "C12": dict(cat="proof", tech="caller/writer inventories, disjunctive forward data-flow of consumed-but-unaccounted terms per function, shape and dominance rules on MIR (one premise-checked relational lemma)",
   text="Proof of the lock-step coupling clauses: exactly the 13 scanner functions that consume input advance mark.index, nobody else touches index/col/line (fetch_stream_end's forced newline reviewed); on every path of each, what is consumed (1, k, or the value a bulk operation returns) is added once to index and once to col (raw-read loop by premise-checked lemma); skip_nl is consume-one/index+1/line+1/col=0 and only the two break helpers call it; index only grows; of the two cursor reads of every Span::new the start is read first; ScanError prints col+1; the loader gives every node the span of its event and with_span stores it. Not decided: that a token's start/end marks are the right ones, that breaks are only consumed through the break helpers (class domain), count units of StrInput's bulk operations.",
   design="DESIGN.md §4 C12", note="Bulk Input operations return character counts (Input contract). " + TRUST), "C02": dict(cat="proof", tech="disjunctive path/outcome extraction over the MIR of every state-machine handler (E5), role typing against a reviewed table, dispatch extraction, who-may-write inventories, def-use of anchor ids",
   text="Proof, for arbitrary token sequences, that every non-error outcome of every handler instance (24 instances, ~200 outcomes: token-kind constraint, push/pop sequence, state written, event or tail call) fits the role of the state it serves; with the one-paragraph-per-role induction this gives the event grammar of the property and shows pop_state never meets an empty stack. Also: every State is dispatched, State::End is answered before dispatch, no unreachable!() is reachable with a satisfiable token constraint, the stack has single writers, anchor ids start at 1, increase by one per anchor, are registered pre-increment only in register_anchor, alias ids come out of the anchor table. Not decided: that the scanner's tokens make the right sentence for a text (C03).",
   design="DESIGN.md §4 C02", note="Paper step roles => grammar (docstring of rules/C02.py); borrow discipline makes the fetched token the peeked one. " + TRUST),
 "C06": dict(cat="proof", tech="dropped-Result def-use rule, dominance + must-reach-Err for enumerated guards, E5 acceptance sets compared with a confirmed table",
   text="Proof of the structural clauses: none of the ~180 Result<_, ScanError>-returning call sites in scanner/parser/loader/input drops its result; Scanner::next tests the latched error first and latches every Err, a None from the scanner always becomes an Err in the parser; for each of 16 enumerated guards (open quote at end of stream, document indicator in quotes, content after '...', invalid indentation, stale/required simple key x3, tab indentation x2, unknown/truncated/invalid escape x3, unknown alias, repeated %YAML, directive without '...', flow nesting limit) the guarded edge reaches an error on every path; per handler instance and token position the set of token kinds with a non-error outcome has not grown beyond the confirmed table. Not decided: that every damaged text reaches one of these guards.",
   design="DESIGN.md §4 C06", note="Errors travel only through Result values; the reading that maps the property's list to the guards. " + TRUST), "C01": dict(cat="other", tech="abstract interpretation of the scanner MIR over buffered-character bounds (E1, per capacity, one premise-checked relational lemma), forward must-analysis of the token slot, dominance rules, loop/progress classification, panic-site inventory with review table",
   text="For every analysed capacity (quick 8/16/128; thorough 8/9/15/16/17/64/128/1024) every peek/peek_nth/skip/skip_n/raw read of the scanner and of the provided Input methods is covered by a prior lookahead and no request exceeds the capacity (all inputs, all paths); the in-repo inputs advertise enough capacity; fetch_token is only reached with the peek slot filled; skip_ws_to_eol/as_hex/flow_level/simple_keys preconditions hold by dominance; every natural loop of scanner, inputs, parser and loader has a progress step on every cycle (two relational loops are reviewed exceptions, ten loops only have a may-consume step) and every non-error return of fetch_next_token consumed or queued something; all remaining panic-capable constructs on the parsing paths are discharged mechanically (length tests, constant divisors, usize counters) or covered by the reviewed per-(function, kind) table, so a new unwrap/index/arith site is reported. A review gate, not a proof of panic freedom: invariants I1-I5 are reviewed, linear time is not decided.",
   design="DESIGN.md §4 C01", note="The documented contract of trait Input; finiteness of std iterators; invariants I1-I5 of tables/panic_review_parse.json; the two reviewed loop exceptions. " + TRUST), "C11": dict(cat="other", tech="call-graph and type-graph SCC analysis (Tarjan) over resolved MIR callees; depth-guard dominance; who-may-write inventory of flow_level",
   text="Every recursion cycle of both crates (resolved call graph incl. trait fan-out, closures, fn items as values) and every recursive node type x structural trait used by load/drop is enumerated; each must be cut by a depth guard or is reported. Today 6 call cycles and 22 type x trait recursions are genuine, unrepaired defects (known findings, one key each); any new cycle, any cycle entering the pull parser/scanner/loader handler, or loss of the checked_add bound on flow depth is a new violation. Frame sizes are not computed.",
   design="DESIGN.md §4 C11", note="Stack growth proportional to nesting needs a call cycle or recursive structural code; std collections call their elements' impls. " + TRUST),
 "C16": dict(cat="proof", tech="forward container-emptiness data-flow, loop/accumulator shape rule, guard=>Err dominance, writer inventory on MIR",
   text="Proof of the structural clauses: no membership test on a provably empty container and no accumulator re-created inside the loop that fills and publishes it (directive accumulation); resolve_tag looks handles up in Parser.tags, defaults `!!` to tag:yaml.org,2002:, sends an undeclared named handle to Err and returns the suffix unchanged; Parser.tags is written only by parser_process_directives and by document_end's clear() under !keep_tags. Percent-decoding of suffixes and the scanner's tag lexing are not decided.",
   design="DESIGN.md §4 C16", note="HashMap::get/contains_key semantics (std). " + TRUST),
 "C17": dict(cat="proof", tech="caller-set, field-write (who-may-write) inventory, dominance and flag-sensitive must-pass-through on the MIR of parser.rs",
   text="Proof of the structural clauses for all inputs and all peek/next histories: parse/state_machine reachable only through next_event_impl which drains the peek slot first; the drivers (peek, next_event, next, load*) write only `current`/`stream_end_emitted`; the StreamEnd fuse is tested before producing and set exactly on StreamEnd; every event fetched by the push interface is forwarded exactly once and unchanged, multi=false stops after one document. Equality of event values across interfaces is not decided.",
   design="DESIGN.md §4 C17", note="Option::take leaves None; moved values are consumed by the callee. " + TRUST),
 "C19": dict(cat="proof", tech="must-pass-through (take->restore) on MIR CFG, variant-map extraction from discriminant switches, field-read inventory, method-set parity",
   text="Proof of the structural clauses: every function that takes *self restores it on every returning path (8 bodies x arms); from_bare_yaml x3, Scalar::into_owned, ScalarOwned::as_scalar map each variant to the same-named variant with same-position payloads through value-preserving conversions; eager and deferred scalar paths use the same (text, style, tag); Some->Value/None->BadValue in value_from_cow_and_metadata; PartialEq/Hash of marked nodes read only `data`; macro method-set parity. Structural equality of loaded trees as values is not decided.",
   design="DESIGN.md §4 C19", note="Into/From/into_owned/clone/to_string between Cow<str>, String, &str preserve the value (std). " + TRUST),
 "C07": dict(cat="proof", tech="call-chain/constant-argument check, per-arm path enumeration with operation counting on MIR, ordering/dominance in insert_new_node, sentinel-disjointness rule",
   text="Proof of the structural clauses: load_from_str->load_from_iter->load_from_parser->Parser::load(..,true)?->into_documents; for each event kind every path of YamlLoader::on_event performs exactly the stack pushes/pops and the single insert_new_node (or docs push) that kind calls for; insert_new_node registers the anchor with a clone of the completed node before placing it and places it at most once (sequence push, pending key, mapping insert with that key, root); the 'no key pending' state cannot be forged by a node value. Equality of the loaded tree with a fold of the events, scalar resolution (C08) and hashlink's duplicate-key semantics are not decided.",
   design="DESIGN.md §4 C07", note="Vec::push/LinkedHashMap::insert semantics; the event grammar of C02. " + TRUST),
 "C18": dict(cat="proof", tech="loop-progress must-pass-through per match arm, interval lower bound of the growth step, panic-site inventory on MIR",
   text="Proof that every cycle of decode_loop makes progress: InputEmpty leaves the loop, Malformed and OutputFull advance total_bytes_read on every looping path, and OutputFull grows the output by a reserve() whose argument has interval lower bound >= 4; panic-capable constructs of encoding.rs are discharged by dominating length tests/constant divisors or covered by a reviewed per-function table. Equality of decoded text with the original is encoding_rs semantics and is not decided.",
   design="DESIGN.md §4 C18", note="encoding_rs contract (bytes_read <= src.len(), Malformed consumed >= 1 byte, OutputFull only with < 4 bytes of space left); String::reserve. " + TRUST),
 "C20": dict(cat="proof", tech="delegation/caller facts, panic reachability per Option edge, expression-tree provenance of probe/hasher/hash, sibling agreement on MIR",
   text="Proof of the structural clauses for the four node types: contains_mapping_key, as_mapping_get and Index<&str> inspect the result of the one as_mapping_get_impl (mut siblings likewise); Index panics exactly on the None edge and returns the Some payload; the probe is Value(String(key.into())) hashed via Hash::hash into a hasher built by the searched map's own BuildHasher, finished and handed to raw_entry(_mut)().from_hash of that same map with an equality closure that can only match resolved strings; Index<usize> uses get(idx)/get(Value(Integer(i64::try_from(idx)))) with diverging fallbacks; PartialEq and Hash are both derived. Behaviour under hash collisions inside hashlink and value-level agreement are not decided.",
   design="DESIGN.md §4 C20", note="hashlink hashes stored keys through Hash::hash with its BuildHasher; derived Hash/PartialEq are structural; Cow<str>/String/&str hash as str. " + TRUST),
}

PENDING_REASON = "check under construction in this build round (see DESIGN.md §4 for the planned static rule); not claimed until it runs silent on the repaired tree and fires on its seeded mutants"
NA = {
 "C03": "Not decidable by static analysis: equality between the tree a text denotes under the YAML grammar and the event stream lives in run-time indentation values, simple-key positions and token insertion indices; its only structural parts (event well-nestedness, token pairing) are C02.",
 "C05": "Not decidable by static analysis: a value-level function from line lists x chomping x indentation to strings inside one function; the structural obligations on that function (look-ahead, mark coupling, break normalisation) are checked under C01/C10/C12/C14.",
}

checks = []
na = []
for p in props:
    pid = p["id"]
    if pid in CLAIMS:
        c = CLAIMS[pid]
        checks.append({
            "property_id": pid,
            "quick_cmd": "./verif check %s --tier quick" % pid,
            "thorough_cmd": "./verif check %s --tier thorough" % pid,
            "evidence_file": "/verif/evidence/%s.json" % pid,
            "replay_cmd_template": "./verif explain {path}",
            "engine": "rules/%s.py" % pid,
            "level_claimed": {"category": c["cat"], "text": c["text"], "design_ref": c["design"]},
            "level_note": c["note"],
            "technique": "static analysis: " + c["tech"],
        })
    else:
        na.append({"property_id": pid, "reason": NA.get(pid, PENDING_REASON)})

m = {
 "version": 1,
 "setup_cmd": "./verif setup",
 "hooks": {"guard": "saphyr_verif", "enable": "none needed: static analysis reads the type-checked MIR of the unmodified sources (no hook commits)",
           "baseline_off_cmd": "cd /repo && cargo test --workspace --no-fail-fast --offline", "source_commits": [], "add_only": True},
 "engines": [
  {"name": "factgen", "path": "factgen/", "serves_properties": sorted(CLAIMS), "kind_free_text": "rustc_private driver (nightly) injected with RUSTC_WORKSPACE_WRAPPER under cargo check: dumps resolved MIR, ADTs, impls, traits as JSON"},
  {"name": "engine", "path": "engine/", "serves_properties": sorted(CLAIMS), "kind_free_text": "Python: CFG/dominance/must-pass-through/def-use (E2), call graph + SCC + type graph (E3), table extraction (E4), abstract interpreters (E1/E5), who-may-write (E6)"},
 ],
 "checks": checks,
 "notes": "All checks are static: they rebuild facts from /repo's working tree (cached by content hash under .cache/) and never execute saphyr code. findings/repro holds the demonstration programs for the genuine defects (not used by any check). Fix commits in /repo are listed in known_findings.json.",
 "not_applicable": na,
}
json.dump(m, open(os.path.join(V, "MANIFEST.json"), "w"), indent=1)
print("claimed:", [c["property_id"] for c in checks])
