#!/usr/bin/env python3
"""maintenance helper: freeze the function inventory of the current /repo tree as the reference for engine/normalize.py
(run after a deliberate change of /repo such as a fix commit; never run by a check)"""
import json, os, sys
os.environ["VERIF_NO_NORMALIZE"] = "1"
sys.path.insert(0, "/verif")
from engine import facts
F = facts.load()
keys = sorted(k for k, f in F.fns.items() if f.crate in ("saphyr_parser", "saphyr"))
json.dump({"note": "function keys of the reference tree (saphyr-parser and saphyr); functions not listed here that are private, non-recursive and closure-free are inlined "
                   "into their callers before the rules run", "functions": keys}, open("/verif/tables/known_functions.json", "w"), indent=0)
print(len(keys), "functions")
