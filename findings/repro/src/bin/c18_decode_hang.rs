// C18: FF FE AC 20 AC 20 AC 20 (UTF-16LE BOM + three euro signs) never returns from decode():
// output capacity 8, each euro sign needs 3 bytes, reserve(input.len()/10) = reserve(0).
use saphyr::YamlDecoder;
use std::sync::mpsc;
use std::time::Duration;
fn main() {
    let (tx, rx) = mpsc::channel();
    std::thread::spawn(move || {
        let bytes: &[u8] = &[0xFF, 0xFE, 0xAC, 0x20, 0xAC, 0x20, 0xAC, 0x20];
        let mut dec = YamlDecoder::read(bytes);
        let r = dec.decode();
        let _ = tx.send(format!("{r:?}"));
    });
    match rx.recv_timeout(Duration::from_secs(5)) {
        Ok(r) => println!("returned: {r}"),
        Err(_) => {
            println!("HANG: decode() did not return within 5 s");
            std::process::exit(1)
        }
    }
}
