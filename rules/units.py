"""Index, column and line are different quantities (used by C15, C13 and C12).

The scanner's cursor has three coordinates.  `index` is absolute (it never goes back), `col` restarts at every line, `line` counts
breaks.  A scanner field that remembers a position in one coordinate must be compared with the same coordinate of the cursor: a
comparison of a remembered *index* with the current *column* agrees on the first line of a stream and nowhere else, so a later
document is scanned differently from the same text at the start of a stream.  This is a small dimension analysis: the unit of an
expression is that of `mark.index` / `mark.col` / `mark.line` it is built from (through casts and +/- constants), the unit of a
Scanner field is the common unit of everything assigned to it, and no comparison may relate two different units.
"""
from .common import *
from engine.facts import op_const

MARKER = "saphyr_parser::scanner::Marker"
ACCESSORS = {MARKER + "::index": "index", MARKER + "::col": "col", MARKER + "::line": "line"}


def unit_of(F, f, e, field_units, depth=0):
    if depth > 10 or not isinstance(e, tuple):
        return None
    if e[0] == "cast":
        return unit_of(F, f, e[2], field_units, depth + 1)
    if e[0] == "place":
        flds = [x[1] for x in e[2] if isinstance(x, tuple) and x[0] == "field"]
        if flds and flds[-1] in ("index", "col", "line") and (len(flds) == 1 or flds[-2] in ("mark", "start", "end", "0") or "mark" in flds[-2]):
            # a field of a Marker: self.mark.col, span.start.index, simple_key.mark.line ...
            return flds[-1]
        if e[2] == [("field", "0")] and e[1][0] == "bin" and e[1][1] in ("AddWithOverflow", "SubWithOverflow"):
            a, b = e[1][2], e[1][3]
            if b[0] == "const":
                return unit_of(F, f, a, field_units, depth + 1)
            if a[0] == "const":
                return unit_of(F, f, b, field_units, depth + 1)
            return None
        if cfg.expr_fields(e) and len(cfg.expr_fields(e)) == 1:
            return field_units.get(cfg.expr_fields(e)[0])
        return None
    if e[0] == "bin" and e[1] in ("Add", "Sub"):
        if e[3][0] == "const":
            return unit_of(F, f, e[2], field_units, depth + 1)
        if e[2][0] == "const":
            return unit_of(F, f, e[3], field_units, depth + 1)
        return None
    if e[0] == "call" and e[1] in ACCESSORS:
        return ACCESSORS[e[1]]
    return None


def check(rep, F, rule="coordinate-agreement"):
    fns = [(k, f) for k, f in sorted(F.fns.items()) if f.d.get("impl_adt") == SCANNER and "::test" not in k]
    # units of the Scanner's own integer fields
    field_units = {}
    writes = {}
    for k, f in fns:
        for bi, si, st in cfg.stmts(f):
            if st["k"] == "assign" and st["lhs"]["l"] == 1 and len(cfg.place_fields(st["lhs"])) == 1 and st["rv"]["k"] == "use":
                fld = cfg.place_fields(st["lhs"])[0]
                e = cfg.expr_operand(f, st["rv"]["a"], 8)
                writes.setdefault(fld, []).append((k, e, f))
    for fld, ws in writes.items():
        us = set()
        for k, e, f in ws:
            if e[0] == "const":
                continue                      # an initial / sentinel constant has no unit
            us.add(unit_of(F, f, e, {}))
        if len(us) == 1 and None not in us:
            field_units[fld] = us.pop()
    rep.extra["coordinate_fields"] = dict(sorted(field_units.items()))
    n = 0
    for k, f in fns:
        for bi, si, st in cfg.stmts(f):
            if st["k"] != "assign" or st["rv"]["k"] != "bin" or st["rv"]["op"] not in ("Eq", "Ne", "Lt", "Le", "Gt", "Ge"):
                continue
            a = cfg.expr_operand(f, st["rv"]["a"], 8)
            b = cfg.expr_operand(f, st["rv"]["b"], 8)
            ua, ub = unit_of(F, f, a, field_units), unit_of(F, f, b, field_units)
            if ua is None or ub is None:
                continue
            n += 1
            rep.check(ua == ub, rule, "%s:%s~%s" % (short(k), cfg.expr_str(a)[-28:], cfg.expr_str(b)[-28:]),
                      "a %s is compared with a %s (%s with %s): they agree on the first line of a stream only, so the same text is scanned differently "
                      "after an earlier document" % (ua, ub, cfg.expr_str(a)[:60], cfg.expr_str(b)[:60]), site=site(f, st["sp"]))
    return n
