// factgen: rustc_private driver dumping type-checked facts (MIR at opt-level 0, ADTs, impls)
// of the saphyr crates as JSON. Injected with RUSTC_WORKSPACE_WRAPPER; argv[1] is the real rustc.
// Output: $FACTGEN_OUT/<crate_name>.json (one write per process).
#![feature(rustc_private)]
#![allow(clippy::all)]

extern crate rustc_abi;
extern crate rustc_driver;
extern crate rustc_hir;
extern crate rustc_interface;
extern crate rustc_middle;
extern crate rustc_span;

use rustc_hir::def::DefKind;
use rustc_hir::def_id::DefId;
use rustc_middle::mir::{
    self, AggregateKind, BinOp, Body, Const, ConstValue, Operand, Place, PlaceElem, Rvalue,
    StatementKind, TerminatorKind, UnwindAction,
};
use rustc_middle::ty::{self, Ty, TyCtxt};
use rustc_span::Span;
use std::fmt::Write as _;

fn esc(s: &str) -> String {
    let mut o = String::with_capacity(s.len() + 2);
    o.push('"');
    for c in s.chars() {
        match c {
            '"' => o.push_str("\\\""),
            '\\' => o.push_str("\\\\"),
            '\n' => o.push_str("\\n"),
            '\r' => o.push_str("\\r"),
            '\t' => o.push_str("\\t"),
            c if (c as u32) < 0x20 => {
                let _ = write!(o, "\\u{:04x}", c as u32);
            }
            c => o.push(c),
        }
    }
    o.push('"');
    o
}

struct Cx<'tcx> {
    tcx: TyCtxt<'tcx>,
}

impl<'tcx> Cx<'tcx> {
    fn path(&self, did: DefId) -> String {
        let kn = self.tcx.crate_name(did.krate).to_string();
        if !did.is_local() && kn.starts_with("saphyr") {
            // canonical definition path, not the re-export a downstream crate sees
            return ty::print::with_no_visible_paths!(ty::print::with_no_trimmed_paths!(self.tcx.def_path_str(did)));
        }
        let p = ty::print::with_no_trimmed_paths!(self.tcx.def_path_str(did));
        if did.is_local() {
            format!("{}::{}", self.tcx.crate_name(did.krate), p)
        } else {
            p
        }
    }
    /// Canonical, generics-free key of a function-like item.
    fn key(&self, did: DefId) -> String {
        let tcx = self.tcx;
        if matches!(tcx.def_kind(did), DefKind::Closure) {
            let parent = tcx.typeck_root_def_id(did);
            let pp = ty::print::with_no_trimmed_paths!(tcx.def_path_str(parent));
            let cp = ty::print::with_no_trimmed_paths!(tcx.def_path_str(did));
            let suffix = cp.strip_prefix(&pp).unwrap_or("::{closure}").to_string();
            return format!("{}{}", self.key(parent), suffix);
        }
        if matches!(tcx.def_kind(did), DefKind::AssocFn | DefKind::AssocConst { .. }) {
            if let Some(im) = tcx.impl_of_assoc(did) {
                let self_ty = tcx.type_of(im).instantiate_identity().skip_norm_wip();
                let st = match self_ty.kind() {
                    ty::Adt(a, _) => self.path(a.did()),
                    _ => self.tystr(self_ty),
                };
                let name = tcx.item_name(did).to_string();
                if tcx.impl_opt_trait_ref(im).is_some() {
                    let tr = tcx.impl_trait_ref(im).instantiate_identity().skip_norm_wip();
                    let targs: Vec<String> = tr
                        .args
                        .iter()
                        .skip(1)
                        .filter_map(|a| a.as_type())
                        .map(|t| strip_regions(&self.tystr(t)))
                        .collect();
                    let ta = if targs.is_empty() { String::new() } else { format!("<{}>", targs.join(", ")) };
                    return format!("<{} as {}{}>::{}", st, self.path(tr.def_id), ta, name);
                }
                return format!("{}::{}", st, name);
            }
        }
        self.path(did)
    }
    fn tystr(&self, t: Ty<'tcx>) -> String {
        ty::print::with_no_trimmed_paths!(format!("{}", t))
    }
    fn span(&self, sp: Span) -> String {
        let sm = self.tcx.sess.source_map();
        let lo = sm.lookup_char_pos(sp.lo());
        let name = format!("{}", lo.file.name.prefer_local_unconditionally());
        format!("{}:{}:{}", name, lo.line, lo.col.0 + 1)
    }
    fn span_json(&self, sp: Span) -> String {
        let call = sp.source_callsite();
        format!(
            "{{\"at\":{},\"exp\":{},\"call\":{}}}",
            esc(&self.span(sp)),
            sp.from_expansion(),
            esc(&self.span(call))
        )
    }

    fn place(&self, body: &Body<'tcx>, p: &Place<'tcx>) -> String {
        let mut s = format!("{{\"l\":{},\"p\":[", p.local.as_usize());
        let mut pty = mir::PlaceTy::from_ty(body.local_decls[p.local].ty);
        let mut first = true;
        for elem in p.projection.iter() {
            if !first {
                s.push(',');
            }
            first = false;
            match elem {
                PlaceElem::Deref => s.push_str("{\"k\":\"deref\"}"),
                PlaceElem::Field(f, fty) => {
                    let mut name = format!("{}", f.as_usize());
                    let mut owner = String::new();
                    if let ty::Adt(adt, _) = pty.ty.kind() {
                        let vidx = pty.variant_index.unwrap_or(rustc_abi::FIRST_VARIANT);
                        if adt.is_enum() || adt.is_struct() || adt.is_union() {
                            if let Some(v) = adt.variants().get(vidx) {
                                if let Some(fd) = v.fields.get(f) {
                                    name = fd.name.to_string();
                                }
                            }
                        }
                        owner = self.path(adt.did());
                    }
                    let _ = write!(
                        s,
                        "{{\"k\":\"field\",\"i\":{},\"n\":{},\"of\":{},\"ty\":{}}}",
                        f.as_usize(),
                        esc(&name),
                        esc(&owner),
                        esc(&self.tystr(fty))
                    );
                }
                PlaceElem::Index(l) => {
                    let _ = write!(s, "{{\"k\":\"index\",\"l\":{}}}", l.as_usize());
                }
                PlaceElem::ConstantIndex { offset, min_length, from_end } => {
                    let _ = write!(
                        s,
                        "{{\"k\":\"cindex\",\"off\":{},\"min\":{},\"from_end\":{}}}",
                        offset, min_length, from_end
                    );
                }
                PlaceElem::Subslice { from, to, from_end } => {
                    let _ = write!(
                        s,
                        "{{\"k\":\"subslice\",\"from\":{},\"to\":{},\"from_end\":{}}}",
                        from, to, from_end
                    );
                }
                PlaceElem::Downcast(name, vidx) => {
                    let n = name.map(|x| x.to_string()).unwrap_or_default();
                    let _ = write!(
                        s,
                        "{{\"k\":\"downcast\",\"v\":{},\"i\":{}}}",
                        esc(&n),
                        vidx.as_usize()
                    );
                }
                PlaceElem::OpaqueCast(_) => s.push_str("{\"k\":\"opaque\"}"),
                PlaceElem::UnwrapUnsafeBinder(_) => s.push_str("{\"k\":\"unbinder\"}"),
            }
            pty = pty.projection_ty(self.tcx, elem);
        }
        s.push_str("]}");
        s
    }

    fn fn_ref(&self, body_did: DefId, did: DefId, args: ty::GenericArgsRef<'tcx>) -> String {
        let tcx = self.tcx;
        let mut s = format!("{{\"path\":{},\"key\":{},\"local\":{}", esc(&self.path(did)), esc(&self.key(did)), did.is_local());
        let _ = write!(s, ",\"krate\":{}", esc(&tcx.crate_name(did.krate).to_string()));
        let _ = write!(s, ",\"name\":{}", esc(&tcx.item_name(did).to_string()));
        let substs: Vec<String> = args.iter().map(|a| esc(&ty::print::with_no_trimmed_paths!(format!("{}", a)))).collect();
        let _ = write!(s, ",\"substs\":[{}]", substs.join(","));
        if let Some(tr) = tcx.trait_of_assoc(did) {
            let _ = write!(s, ",\"trait\":{}", esc(&self.path(tr)));
        }
        if let Some(im) = tcx.impl_of_assoc(did) {
            let self_ty = tcx.type_of(im).instantiate_identity().skip_norm_wip();
            let _ = write!(s, ",\"impl_self\":{}", esc(&self.tystr(self_ty)));
            if tcx.impl_opt_trait_ref(im).is_some() {
                let tr = tcx.impl_trait_ref(im).instantiate_identity().skip_norm_wip();
                let _ = write!(s, ",\"impl_trait\":{}", esc(&self.path(tr.def_id)));
            }
        }
        // try to resolve trait calls to a concrete instance
        let env = ty::TypingEnv::post_analysis(tcx, body_did);
        if let Ok(Some(inst)) = ty::Instance::try_resolve(tcx, env, did, args) {
            let rd = inst.def_id();
            if rd != did {
                let _ = write!(s, ",\"resolved\":{}", esc(&self.key(rd)));
                let _ = write!(s, ",\"resolved_local\":{}", rd.is_local());
            }
            let kind = match inst.def {
                ty::InstanceKind::Item(_) => "item",
                ty::InstanceKind::Intrinsic(_) => "intrinsic",
                ty::InstanceKind::Virtual(..) => "virtual",
                ty::InstanceKind::DropGlue(..) => "dropglue",
                ty::InstanceKind::CloneShim(..) => "cloneshim",
                ty::InstanceKind::FnPtrShim(..) => "fnptrshim",
                ty::InstanceKind::ClosureOnceShim { .. } => "closureonceshim",
                _ => "other",
            };
            let _ = write!(s, ",\"inst\":\"{}\"", kind);
        }
        s.push('}');
        s
    }

    fn constant(&self, body_did: DefId, c: &mir::ConstOperand<'tcx>) -> String {
        let tcx = self.tcx;
        let cty = c.const_.ty();
        let mut s = format!("{{\"ty\":{}", esc(&self.tystr(cty)));
        match cty.kind() {
            ty::FnDef(did, args) => {
                let _ = write!(s, ",\"fn\":{}", self.fn_ref(body_did, *did, args));
            }
            _ => {
                let env = ty::TypingEnv::post_analysis(tcx, body_did);
                let val: Option<ConstValue> = match c.const_ {
                    Const::Val(v, _) => Some(v),
                    other => other.eval(tcx, env, c.span).ok(),
                };
                match val {
                    Some(ConstValue::Scalar(mir::interpret::Scalar::Int(i))) => {
                        let size = i.size();
                        let bits = i.to_bits(size);
                        match cty.kind() {
                            ty::Bool => {
                                let _ = write!(s, ",\"bool\":{}", bits != 0);
                            }
                            ty::Char => {
                                let _ = write!(s, ",\"char\":{}", bits);
                            }
                            ty::Int(_) => {
                                let sv = size.sign_extend(bits) as i128;
                                let _ = write!(s, ",\"int\":{}", sv);
                            }
                            ty::Uint(_) => {
                                let _ = write!(s, ",\"int\":{}", bits);
                            }
                            ty::Float(_) => {
                                let _ = write!(s, ",\"floatbits\":{}", bits);
                            }
                            _ => {
                                let _ = write!(s, ",\"bits\":{}", bits);
                            }
                        }
                    }
                    Some(ConstValue::ZeroSized) => {
                        s.push_str(",\"zst\":true");
                    }
                    Some(ConstValue::Scalar(mir::interpret::Scalar::Ptr(ptr, _))) => {
                        // a pointer constant: name the static it (directly or through one indirection) points to
                        let (prov, _) = ptr.into_raw_parts();
                        let aid = prov.alloc_id();
                        let mut name: Option<String> = None;
                        match tcx.global_alloc(aid) {
                            mir::interpret::GlobalAlloc::Static(d) => name = Some(self.path(d)),
                            mir::interpret::GlobalAlloc::Memory(a) => {
                                for (_, p2) in a.inner().provenance().ptrs().iter() {
                                    if let mir::interpret::GlobalAlloc::Static(d) = tcx.global_alloc(p2.alloc_id()) {
                                        name = Some(self.path(d));
                                    }
                                }
                            }
                            _ => {}
                        }
                        if let Some(n) = name {
                            let _ = write!(s, ",\"static\":{}", esc(&n));
                        } else {
                            let _ = write!(s, ",\"opaque\":{}", esc(&format!("{}", c.const_)));
                        }
                    }
                    Some(v @ ConstValue::Slice { .. }) | Some(v @ ConstValue::Indirect { .. }) => {
                        let is_str = match cty.kind() {
                            ty::Ref(_, inner, _) => inner.is_str(),
                            _ => false,
                        };
                        let is_bytes = match cty.kind() {
                            ty::Ref(_, inner, _) => match inner.kind() {
                                ty::Slice(e) => matches!(e.kind(), ty::Uint(ty::UintTy::U8)),
                                _ => false,
                            },
                            _ => false,
                        };
                        let small_array = match cty.kind() {
                            ty::Array(e, _) => matches!(e.kind(), ty::Bool | ty::Uint(ty::UintTy::U8)),
                            _ => false,
                        };
                        if small_array {
                            // a named constant table of one-byte elements (`const T: [bool; 128] = build();`): its evaluated bytes
                            let mut done = false;
                            if let ConstValue::Indirect { alloc_id, offset } = v {
                                if let mir::interpret::GlobalAlloc::Memory(a) = tcx.global_alloc(alloc_id) {
                                    let al = a.inner();
                                    let start = offset.bytes() as usize;
                                    let all = al.inspect_with_uninit_and_ptr_outside_interpreter(0..al.len());
                                    if start <= all.len() {
                                        let l: Vec<String> = all[start..].iter().map(|x| x.to_string()).collect();
                                        let _ = write!(s, ",\"array\":[{}]", l.join(","));
                                        done = true;
                                    }
                                }
                            }
                            if !done {
                                let _ = write!(s, ",\"opaque\":{}", esc(&format!("{}", c.const_)));
                            }
                        } else if is_str || is_bytes {
                            if let Some(b) = v.try_get_slice_bytes_for_diagnostics(tcx) {
                                if is_str {
                                    let _ = write!(s, ",\"str\":{}", esc(&String::from_utf8_lossy(b)));
                                } else {
                                    let l: Vec<String> = b.iter().map(|x| x.to_string()).collect();
                                    let _ = write!(s, ",\"bytes\":[{}]", l.join(","));
                                }
                            }
                        } else {
                            let _ = write!(s, ",\"opaque\":{}", esc(&format!("{}", c.const_)));
                        }
                    }
                    _ => {
                        let _ = write!(s, ",\"opaque\":{}", esc(&format!("{}", c.const_)));
                    }
                }
                if let Const::Unevaluated(u, _) = c.const_ {
                    let _ = write!(s, ",\"item\":{}", esc(&self.path(u.def)));
                    if let Some(p) = u.promoted {
                        let _ = write!(s, ",\"promoted\":{}", p.as_usize());
                    }
                }
            }
        }
        s.push('}');
        s
    }

    fn operand(&self, body_did: DefId, body: &Body<'tcx>, o: &Operand<'tcx>) -> String {
        match o {
            Operand::Copy(p) => format!("{{\"copy\":{}}}", self.place(body, p)),
            Operand::Move(p) => format!("{{\"move\":{}}}", self.place(body, p)),
            Operand::Constant(c) => format!("{{\"const\":{}}}", self.constant(body_did, c)),
            Operand::RuntimeChecks(r) => format!("{{\"runtime_checks\":{}}}", esc(&format!("{:?}", r))),
        }
    }

    fn rvalue(&self, body_did: DefId, body: &Body<'tcx>, rv: &Rvalue<'tcx>) -> String {
        match rv {
            Rvalue::Use(o, _) => format!("{{\"k\":\"use\",\"a\":{}}}", self.operand(body_did, body, o)),
            Rvalue::Repeat(o, n) => format!(
                "{{\"k\":\"repeat\",\"a\":{},\"n\":{}}}",
                self.operand(body_did, body, o),
                esc(&format!("{}", n))
            ),
            Rvalue::Ref(_, bk, p) => {
                let m = matches!(bk, mir::BorrowKind::Mut { .. });
                format!("{{\"k\":\"ref\",\"mut\":{},\"bk\":{},\"p\":{}}}", m, esc(&format!("{:?}", bk)), self.place(body, p))
            }
            Rvalue::ThreadLocalRef(d) => format!("{{\"k\":\"tls\",\"d\":{}}}", esc(&self.path(*d))),
            Rvalue::RawPtr(k, p) => format!(
                "{{\"k\":\"rawptr\",\"kind\":{},\"p\":{}}}",
                esc(&format!("{:?}", k)),
                self.place(body, p)
            ),
            Rvalue::Cast(k, o, t) => format!(
                "{{\"k\":\"cast\",\"kind\":{},\"a\":{},\"ty\":{}}}",
                esc(&format!("{:?}", k)),
                self.operand(body_did, body, o),
                esc(&self.tystr(*t))
            ),
            Rvalue::BinaryOp(op, ab) => {
                let (a, b) = &**ab;
                format!(
                    "{{\"k\":\"bin\",\"op\":{},\"a\":{},\"b\":{}}}",
                    esc(&binop(*op)),
                    self.operand(body_did, body, a),
                    self.operand(body_did, body, b)
                )
            }
            Rvalue::UnaryOp(op, a) => format!(
                "{{\"k\":\"un\",\"op\":{},\"a\":{}}}",
                esc(&format!("{:?}", op)),
                self.operand(body_did, body, a)
            ),
            Rvalue::Discriminant(p) => {
                let pty = p.ty(body, self.tcx).ty;
                let mut adt = String::new();
                if let ty::Adt(a, _) = pty.kind() {
                    adt = self.path(a.did());
                }
                format!("{{\"k\":\"discr\",\"p\":{},\"adt\":{}}}", self.place(body, p), esc(&adt))
            }
            Rvalue::Aggregate(kind, ops) => {
                let opss: Vec<String> = ops.iter().map(|o| self.operand(body_did, body, o)).collect();
                let ks = match &**kind {
                    AggregateKind::Array(t) => format!("\"agg\":\"array\",\"ty\":{}", esc(&self.tystr(*t))),
                    AggregateKind::Tuple => "\"agg\":\"tuple\"".to_string(),
                    AggregateKind::Adt(did, vidx, _, _, active) => {
                        let adt = self.tcx.adt_def(*did);
                        let v = adt.variant(*vidx);
                        let fnames: Vec<String> = v.fields.iter().map(|f| esc(&f.name.to_string())).collect();
                        format!(
                            "\"agg\":\"adt\",\"adt\":{},\"variant\":{},\"vidx\":{},\"fields\":[{}],\"active\":{}",
                            esc(&self.path(*did)),
                            esc(&v.name.to_string()),
                            vidx.as_usize(),
                            fnames.join(","),
                            active.map(|f| f.as_usize() as i64).unwrap_or(-1)
                        )
                    }
                    AggregateKind::Closure(did, _) => format!("\"agg\":\"closure\",\"def\":{}", esc(&self.key(*did))),
                    AggregateKind::Coroutine(did, _) => format!("\"agg\":\"coroutine\",\"def\":{}", esc(&self.path(*did))),
                    AggregateKind::CoroutineClosure(did, _) => {
                        format!("\"agg\":\"coroutine_closure\",\"def\":{}", esc(&self.path(*did)))
                    }
                    AggregateKind::RawPtr(t, _) => format!("\"agg\":\"rawptr\",\"ty\":{}", esc(&self.tystr(*t))),
                };
                format!("{{\"k\":\"agg\",{},\"ops\":[{}]}}", ks, opss.join(","))
            }
            Rvalue::CopyForDeref(p) => format!("{{\"k\":\"copyforderef\",\"p\":{}}}", self.place(body, p)),
            Rvalue::WrapUnsafeBinder(o, _) => {
                format!("{{\"k\":\"wrapbinder\",\"a\":{}}}", self.operand(body_did, body, o))
            }
        }
    }

    fn body(&self, did: DefId, body: &Body<'tcx>) -> String {
        let tcx = self.tcx;
        let mut s = String::new();
        // locals
        s.push_str("\"locals\":[");
        let mut names: Vec<Option<String>> = vec![None; body.local_decls.len()];
        for vdi in &body.var_debug_info {
            if let mir::VarDebugInfoContents::Place(p) = &vdi.value {
                if p.projection.is_empty() {
                    names[p.local.as_usize()] = Some(vdi.name.to_string());
                }
            }
        }
        for (i, ld) in body.local_decls.iter().enumerate() {
            if i > 0 {
                s.push(',');
            }
            let _ = write!(s, "{{\"ty\":{}", esc(&self.tystr(ld.ty)));
            if let Some(n) = &names[i] {
                let _ = write!(s, ",\"name\":{}", esc(n));
            }
            s.push('}');
        }
        let _ = write!(s, "],\"arg_count\":{},", body.arg_count);
        // upvar debug info (closures): names of captured fields
        s.push_str("\"upvars\":[");
        let mut firstu = true;
        for vdi in &body.var_debug_info {
            if let mir::VarDebugInfoContents::Place(p) = &vdi.value {
                if !p.projection.is_empty() {
                    if !firstu {
                        s.push(',');
                    }
                    firstu = false;
                    let _ = write!(s, "{{\"name\":{},\"place\":{}}}", esc(&vdi.name.to_string()), self.place(body, p));
                }
            }
        }
        s.push_str("],\"blocks\":[");
        for (bb, data) in body.basic_blocks.iter_enumerated() {
            if bb.as_usize() > 0 {
                s.push(',');
            }
            let _ = write!(s, "{{\"cleanup\":{},\"stmts\":[", data.is_cleanup);
            let mut first = true;
            for st in &data.statements {
                let js = match &st.kind {
                    StatementKind::Assign(b) => {
                        let (p, rv) = &**b;
                        Some(format!(
                            "{{\"k\":\"assign\",\"lhs\":{},\"rv\":{},\"sp\":{}}}",
                            self.place(body, p),
                            self.rvalue(did, body, rv),
                            self.span_json(st.source_info.span)
                        ))
                    }
                    StatementKind::SetDiscriminant { place, variant_index } => Some(format!(
                        "{{\"k\":\"setdiscr\",\"lhs\":{},\"v\":{}}}",
                        self.place(body, place),
                        variant_index.as_usize()
                    )),
                    StatementKind::StorageLive(l) => Some(format!("{{\"k\":\"live\",\"l\":{}}}", l.as_usize())),
                    StatementKind::StorageDead(l) => Some(format!("{{\"k\":\"dead\",\"l\":{}}}", l.as_usize())),
                    StatementKind::Intrinsic(i) => Some(format!("{{\"k\":\"intrinsic\",\"d\":{}}}", esc(&format!("{:?}", i)))),
                    _ => None,
                };
                if let Some(js) = js {
                    if !first {
                        s.push(',');
                    }
                    first = false;
                    s.push_str(&js);
                }
            }
            s.push_str("],\"term\":");
            let term = data.terminator();
            let sp = self.span_json(term.source_info.span);
            let unwind = |u: &UnwindAction| -> String {
                match u {
                    UnwindAction::Cleanup(b) => format!("{}", b.as_usize()),
                    _ => "null".to_string(),
                }
            };
            let tj = match &term.kind {
                TerminatorKind::Goto { target } => format!("{{\"k\":\"goto\",\"t\":{}}}", target.as_usize()),
                TerminatorKind::SwitchInt { discr, targets } => {
                    let mut vals = Vec::new();
                    let mut tg = Vec::new();
                    for (v, t) in targets.iter() {
                        vals.push(v.to_string());
                        tg.push(t.as_usize().to_string());
                    }
                    let dty = discr.ty(body, tcx);
                    format!(
                        "{{\"k\":\"switch\",\"discr\":{},\"dty\":{},\"vals\":[{}],\"targets\":[{}],\"otherwise\":{},\"sp\":{}}}",
                        self.operand(did, body, discr),
                        esc(&self.tystr(dty)),
                        vals.join(","),
                        tg.join(","),
                        targets.otherwise().as_usize(),
                        sp
                    )
                }
                TerminatorKind::UnwindResume => "{\"k\":\"resume\"}".to_string(),
                TerminatorKind::UnwindTerminate(_) => "{\"k\":\"terminate\"}".to_string(),
                TerminatorKind::Return => "{\"k\":\"return\"}".to_string(),
                TerminatorKind::Unreachable => "{\"k\":\"unreachable\"}".to_string(),
                TerminatorKind::Drop { place, target, unwind: u, .. } => format!(
                    "{{\"k\":\"drop\",\"p\":{},\"ty\":{},\"t\":{},\"unwind\":{},\"sp\":{}}}",
                    self.place(body, place),
                    esc(&self.tystr(place.ty(body, tcx).ty)),
                    target.as_usize(),
                    unwind(u),
                    sp
                ),
                TerminatorKind::Call { func, args, destination, target, unwind: u, fn_span, .. } => {
                    let f = match func {
                        Operand::Constant(c) => self.constant(did, c),
                        o => format!("{{\"ptr\":{}}}", self.operand(did, body, o)),
                    };
                    let a: Vec<String> = args.iter().map(|x| self.operand(did, body, &x.node)).collect();
                    let fty = func.ty(body, tcx);
                    let ret = match fty.kind() {
                        ty::FnDef(..) | ty::FnPtr(..) => {
                            let sig = fty.fn_sig(tcx);
                            self.tystr(sig.output().skip_binder())
                        }
                        _ => String::new(),
                    };
                    format!(
                        "{{\"k\":\"call\",\"f\":{},\"args\":[{}],\"dest\":{},\"dest_ty\":{},\"ret_decl\":{},\"t\":{},\"unwind\":{},\"sp\":{},\"fn_sp\":{}}}",
                        f,
                        a.join(","),
                        self.place(body, destination),
                        esc(&self.tystr(destination.ty(body, tcx).ty)),
                        esc(&ret),
                        target.map(|t| t.as_usize().to_string()).unwrap_or("null".to_string()),
                        unwind(u),
                        sp,
                        self.span_json(*fn_span)
                    )
                }
                TerminatorKind::TailCall { .. } => "{\"k\":\"tailcall\"}".to_string(),
                TerminatorKind::Assert { cond, expected, msg, target, unwind: u } => {
                    let kind = match &**msg {
                        mir::AssertKind::BoundsCheck { .. } => "BoundsCheck".to_string(),
                        mir::AssertKind::Overflow(op, ..) => format!("Overflow({})", binop(*op)),
                        mir::AssertKind::OverflowNeg(_) => "OverflowNeg".to_string(),
                        mir::AssertKind::DivisionByZero(_) => "DivisionByZero".to_string(),
                        mir::AssertKind::RemainderByZero(_) => "RemainderByZero".to_string(),
                        mir::AssertKind::MisalignedPointerDereference { .. } => "Misaligned".to_string(),
                        mir::AssertKind::NullPointerDereference => "NullDeref".to_string(),
                        other => format!("{:?}", other).chars().take(40).collect(),
                    };
                    let mut ops = Vec::new();
                    match &**msg {
                        mir::AssertKind::BoundsCheck { len, index } => {
                            ops.push(self.operand(did, body, len));
                            ops.push(self.operand(did, body, index));
                        }
                        mir::AssertKind::Overflow(_, a, b) => {
                            ops.push(self.operand(did, body, a));
                            ops.push(self.operand(did, body, b));
                        }
                        _ => {}
                    }
                    format!(
                        "{{\"k\":\"assert\",\"cond\":{},\"expected\":{},\"msg\":{},\"ops\":[{}],\"t\":{},\"unwind\":{},\"sp\":{}}}",
                        self.operand(did, body, cond),
                        expected,
                        esc(&kind),
                        ops.join(","),
                        target.as_usize(),
                        unwind(u),
                        sp
                    )
                }
                TerminatorKind::FalseEdge { real_target, .. } => {
                    format!("{{\"k\":\"goto\",\"t\":{}}}", real_target.as_usize())
                }
                TerminatorKind::FalseUnwind { real_target, .. } => {
                    format!("{{\"k\":\"goto\",\"t\":{}}}", real_target.as_usize())
                }
                other => format!("{{\"k\":\"other\",\"d\":{}}}", esc(&format!("{:?}", other).chars().take(80).collect::<String>())),
            };
            s.push_str(&tj);
            s.push('}');
        }
        s.push(']');
        s
    }

    fn function(&self, did: DefId) -> String {
        let tcx = self.tcx;
        let kind = tcx.def_kind(did);
        let mut s = format!("{{\"path\":{},\"key\":{},\"kind\":{}", esc(&self.path(did)), esc(&self.key(did)), esc(&format!("{:?}", kind)));
        let _ = write!(s, ",\"name\":{}", esc(&tcx.opt_item_name(did).map(|x| x.to_string()).unwrap_or_default()));
        let _ = write!(s, ",\"span\":{}", self.span_json(tcx.def_span(did)));
        if matches!(kind, DefKind::Fn | DefKind::AssocFn) {
            let vis = tcx.visibility(did);
            let _ = write!(s, ",\"pub\":{}", vis.is_public());
            let sig = tcx.fn_sig(did).instantiate_identity().skip_norm_wip().skip_binder();
            let ins: Vec<String> = sig.inputs().iter().map(|t| esc(&self.tystr(*t))).collect();
            let _ = write!(s, ",\"inputs\":[{}],\"output\":{}", ins.join(","), esc(&self.tystr(sig.output())));
        }
        if matches!(kind, DefKind::Closure) {
            let parent = tcx.typeck_root_def_id(did);
            let _ = write!(s, ",\"closure_of\":{}", esc(&self.key(parent)));
        }
        if let Some(tr) = tcx.trait_of_assoc(did) {
            let _ = write!(s, ",\"trait_of\":{}", esc(&self.path(tr)));
        }
        if let Some(im) = tcx.impl_of_assoc(did) {
            let self_ty = tcx.type_of(im).instantiate_identity().skip_norm_wip();
            let _ = write!(s, ",\"impl_self\":{}", esc(&self.tystr(self_ty)));
            if let ty::Adt(a, _) = self_ty.kind() {
                let _ = write!(s, ",\"impl_adt\":{}", esc(&self.path(a.did())));
            }
            if tcx.impl_opt_trait_ref(im).is_some() {
                let tr = tcx.impl_trait_ref(im).instantiate_identity().skip_norm_wip();
                let _ = write!(s, ",\"impl_trait\":{}", esc(&self.path(tr.def_id)));
            }
            let _ = write!(s, ",\"derived\":{}", tcx.is_automatically_derived(im));
        }
        let body = tcx.optimized_mir(did);
        s.push(',');
        s.push_str(&self.body(did, body));
        // promoted constants (e.g. `('a'..='f')` behind a reference): small bodies computing the constant
        s.push_str(",\"promoted\":[");
        let proms = tcx.promoted_mir(did);
        for (i, pb) in proms.iter().enumerate() {
            if i > 0 {
                s.push(',');
            }
            s.push('{');
            s.push_str(&self.body(did, pb));
            s.push('}');
        }
        s.push(']');
        s.push('}');
        s
    }

    fn adts_in(&self, t: Ty<'tcx>, out: &mut Vec<String>) {
        for ga in t.walk() {
            if let Some(t) = ga.as_type() {
                if let ty::Adt(a, _) = t.kind() {
                    let p = self.path(a.did());
                    if !out.contains(&p) {
                        out.push(p);
                    }
                }
            }
        }
    }

    fn adt(&self, did: DefId) -> String {
        let tcx = self.tcx;
        let adt = tcx.adt_def(did);
        let mut s = format!(
            "{{\"path\":{},\"kind\":{},\"span\":{},\"variants\":[",
            esc(&self.path(did)),
            esc(if adt.is_enum() { "enum" } else if adt.is_struct() { "struct" } else { "union" }),
            self.span_json(tcx.def_span(did))
        );
        for (vi, v) in adt.variants().iter_enumerated() {
            if vi.as_usize() > 0 {
                s.push(',');
            }
            let discr = if adt.is_enum() { adt.discriminant_for_variant(tcx, vi).val as i128 } else { 0 };
            let _ = write!(s, "{{\"name\":{},\"idx\":{},\"discr\":{},\"fields\":[", esc(&v.name.to_string()), vi.as_usize(), discr);
            for (fi, f) in v.fields.iter().enumerate() {
                if fi > 0 {
                    s.push(',');
                }
                let fty = tcx.type_of(f.did).instantiate_identity().skip_norm_wip();
                let mut adts = Vec::new();
                self.adts_in(fty, &mut adts);
                let al: Vec<String> = adts.iter().map(|a| esc(a)).collect();
                let _ = write!(
                    s,
                    "{{\"name\":{},\"ty\":{},\"adts\":[{}],\"pub\":{}}}",
                    esc(&f.name.to_string()),
                    esc(&self.tystr(fty)),
                    al.join(","),
                    f.vis.is_public()
                );
            }
            s.push_str("]}");
        }
        s.push_str("]}");
        s
    }

    fn imp(&self, did: DefId) -> String {
        let tcx = self.tcx;
        let self_ty = tcx.type_of(did).instantiate_identity().skip_norm_wip();
        let mut s = format!("{{\"self\":{},\"span\":{}", esc(&self.tystr(self_ty)), self.span_json(tcx.def_span(did)));
        if let ty::Adt(a, _) = self_ty.kind() {
            let _ = write!(s, ",\"adt\":{}", esc(&self.path(a.did())));
        }
        if tcx.impl_opt_trait_ref(did).is_some() {
            let tr = tcx.impl_trait_ref(did).instantiate_identity().skip_norm_wip();
            let _ = write!(s, ",\"trait\":{}", esc(&self.path(tr.def_id)));
            let _ = write!(s, ",\"trait_ref\":{}", esc(&ty::print::with_no_trimmed_paths!(format!("{}", tr))));
        }
        let _ = write!(s, ",\"derived\":{}", tcx.is_automatically_derived(did));
        let items: Vec<String> = tcx
            .associated_items(did)
            .in_definition_order()
            .map(|it| esc(&it.name().to_string()))
            .collect();
        let _ = write!(s, ",\"items\":[{}]}}", items.join(","));
        s
    }

    fn trait_(&self, did: DefId) -> String {
        let tcx = self.tcx;
        let mut s = format!("{{\"path\":{},\"items\":[", esc(&self.path(did)));
        let mut first = true;
        for it in tcx.associated_items(did).in_definition_order() {
            if !first {
                s.push(',');
            }
            first = false;
            let _ = write!(
                s,
                "{{\"name\":{},\"provided\":{},\"fn\":{}}}",
                esc(&it.name().to_string()),
                it.defaultness(tcx).has_value(),
                it.is_fn()
            );
        }
        s.push_str("]}");
        s
    }
}

fn strip_regions(s: &str) -> String {
    // "&'key str" -> "&str", "Foo<'a, T>" keeps T
    let mut out = String::new();
    let cs: Vec<char> = s.chars().collect();
    let mut i = 0;
    while i < cs.len() {
        if cs[i] == '\'' {
            let mut j = i + 1;
            while j < cs.len() && (cs[j].is_alphanumeric() || cs[j] == '_') {
                j += 1;
            }
            // skip following ", " or " "
            if j < cs.len() && cs[j] == ',' {
                j += 1;
            }
            while j < cs.len() && cs[j] == ' ' {
                j += 1;
            }
            i = j;
        } else {
            out.push(cs[i]);
            i += 1;
        }
    }
    out.replace("<>", "")
}

fn binop(op: BinOp) -> String {
    format!("{:?}", op)
}

struct Cb;

impl rustc_driver::Callbacks for Cb {
    fn after_analysis<'tcx>(
        &mut self,
        _c: &rustc_interface::interface::Compiler,
        tcx: TyCtxt<'tcx>,
    ) -> rustc_driver::Compilation {
        let krate = tcx.crate_name(rustc_span::def_id::LOCAL_CRATE).to_string();
        let want = std::env::var("FACTGEN_CRATES").unwrap_or_else(|_| "saphyr_parser,saphyr".to_string());
        if !want.split(',').any(|w| w == krate) {
            return rustc_driver::Compilation::Continue;
        }
        // skip test/bench/example targets of the same name: only lib crate types
        let is_lib = tcx.crate_types().iter().any(|t| matches!(t, rustc_session_crate_type::Rlib | rustc_session_crate_type::Dylib | rustc_session_crate_type::ProcMacro));
        let out_dir = match std::env::var("FACTGEN_OUT") {
            Ok(d) => d,
            Err(_) => return rustc_driver::Compilation::Continue,
        };
        if !is_lib {
            return rustc_driver::Compilation::Continue;
        }
        let cx = Cx { tcx };
        let mut out = String::new();
        let _ = write!(out, "{{\"crate\":{},", esc(&krate));
        // cfg
        let mut cfgs: Vec<String> = tcx
            .sess
            .config
            .iter()
            .map(|(k, v)| match v {
                Some(v) => format!("{}={}", k, v),
                None => k.to_string(),
            })
            .filter(|c| c.starts_with("feature") || c.contains("debug_assertions") || c.contains("overflow") || c.contains("saphyr"))
            .collect();
        cfgs.sort();
        let cl: Vec<String> = cfgs.iter().map(|c| esc(c)).collect();
        let _ = write!(out, "\"cfg\":[{}],", cl.join(","));
        let _ = write!(out, "\"overflow_checks\":{},", tcx.sess.overflow_checks());
        // source files
        let sm = tcx.sess.source_map();
        let mut files: Vec<String> = sm
            .files()
            .iter()
            .map(|f| format!("{}", f.name.prefer_local_unconditionally()))
            .filter(|n| n.ends_with(".rs") && !n.contains("/rustc/") && !n.contains(".cargo/registry") && !n.contains("/rustlib/"))
            .collect();
        files.sort();
        let fl: Vec<String> = files.iter().map(|c| esc(c)).collect();
        let _ = write!(out, "\"files\":[{}],", fl.join(","));
        // functions
        out.push_str("\"functions\":[");
        let mut first = true;
        for ldid in tcx.hir_body_owners() {
            let did = ldid.to_def_id();
            if !matches!(tcx.def_kind(did), DefKind::Fn | DefKind::AssocFn | DefKind::Closure) {
                continue;
            }
            if !first {
                out.push(',');
            }
            first = false;
            out.push_str(&cx.function(did));
            out.push('\n');
        }
        out.push_str("],\"adts\":[");
        let mut first = true;
        let mut impls = Vec::new();
        let mut traits = Vec::new();
        for ldid in tcx.hir_crate_items(()).definitions() {
            let did = ldid.to_def_id();
            match tcx.def_kind(did) {
                DefKind::Struct | DefKind::Enum | DefKind::Union => {
                    if !first {
                        out.push(',');
                    }
                    first = false;
                    out.push_str(&cx.adt(did));
                    out.push('\n');
                }
                DefKind::Impl { .. } => impls.push(did),
                DefKind::Trait => traits.push(did),
                _ => {}
            }
        }
        out.push_str("],\"impls\":[");
        let il: Vec<String> = impls.iter().map(|d| cx.imp(*d)).collect();
        out.push_str(&il.join(",\n"));
        out.push_str("],\"traits\":[");
        let tl: Vec<String> = traits.iter().map(|d| cx.trait_(*d)).collect();
        out.push_str(&tl.join(",\n"));
        out.push_str("]}");
        let path = format!("{}/{}.json", out_dir, krate);
        std::fs::write(&path, out).expect("factgen: cannot write fact file");
        rustc_driver::Compilation::Continue
    }
}

extern crate rustc_session;
use rustc_session::config::CrateType as rustc_session_crate_type;

fn main() {
    let mut a: Vec<String> = std::env::args().collect();
    // RUSTC_WORKSPACE_WRAPPER: argv[1] is the path of the real rustc
    if a.len() > 1 && (a[1].ends_with("rustc") || a[1].contains("/rustc")) {
        a.remove(1);
    }
    rustc_driver::run_compiler(&a, &mut Cb);
}
