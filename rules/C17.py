"""C17 — pull, peek and push interfaces tell the same story.

Clauses decided (structure of parser.rs, all inputs and all call histories at once):
 (a) single event source: parse/state_machine are reached only through next_event_impl, which drains
     `current` before parsing;
 (b) peek writes nothing but `current`;
 (c) driver purity: peek/next_event/next/load* write only the driver-private fields `current` and
     `stream_end_emitted` -- any write to a state-machine field makes the interfaces observably different;
 (d) the StreamEnd fuse is set exactly on StreamEnd and tested before anything is produced;
 (e) push interface forwards every fetched event exactly once, unchanged, in order; multi=false stops
     after one document.
"""
from .common import *
from engine.facts import is_local, op_const, const_value, op_place

PID = "C17"
DRIVER_PRIVATE = {"current", "stream_end_emitted"}
MACHINE_FIELDS = ["scanner", "states", "state", "token", "anchors", "anchor_id_count", "tags", "keep_tags"]


def new_report(tier):
    return make_report(PID, tier, "proof", [
        "Option::take leaves None; a value moved into a call is consumed by it",
        "SpannedEventReceiver::on_event is the only channel to the receiver",
    ], "E3/E6/E2 over parser.rs: caller sets of parse/state_machine, field-write inventory of the drivers, "
       "dominance of the fuse test, fetch/forward alternation (flag-sensitive must-pass-through) and origin of every "
       "forwarded event. Decides the structural clauses (a)-(e), not equality of event values.")


def drivers(F):
    names = ["peek", "next_event", "next_event_impl", "load", "load_document", "load_node", "load_mapping", "load_sequence"]
    ds = [F.fn(PARSER + "::" + n) for n in names]
    ds.append(F.fn("<%s as std::iter::Iterator>::next" % PARSER))
    return ds


def load_delivers(rep, F, recv_key="saphyr_parser::parser::SpannedEventReceiver::on_event", rule="load-delivers"):
    P = PARSER
    ld = F.fn(P + "::load")
    doc_calls = [bb for bb, t, ck, fr in ld.calls() if ck == P + "::load_document"]
    # every call of load that returns Ok has handed something to the receiver: a whole document, or StreamEnd (an exhausted parser still
    # answers StreamEnd; a path that returns Ok in silence ends the sentence early for a caller that loads document by document)
    EVENT = "saphyr_parser::parser::Event"

    def _variant_of_const(f, op):
        l = is_local(op)
        for _ in range(5):
            if l is None:
                return None
            ds = cfg.defs_of_local(f, l)
            if len(ds) != 1 or ds[0][0] != "stmt":
                return None
            rv = ds[0][3]["rv"]
            if rv["k"] == "agg" and rv.get("adt") == EVENT:
                return rv["variant"]
            if rv["k"] == "use":
                c = op_const(rv["a"])
                if c is not None and c.get("promoted") is not None:
                    for b in f.d["promoted"][c["promoted"]]["blocks"]:
                        for st in b["stmts"]:
                            if st["k"] == "assign" and st["rv"]["k"] == "agg" and st["rv"].get("adt") == EVENT:
                                return st["rv"]["variant"]
                    return None
                l = is_local(rv["a"])
            elif rv["k"] in ("ref", "copyforderef"):
                pl = rv["p"]
                l = pl["l"] if all(e["k"] == "deref" for e in pl["p"]) else None
            else:
                return None
        return None
    end_deliveries = set()
    for bb, t, ck, fr in ld.calls():
        if ck != recv_key:
            continue
        if _variant_of_const(ld, t["args"][1]) == "StreamEnd":
            end_deliveries.add(bb)
            continue
        # forwarded on the `== StreamEnd` edge of a comparison
        for b2 in ld.dominators().get(bb, ()):
            t2 = ld.blocks[b2]["term"]
            if t2["k"] != "switch":
                continue
            pred = [p for p in ld.preds(b2) if ld.blocks[p]["term"]["k"] == "call" and ld.blocks[p]["term"]["t"] == b2]
            for pb in pred:
                tc = ld.blocks[pb]["term"]
                fk = tc["f"].get("fn") or {}
                nm = fk.get("key", "")
                if nm.endswith(("PartialEq::eq", "PartialEq::ne")) or nm.endswith(("::eq", "::ne")):
                    if any(_variant_of_const(ld, a) == "StreamEnd" for a in tc["args"]):
                        m, other = cfg.switch_edge_blocks(ld, b2)
                        yes = m.get(0) if nm.endswith("ne") else other
                        if yes is not None and (bb == yes or cfg.dominated_by_edge(ld, bb, b2, yes)):
                            end_deliveries.add(bb)
    esc = cfg.escapes(ld, 0, set(doc_calls) | end_deliveries, avoid=cfg.err_sink_blocks(ld))
    rep.check(esc is None and end_deliveries, rule, "load", "Parser::load can return Ok without having handed a document or StreamEnd to the receiver "
              "(a caller loading one document per call never sees the end of the stream)", site=ld.span, detail={"silent_path_blocks": esc, "stream_end_deliveries": sorted(end_deliveries)})


def run(tier):
    rep = new_report(tier)
    F = facts.load()
    P = PARSER
    parse = F.fn(P + "::parse")
    sm = F.fn(P + "::state_machine")
    nei = F.fn(P + "::next_event_impl")
    drv = drivers(F)
    drvkeys = {d.key for d in drv}

    # (a) single event source
    pc = sorted({f.key for f, _, _ in F.callers_of(parse.key)})
    rep.check(pc == [nei.key], "single-source", "callers(parse)", "Parser::parse is called from outside next_event_impl: "
              "events can bypass the peek slot", detail=pc)
    sc = sorted({f.key for f, _, _ in F.callers_of(sm.key)})
    rep.check(sc == [parse.key], "single-source", "callers(state_machine)", "Parser::state_machine is called from outside parse", detail=sc)
    # handlers (functions called by state_machine) are not called from the drivers
    edges, _ = callgraph.build(F)
    handlers = {k for k in edges[sm.key] if k.startswith(P + "::")}
    rep.floor("state-machine handlers", len(handlers), 10)
    for d in drv:
        direct = {k for k in edges[d.key] if k in handlers or k in (sm.key,)} | ({parse.key} & edges[d.key] if d.key != nei.key else set())
        rep.check(not direct, "single-source", "driver %s" % short(d.key),
                  "driver calls the state machine directly instead of next_event_impl", site=d.span, detail=sorted(direct))
    # next_event_impl: take() of `current` dominates parse, parse only on the None edge
    takes = [(bb, t) for bb, t, ck, fr in nei.calls() if ck == "std::option::Option::take"]
    ok = False
    det = None
    if len(takes) == 1:
        bb, t = takes[0]
        e = cfg.expr_operand(nei, t["args"][0])
        isfield = e[0] == "ref" and cfg.expr_fields(e[1]) == ["current"]
        pcs = [b for b, tt, ck, fr in nei.calls() if ck == parse.key]
        # switch on discriminant of the take() result, parse reached through edge 0 (None) only
        sw = t["t"]
        tt = nei.blocks[sw]["term"]
        if isfield and tt["k"] == "switch" and len(pcs) == 1:
            de = cfg.expr_operand(nei, tt["discr"])
            if de[0] == "discr" and de[1][0] == "call" and de[1][1] == "std::option::Option::take":
                m, other = cfg.switch_edge_blocks(nei, sw)
                # `match` lists both discriminants, `if let Some(..)` lists 1 and sends None to the otherwise edge
                none_tg = m.get(0, other if 1 in m else None)
                if none_tg is not None and cfg.dominated_by_edge(nei, pcs[0], sw, none_tg):
                    ok = True
        det = {"take_arg": cfg.expr_str(e), "parse_calls": pcs}
    rep.check(ok, "drain-before-parse", "next_event_impl", "next_event_impl no longer takes `current` first and parses only when "
              "it was empty: a peeked event can be lost or duplicated", site=nei.span, detail=det)

    # (b)+(c) field writes of the drivers
    for d in drv:
        written = {}
        for fld in MACHINE_FIELDS + sorted(DRIVER_PRIVATE):
            ws = cfg.field_writes(d, P, fld)
            real = []
            for w in ws:
                if w["kind"] == "borrow_mut":
                    u = w.get("use")
                    # `&mut self.scanner` handed to a method: a write unless the callee takes &self -- rustc
                    # only creates a &mut borrow when the callee's receiver is &mut, so it counts.
                    real.append(w)
                else:
                    real.append(w)
            if real:
                written[fld] = real
        allowed = DRIVER_PRIVATE if d.name != "peek" else {"current"}
        if d.name == "next_event_impl":
            allowed = {"current"}
        for fld, ws in written.items():
            what = "driver %s writes parser field `%s`: the pull, peek and push interfaces no longer observe the same " \
                   "state machine" % (d.name, fld)
            for w in ws:
                callee = ""
                if w["kind"] == "borrow_mut" and w.get("use"):
                    callee = " via " + str(w["use"]["callee"])
                rep.check(fld in allowed, "driver-purity", "%s writes %s" % (short(d.key), fld), what + callee, site=site(d, w["sp"]))
        if not written:
            rep.ok("driver-purity", "%s writes nothing" % short(d.key))
        # the drivers touch the scanner only through shared-reference queries
    # positive control for the writer inventory: register_anchor must be seen writing anchors and anchor_id_count
    ra = F.fn(P + "::register_anchor")
    seen = {fld for fld in MACHINE_FIELDS if cfg.field_writes(ra, P, fld)}
    rep.check({"anchors", "anchor_id_count"} <= seen, "writer-inventory-selftest", "register_anchor",
              "the field-write inventory does not see register_anchor's writes (checker broken)", detail=sorted(seen))

    # (d) fuse
    ne = F.fn(P + "::next_event")
    pk = F.fn(P + "::peek")
    for f in (ne, pk):
        calls = [bb for bb, t, ck, fr in f.calls() if ck == nei.key]
        good = len(calls) == 1
        if good:
            good = False
            for bi, b in enumerate(f.blocks):
                if b["cleanup"] or b["term"]["k"] != "switch":
                    continue
                if cfg.self_field_of_switch(f, bi) == ["stream_end_emitted"]:
                    m, other = cfg.switch_edge_blocks(f, bi)
                    if 0 in m and cfg.dominated_by_edge(f, calls[0], bi, m[0]):
                        # and the other edge returns None without producing
                        good = True
        rep.check(good, "fuse-tested", short(f.key), "the StreamEnd fuse is not tested before producing an event: something can "
                  "follow StreamEnd", site=f.span)
    # set exactly on StreamEnd: the only write of stream_end_emitted in next_event is `= true`, reached on the path where the
    # result matched Ok((Event::StreamEnd, _)), and every such path passes it.
    ev_adt = F.adt("saphyr_parser::parser::Event")
    se_idx = [v["idx"] for v in ev_adt["variants"] if v["name"] == "StreamEnd"][0]
    ws = [w for w in cfg.field_writes(ne, P, "stream_end_emitted") if w["kind"] == "assign"]
    good = len(ws) == 1 and const_value(op_const(ws[0]["stmt"]["rv"].get("a", {})) or {}) is True
    path = None
    if good:
        wbb = ws[0]["bb"]
        # find the switch on the Event discriminant
        found = False
        for bi, b in enumerate(ne.blocks):
            t = b["term"]
            if b["cleanup"] or t["k"] != "switch":
                continue
            e = cfg.expr_operand(ne, t["discr"])
            if e[0] == "discr" and e[1][0] == "place" and ("downcast", "Ok") in e[1][2]:
                m, other = cfg.switch_edge_blocks(ne, bi)
                if se_idx in m:
                    found = True
                    # StreamEnd edge must pass the write; non-StreamEnd edges must not reach it
                    p1 = cfg.flag_reach(ne, m[se_idx], cfg.return_blocks(ne), avoid=[wbb])
                    p2 = cfg.flag_reach(ne, other, [wbb]) if other != m[se_idx] else None
                    if p1 is not None or p2 is not None:
                        good = False
                        path = p1 or p2
        good = good and found
    rep.check(good, "fuse-set", "next_event", "stream_end_emitted is not set exactly when the returned event is StreamEnd",
              site=ne.span, detail={"path": path})

    # (e) push interface: fetch/forward alternation and event provenance
    recv_key = "saphyr_parser::parser::SpannedEventReceiver::on_event"
    loaders = [F.fn(P + "::" + n) for n in ("load", "load_document", "load_node", "load_mapping", "load_sequence")]
    lkeys = {l.key for l in loaders}
    n_fetch = n_fwd = 0
    for f in loaders:
        fetch_bbs = [bb for bb, t, ck, fr in f.calls() if ck == nei.key]
        fwd_bbs = [bb for bb, t, ck, fr in f.calls() if ck == recv_key or (ck in lkeys)]
        err = cfg.err_sink_blocks(f) | cfg.diverging_blocks(f)
        rets = cfg.return_blocks(f)
        for fb in fetch_bbs:
            n_fetch += 1
            nxt = f.blocks[fb]["term"]["t"]
            goals = set(rets) | (set(fetch_bbs))
            p = cfg.flag_reach(f, nxt, goals, avoid=set(fwd_bbs) | err) if nxt not in fwd_bbs else None
            if nxt in goals:
                p = [fb, nxt]
            rep.check(p is None, "fetch-forward", "%s fetch" % short(f.key),
                      "an event fetched through next_event_impl can reach the end of the function (or the next fetch) without being "
                      "forwarded to the receiver or to a nested loader: the push interface drops an event", site=site(f, f.blocks[fb]["term"]["sp"]),
                      detail={"path": p})
        # an event the loader was *given* (its first_ev parameter) is older than anything it fetches: it is forwarded before the first fetch
        ev_params = [i for i in range(1, f.arg_count + 1) if "parser::Event" in f.locals[i]["ty"]]
        for pi in ev_params:
            own_fwd = set()
            for bb, t, ck, fr in f.calls():
                if (ck == recv_key or ck in lkeys) and len(t["args"]) > 1 and any(l_ == ("param", pi) for l_ in _leaves(f, t["args"][1])):
                    own_fwd.add(bb)
            p = cfg.path_avoiding(f, [0], own_fwd | err, set(fetch_bbs)) if fetch_bbs else None
            rep.check(bool(own_fwd) and p is None, "forward-order", "%s:%s" % (short(f.key), f.local_name(pi) or "arg%d" % pi),
                      "a loader fetches the next event before it has handed on the event it was given: when that fetch fails the receiver has seen one "
                      "event fewer than the iterator returns before the same error", site=f.span, detail={"path": p})
        # provenance of every forwarded event
        for bb, t, ck, fr in f.calls():
            if ck == recv_key or (ck in lkeys and len(t["args"]) >= 4):
                n_fwd += 1
                arg = t["args"][1]
                leaves = _leaves(f, arg)
                bad = [l for l in leaves if not _event_leaf_ok(f, l, nei.key)]
                rep.check(not bad, "forward-provenance", "%s -> %s" % (short(f.key), ck.split("::")[-1]),
                          "an event handed to the receiver does not come from next_event_impl (fabricated, replaced or reordered)",
                          site=site(f, t["sp"]), detail=[cfg.expr_str(b) if isinstance(b, tuple) else str(b) for b in bad])
    # the walkers of the push interface make no errors of their own: whatever error `load` returns while walking a node is the error the
    # iterator returns at the same event (an Err of load_node / load_mapping / load_sequence is always the propagated residual of a fetch or of
    # a nested walker).  A depth limit, a size limit or any other local `return Err(..)` in a walker ends the push story where the pull story goes on.
    n_w = 0
    for f in loaders:
        if f.key in (P + "::load", P + "::load_document"):
            continue   # their two local errors ("did not find expected <stream-start> / <document-start>") guard the shape of the sentence itself
        n_w += 1
        made = []
        for bi, b in enumerate(f.blocks):
            if b["cleanup"]:
                continue
            for s_ in b["stmts"]:
                rv = s_.get("rv") or {}
                if s_["k"] == "assign" and rv.get("k") == "agg" and rv.get("agg") == "adt" and str(rv.get("adt", "")).endswith("result::Result") and rv.get("variant") == "Err":
                    made.append("Err(..) in bb%d" % bi)
            t = b["term"]
            if t["k"] == "call" and "ScanError::new" in ((t["f"].get("fn") or {}).get("key", "")):
                made.append("%s in bb%d" % (t["f"]["fn"]["key"].split("::")[-1], bi))
        rep.check(not made, "walker-makes-no-errors", short(f.key), "a walker of the push interface builds an error of its own (%s): Parser::load stops with an error "
                  "where the iterator returns the next event" % ", ".join(made), site=f.span)
    rep.floor("walkers of the push interface", n_w, 3)
    rep.floor("event fetch sites in the push interface", n_fetch, 6)
    rep.floor("event forward sites in the push interface", n_fwd, 9)

    # multi=false: one document per call
    ld = F.fn(P + "::load")
    good = False
    doc_calls = [bb for bb, t, ck, fr in ld.calls() if ck == P + "::load_document"]
    fetches = [bb for bb, t, ck, fr in ld.calls() if ck == nei.key]
    for bi, b in enumerate(ld.blocks):
        t = b["term"]
        if b["cleanup"] or t["k"] != "switch":
            continue
        e = cfg.expr_operand(ld, t["discr"])
        neg = False
        if e[0] == "un" and e[1] == "Not":
            e = e[2]
            neg = True
        if e == ("param", 3):
            m, other = cfg.switch_edge_blocks(ld, bi)
            stop_edge = other if neg else m.get(0)
            cont_edge = m.get(0) if neg else other
            if stop_edge is None or cont_edge is None:
                continue
            r_stop = cfg.blocks_reachable_from(ld, [stop_edge])
            r_cont = cfg.blocks_reachable_from(ld, [cont_edge])
            dominated = doc_calls and all(d in ld.dominators().get(bi, ()) for d in doc_calls)
            if not (set(fetches) & r_stop) and (set(fetches) & r_cont) and dominated:
                good = True
    rep.check(good and len(doc_calls) == 1, "one-document-per-call", "load",
              "Parser::load no longer stops after exactly one document when multi is false (or keeps going when it is true)", site=ld.span)
    load_delivers(rep, F, recv_key)
    # load_document: exactly one load_node between two receiver calls
    ldoc = F.fn(P + "::load_document")
    ln = [bb for bb, t, ck, fr in ldoc.calls() if ck == P + "::load_node"]
    oe = [bb for bb, t, ck, fr in ldoc.calls() if ck == recv_key]
    fe = [bb for bb, t, ck, fr in ldoc.calls() if ck == nei.key]
    loops = ldoc.natural_loops()
    rep.check(len(ln) == 1 and len(oe) == 2 and len(fe) == 2 and not loops, "document-shape", "load_document",
              "load_document does not consume exactly DocumentStart, one node, DocumentEnd", site=ldoc.span,
              detail={"load_node": len(ln), "on_event": len(oe), "fetch": len(fe), "loops": len(loops)})
    return rep


def _leaves(f, op, depth=12, seen=None):
    """all ultimate sources of an operand, looking through moves/copies and multi-definition locals"""
    seen = seen if seen is not None else set()
    l = is_local(op)
    if l is None:
        p = op_place(op)
        if p is not None:
            return _leaves_local(f, p["l"], depth, seen, via_field=True)
        return [("const", op_const(op))]
    return _leaves_local(f, l, depth, seen)


def _leaves_local(f, l, depth, seen, via_field=False):
    if l in seen or depth <= 0:
        return []
    seen.add(l)
    ds = cfg.defs_of_local(f, l)
    if not ds:
        # also partial definitions (tuple fields assigned separately)
        part = [s for _, _, s in cfg.stmts(f) if s["k"] == "assign" and s["lhs"]["l"] == l and s["lhs"]["p"]]
        if part:
            out = []
            for s in part:
                for o in cfg.rv_operands(s["rv"]):
                    out += _leaves(f, o, depth - 1, seen)
            return out
        return [("param", l)] if 1 <= l <= f.arg_count else [("undef", l)]
    out = []
    for d in ds:
        if d[0] == "call":
            fr = d[2]["f"].get("fn")
            out.append(("call", (fr.get("resolved") or fr["key"]) if fr else None, d[2]))
        else:
            rv = d[3]["rv"]
            if rv["k"] == "use":
                out += _leaves(f, rv["a"], depth - 1, seen)
            elif rv["k"] == "agg":
                out.append(("agg", rv))
            else:
                out.append(("rv", rv["k"]))
    return out


def _event_leaf_ok(f, leaf, nei_key):
    if leaf[0] == "param":
        return True  # first_ev handed down by the caller, itself checked at the caller's site
    if leaf[0] == "call":
        k = leaf[1]
        if k == nei_key:
            return True
        # `let (ev, span) = self.next_event_impl()?`: Try::branch of the result
        if k and k.endswith("Try>::branch"):
            t = leaf[2]
            return all(_event_leaf_ok(f, x, nei_key) for x in _leaves(f, t["args"][0]))
        return False
    if leaf[0] == "agg":
        rv = leaf[1]
        # the synthesized StreamEnd of an already-ended stream in `load`
        return rv.get("agg") == "adt" and rv["adt"].endswith("parser::Event") and rv["variant"] == "StreamEnd"
    return False
