"""E5 — state-machine outcome extraction for parser.rs.

A forward, disjunctive (path-by-path, no joins) data-flow over one handler of Parser::state_machine with its constant arguments
bound.  Per path that does not end in Err it yields: the constraint on the kind of the first token looked at, the sequence of
push_state/pop_state calls, the last `self.state = S` write and the result (an Event kind, or a tail call to another handler with
constant arguments).  Token-kind constraints come from `switchInt(discriminant(token.1))`; a token returned by fetch_token()
inherits the constraint of the token that was peeked (the borrow checker guarantees it is the same token).
"""
from .facts import is_local, op_const, const_value, op_place
from . import cfg

PARSER = "saphyr_parser::parser::Parser"
TOP = None


class Path:
    __slots__ = ("bb", "env", "cur", "slot", "fetched", "ops", "written", "first", "first_done", "visits", "trace", "nfetch", "toks")

    def __init__(self):
        self.bb = 0
        self.env = {}
        self.cur = None        # frozenset of token kinds the current (peeked) token may have; None = no token peeked yet
        self.slot = False      # is the peek slot known to be filled
        self.fetched = {}      # token id -> constraint
        self.ops = []
        self.written = None
        self.first = None      # constraint on the first token looked at (refined until it is consumed)
        self.first_done = False
        self.visits = {}
        self.trace = []
        self.nfetch = 0
        self.toks = []         # constraint per successive token looked at (refined while it is the current token)

    def clone(self):
        p = Path()
        p.bb = self.bb
        p.env = dict(self.env)
        p.cur = self.cur
        p.slot = self.slot
        p.fetched = dict(self.fetched)
        p.ops = list(self.ops)
        p.written = self.written
        p.first = self.first
        p.first_done = self.first_done
        p.visits = dict(self.visits)
        p.trace = list(self.trace)
        p.nfetch = self.nfetch
        p.toks = list(self.toks)
        return p


class E5:
    def __init__(self, F):
        self.F = F
        tt = F.adt("saphyr_parser::scanner::TokenType")
        self.tok_names = {v["discr"]: v["name"] for v in tt["variants"]}
        self.ALL = frozenset(self.tok_names)
        self.handlers = {k for k, f in F.fns.items() if f.d.get("impl_adt") == PARSER and f.d.get("output", "").startswith("std::result::Result<(parser::Event")}
        self.problems = []

    # ------------------------------------------------------------------------------------------
    def outcomes(self, fnkey, args, max_paths=20000):
        f = self.F.fn(fnkey)
        p0 = Path()
        for i, a in enumerate(args):
            if a is not TOP:
                p0.env[i + 2] = ("i", int(a))      # arg 1 is self
        work = [p0]
        outs = []
        n = 0
        while work:
            p = work.pop()
            n += 1
            if n > max_paths:
                self.problems.append("path explosion in %s" % fnkey)
                break
            res = self._step(f, p)
            for q in res:
                if isinstance(q, dict):
                    outs.append(q)
                else:
                    work.append(q)
        return outs

    # ------------------------------------------------------------------------------------------
    def _val(self, f, p, op):
        c = op_const(op)
        if c is not None:
            v = const_value(c)
            if isinstance(v, bool):
                return ("i", int(v))
            if isinstance(v, int):
                return ("i", v)
            return TOP
        pl = op_place(op)
        if pl is None:
            return TOP
        return self._place_val(f, p, pl)

    def _place_val(self, f, p, pl):
        v = p.env.get(pl["l"], TOP)
        for e in pl["p"]:
            if v is TOP:
                return TOP
            k = e["k"]
            if k == "deref":
                continue
            if k == "downcast":
                if v[0] == "cf":
                    v = ("cfvar", e["v"], v[1])
                elif v[0] == "tuple" or v[0] in ("tokref", "tok"):
                    # (token.1 as Variant): keep the token identity
                    continue
                elif v[0] == "ok" and e["v"] == "Ok":
                    continue
                elif v[0] == "opt" and e["v"] in ("Some", "None"):
                    continue
                else:
                    return TOP
                continue
            if k == "field":
                if v[0] == "cfvar":
                    v = v[2] if v[1] == "Continue" else ("residual",)
                elif v[0] in ("tokref", "tok"):
                    if e["i"] == 1 and len(v) == 2:
                        v = (v[0], v[1], "kind")
                    elif len(v) == 3:
                        v = TOP     # payload of the token kind
                    else:
                        v = TOP
                elif v[0] == "tuple":
                    v = v[1 + e["i"]] if e["i"] + 1 < len(v) else TOP
                elif v[0] == "ok":
                    v = v[1] if e["i"] == 0 else TOP
                elif v[0] == "opt":
                    v = v[2] if (e["i"] == 0 and len(v) > 2 and v[1] == 1) else TOP
                else:
                    return TOP
                continue
            return TOP
        return v

    def _constraint(self, p, v):
        if v[0] == "tokref":
            return p.cur
        if v[0] == "tok":
            return p.fetched.get(v[1])
        return None

    def _set_constraint(self, p, v, c):
        if v[0] == "tokref":
            p.cur = c
            if p.toks:
                p.toks[-1] = c
            if not p.first_done:
                p.first = c
        elif v[0] == "tok":
            p.fetched[v[1]] = c
            if not p.first_done and v[1] == 0:
                pass

    # ------------------------------------------------------------------------------------------
    def _step(self, f, p):
        """execute block p.bb; returns list of successor Paths and/or outcome dicts"""
        bb = p.bb
        p.visits[bb] = p.visits.get(bb, 0) + 1
        if p.visits[bb] > 2:
            return []   # loop unrolled twice: further rounds add nothing (skip() resets the token constraint)
        p.trace.append(bb)
        blk = f.blocks[bb]
        for s in blk["stmts"]:
            if s["k"] == "assign":
                self._assign(f, p, s)
            elif s["k"] in ("dead", "live"):
                p.env.pop(s["l"], None)
        t = blk["term"]
        k = t["k"]
        if k == "goto" or k in ("assert", "drop"):
            p.bb = t["t"]
            return [p]
        if k == "return":
            return [self._outcome(f, p)]
        if k in ("unreachable", "resume"):
            return []
        if k == "switch":
            return self._switch(f, p, t)
        if k == "call":
            return self._call(f, p, t)
        return []

    def _outcome(self, f, p):
        r = p.env.get(0, TOP)
        return {"kind": "return", "result": r, "ops": list(p.ops), "written": p.written, "first": p.first, "trace": p.trace, "fn": f.key,
                "toks": list(p.toks), "slot": p.slot}

    def _assign(self, f, p, s):
        lhs, rv = s["lhs"], s["rv"]
        if lhs["p"]:
            # field write through self
            fl = cfg.place_fields(lhs)
            if lhs["l"] == 1 and fl == ["state"]:
                v = self._rv(f, p, rv)
                p.written = v[1] if (v is not TOP and v[0] == "state") else "?"
            elif lhs["l"] in p.env and not (lhs["l"] == 1):
                p.env.pop(lhs["l"], None)
            return
        v = self._rv(f, p, rv)
        if v is TOP:
            p.env.pop(lhs["l"], None)
        else:
            p.env[lhs["l"]] = v

    def _rv(self, f, p, rv):
        k = rv["k"]
        if k == "use":
            return self._val(f, p, rv["a"])
        if k in ("copyforderef",):
            return self._place_val(f, p, rv["p"])
        if k == "ref":
            return self._place_val(f, p, rv["p"])
        if k == "discr":
            v = self._place_val(f, p, rv["p"])
            if v is TOP:
                return TOP
            if v[0] in ("tokref", "tok") and len(v) == 3:
                return ("tokdisc", v[0], v[1])
            if v[0] == "cf":
                if len(v) > 2:
                    # `?` applied to a value whose variant is known on this path (an Err / Ok built by a spliced helper)
                    return ("i", 0 if v[2] == "continue" else 1)
                return ("cfdisc", v[1])
            if v[0] == "ok":
                return ("i", 0)
            if v[0] == "err":
                return ("i", 1)
            if v[0] == "opt":
                return ("i", v[1])
            return TOP
        if k == "un":
            v = self._val(f, p, rv["a"])
            if v is not TOP and v[0] == "i" and rv["op"] == "Not" and v[1] in (0, 1):
                return ("i", 1 - v[1])
            return TOP
        if k == "bin":
            a, b = self._val(f, p, rv["a"]), self._val(f, p, rv["b"])
            if a is not TOP and b is not TOP and a[0] == "i" and b[0] == "i":
                x, y = a[1], b[1]
                op = rv["op"]
                if op in ("Eq", "Ne", "Lt", "Le", "Gt", "Ge"):
                    return ("i", int({"Eq": x == y, "Ne": x != y, "Lt": x < y, "Le": x <= y, "Gt": x > y, "Ge": x >= y}[op]))
                if op in ("BitAnd",):
                    return ("i", x & y)
                if op in ("BitOr",):
                    return ("i", x | y)
            return TOP
        if k == "agg":
            if rv.get("agg") == "adt":
                adt = rv["adt"]
                if adt.endswith("parser::State"):
                    return ("state", rv["variant"])
                if adt.endswith("parser::Event"):
                    return ("event", rv["variant"], tuple(self._val(f, p, o) for o in rv["ops"]))
                if adt == "std::result::Result":
                    if rv["variant"] == "Ok":
                        return ("ok", self._val(f, p, rv["ops"][0]))
                    return ("err",)
                if adt == "std::option::Option":
                    return ("opt", rv["vidx"], self._val(f, p, rv["ops"][0]) if rv["ops"] else TOP)
                return TOP
            if rv.get("agg") == "tuple":
                return ("tuple",) + tuple(self._val(f, p, o) for o in rv["ops"])
            return TOP
        return TOP

    def _switch(self, f, p, t):
        v = self._val(f, p, t["discr"])
        vals, tgs, other = t["vals"], t["targets"], t["otherwise"]
        if v is not TOP and v[0] == "i":
            for val, tg in zip(vals, tgs):
                if val == v[1]:
                    p.bb = tg
                    return [p]
            p.bb = other
            return [p]
        if v is not TOP and v[0] == "tokdisc":
            tv = (v[1], v[2])
            c = self._constraint(p, tv)
            if c is None:
                c = self.ALL
            outs = []
            listed = set()
            for val, tg in zip(vals, tgs):
                listed.add(val)
                if val in c:
                    q = p.clone()
                    self._set_constraint(q, tv, frozenset([val]))
                    q.bb = tg
                    outs.append(q)
            rest = frozenset(c - listed)
            if rest:
                q = p.clone()
                self._set_constraint(q, tv, rest)
                q.bb = other
                outs.append(q)
            return outs
        outs = []
        seen = set()
        for tg in tgs + [other]:
            if tg in seen:
                continue
            seen.add(tg)
            q = p.clone()
            q.bb = tg
            outs.append(q)
        return outs

    def _call(self, f, p, t):
        fr = t["f"].get("fn")
        key = fr["key"] if fr else None
        dest = t["dest"]
        tg = t["t"]
        if tg is None:
            # diverging: panic / unreachable reached with a satisfiable constraint
            return [{"kind": "panic", "fn": f.key, "bb": p.bb, "callee": key, "ops": list(p.ops), "first": p.first, "trace": p.trace, "sp": t["sp"],
                     "cur": p.cur, "fetched": dict(p.fetched)}]
        argv = [self._val(f, p, a) for a in t["args"]]

        def done(dv):
            if not dest["p"]:
                if dv is TOP:
                    p.env.pop(dest["l"], None)
                else:
                    p.env[dest["l"]] = dv
            p.bb = tg
            return [p]
        if key == PARSER + "::peek_token":
            if not p.slot:
                p.cur = self.ALL
                p.slot = True
                p.toks.append(self.ALL)
                if p.first is None and not p.first_done:
                    p.first = self.ALL
            return done(("peekres",))
        if key == "std::ops::Try::branch":
            a = argv[0] if argv else TOP
            if a is not TOP and a[0] == "peekres":
                return done(("cf", ("tokref", 0)))
            if a is not TOP and a[0] == "err":
                return done(("cf", TOP, "break"))
            if a is not TOP and a[0] == "ok":
                return done(("cf", a[1], "continue"))
            if a is not TOP and a[0] == "tail":
                # `handler(..)?`: the Err side is propagated (not an outcome); on the Ok side the payload is what the handler delivered
                return done(("cf", ("tailok", a), "continue"))
            if a is not TOP and a[0] == "mapsome":
                return done(("cf", ("opt", 1, ("tailok", a[1])), "continue"))
            return done(("cf", TOP))
        if key == "std::ops::FromResidual::from_residual":
            return done(("err",))
        if key == PARSER + "::skip":
            p.slot = False
            p.cur = None
            p.first_done = True
            return done(TOP)
        if key == PARSER + "::fetch_token":
            tid = p.nfetch
            p.nfetch += 1
            p.fetched[tid] = p.cur if p.slot else None
            if not p.slot:
                self.problems.append("fetch_token() without a peeked token in %s" % f.key)
            p.slot = False
            p.cur = None
            p.first_done = True
            return done(("tok", tid))
        if key == PARSER + "::push_state":
            v = argv[1] if len(argv) > 1 else TOP
            p.ops.append(("push", v[1] if (v is not TOP and v[0] == "state") else "?"))
            return done(TOP)
        if key == PARSER + "::pop_state":
            p.ops.append(("pop",))
            return done(TOP)
        if key == "std::option::Option::is_some" and argv and argv[0] is not TOP and argv[0][0] == "opt":
            return done(("i", 1 if argv[0][1] == 1 else 0))
        if key == "std::option::Option::is_none" and argv and argv[0] is not TOP and argv[0][0] == "opt":
            return done(("i", 0 if argv[0][1] == 1 else 1))
        if key in ("saphyr_parser::parser::Event::empty_scalar", "saphyr_parser::parser::Event::empty_scalar_with_anchor"):
            return done(("event", "Scalar", ("empty",)))
        if key == "std::result::Result::map" and len(argv) == 2 and argv[0] is not TOP and argv[0][0] == "tail" \
                and "Some" in str(op_const(t["args"][1]) or ""):
            return done(("mapsome", argv[0]))
        if key in self.handlers and key != f.key or (key in self.handlers and key == f.key):
            cargs = []
            for a in argv[1:]:
                cargs.append(a[1] if (a is not TOP and a[0] == "i") else TOP)
            return done(("tail", key, tuple(cargs), p.slot, p.cur))
        # any other call leaves the machine state alone (checked separately by the writer inventory)
        return done(TOP)


def describe_result(r):
    """('event', K) | ('tail', fn, args) | ('err',) | ('other', repr)"""
    if r is TOP:
        return ("other", "unknown")
    if r[0] == "ok" and r[1] is not TOP and r[1][0] == "tailok":
        return ("tail", r[1][1][1], r[1][1][2])
    if r[0] == "mapsome":
        return ("other", "a handler result wrapped in Some")
    if r[0] == "ok":
        x = r[1]
        if x is not TOP and x[0] == "tuple" and x[1] is not TOP and x[1][0] == "event":
            return ("event", x[1][1])
        return ("other", "Ok(?)")
    if r[0] == "err":
        return ("err",)
    if r[0] == "tail":
        return ("tail", r[1], r[2])
    return ("other", str(r)[:60])
