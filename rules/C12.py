"""C12 — reported positions are true positions in the input.

Clause decided: lock-step coupling of the cursor mark with input consumption.
 (a) the functions that call a consuming Input method are exactly the functions that write mark.index; nobody else touches
     mark.index/col/line (fetch_stream_end's forced newline is the one reviewed exception);
 (b) per such function, on every path, what is consumed equals what is added to mark.index AND to mark.col, as symbolic terms
     (1 for skip(), k for skip_n(k), the value returned by a bulk operation for that operation); the raw-read loop of
     scan_block_scalar_content_line is a premise-checked relational site;
 (c) skip_nl (index+1, line+1, col:=0) has exactly that shape and is called only from skip_linebreak/skip_break;
 (d) mark.index only ever grows (written only as index + x); every Span::new(a, b) built from two reads of self.mark reads a first;
 (f) ScanError's Display prints mark.col + 1;
 (g) the loader attaches the handler's own span to every node it builds, and with_span stores its argument.
"""
from .common import *
from engine import tables
from engine.facts import is_local, op_const, const_value, op_place

PID = "C12"
S = SCANNER + "::"
CONSUMERS = ("skip", "skip_n", "raw_read_ch", "raw_read_non_breakz_ch", "skip_ws_to_eol", "skip_while_non_breakz", "skip_while_blank", "fetch_while_is_alpha")
BULK = ("skip_ws_to_eol", "skip_while_non_breakz", "skip_while_blank", "fetch_while_is_alpha")


def new_report(tier):
    return make_report(PID, tier, "proof", [
        "bulk Input operations return the number of characters they consumed (units are checked separately for StrInput: C10)",
        "characters consumed by skip()/skip_n(k) are 1 resp. k characters (Input contract)",
    ], "E6 caller/writer inventories; a disjunctive forward data-flow of the multiset of consumed-but-not-yet-accounted terms per function; "
       "shape checks of skip_nl, Display and with_span; dominance order of the two mark reads of every Span::new. Decides the coupling, not "
       "which marks are chosen as the start/end of a token.")


_DERIVED = {}


def derived_consumers(F):
    """Input methods beyond the reviewed list that consume: provided methods of the trait whose body reaches a consuming method.  Those
    that answer a usize are bulk operations (the answer is the number of characters taken: the Input contract, and for StrInput overrides
    rules/bulkops.py); others are reported as consumers of an unknown amount."""
    key = id(F)
    if key in _DERIVED:
        return _DERIVED[key]
    names = set(CONSUMERS)
    changed = True
    while changed:
        changed = False
        for k, f in F.fns.items():
            if not k.startswith(INPUT + "::") or "::{closure" in k:
                continue
            nm = k[len(INPUT) + 2:]
            if nm in names or "::" in nm:
                continue
            if any(fr and fr.get("trait") == INPUT and fr["name"] in names for bb, t, ck, fr in f.calls()):
                names.add(nm)
                changed = True
    extra = {}
    for nm in names - set(CONSUMERS):
        f = F.fns[INPUT + "::" + nm]
        extra[nm] = "bulk" if f.locals[0]["ty"] == "usize" else "unknown"
    _DERIVED.clear()
    _DERIVED[key] = extra
    return extra


_F_FOR_CONSUMERS = [None]


def consuming_calls(f):
    out = []
    if _F_FOR_CONSUMERS[0] is None:
        _F_FOR_CONSUMERS[0] = facts.load()
    extra = derived_consumers(_F_FOR_CONSUMERS[0])
    for bb, t, ck, fr in f.calls():
        if fr and fr.get("trait") == INPUT and (fr["name"] in CONSUMERS or fr["name"] in extra):
            out.append((bb, t, fr["name"]))
    return out


def mark_field_writes(f, fld):
    out = []
    for bi, si, s in cfg.stmts(f):
        if s["k"] == "assign" and cfg.place_field_owners(s["lhs"])[-2:] == [(SCANNER, "mark"), ("saphyr_parser::scanner::Marker", fld)]:
            out.append((bi, si, s))
    return out


def add_term(f, s, fld):
    """for `self.mark.<fld> = <rhs>`: the term added when rhs is (mark.<fld> + X).0, else None"""
    if s["rv"]["k"] != "use":
        return None
    e = cfg.expr_operand(f, s["rv"]["a"], 12)
    if e[0] == "place" and e[2] == [("field", "0")] and e[1][0] == "bin" and e[1][1] in ("AddWithOverflow", "Add"):
        a, b = e[1][2], e[1][3]
        if cfg.expr_fields(a) == ["mark", fld]:
            return term_of(b)
        if cfg.expr_fields(b) == ["mark", fld]:
            return term_of(a)
    return None


def term_of(e):
    e = cfg.strip_reborrow(e)
    if e[0] == "const" and isinstance(e[1], int):
        return ("k", e[1])
    if e[0] == "param":
        return ("param", e[1])
    if e[0] == "call":
        return ("res", e[3], (e[1] or "").split("::")[-1])
    if e[0] == "place" and e[1][0] == "call" and e[2] == [("field", "0")]:
        return ("res0", e[1][3], (e[1][1] or "").split("::")[-1])
    return ("?", cfg.expr_str(e)[:60])


def consumed_term(f, bb, t, name):
    if name == "skip":
        return ("k", 1)
    if name == "skip_n":
        return term_of(cfg.expr_operand(f, t["args"][1], 8))
    if name == "skip_ws_to_eol":
        return ("res0", bb, name)
    if name in BULK or (_F_FOR_CONSUMERS[0] is not None and derived_consumers(_F_FOR_CONSUMERS[0]).get(name) == "bulk"):
        return ("res", bb, name)
    if name == "raw_read_ch":
        return ("k", 1)
    return ("raw", bb)


def raw_loop_premises(F, f):
    """relational site: while let Some(c) = raw_read_non_breakz_ch() { BUF.push(c) } ; n = BUF.chars().count(); index += n; col += n"""
    prem = {}
    raws = [(bb, t) for bb, t, n in consuming_calls(f) if n == "raw_read_non_breakz_ch"]
    if len(raws) != 1:
        return False, {"one raw-read site": False}, None
    rb, rt = raws[0]
    loops = [(h, body) for h, body in f.natural_loops() if rb in body]
    prem["raw read inside exactly one loop"] = len(loops) == 1
    if len(loops) != 1:
        return False, prem, None
    head, body = loops[0]
    pushes = []
    others = []
    for b in body:
        t = f.blocks[b]["term"]
        if t["k"] == "call" and b != rb:
            fr = t["f"].get("fn")
            if fr and fr["key"] == "std::string::String::push":
                pushes.append((b, t))
            else:
                others.append(fr["key"] if fr else "?")
    prem["one push per iteration, nothing else in the loop"] = len(pushes) == 1 and not others
    buf = None
    if len(pushes) == 1:
        recv = cfg.strip_reborrow(cfg.expr_operand(f, pushes[0][1]["args"][0]))
        val = cfg.expr_operand(f, pushes[0][1]["args"][1], 6)
        buf = recv
        prem["pushed value is the character just read"] = val[0] == "place" and val[1][0] == "call" and val[1][1] == INPUT + "::raw_read_non_breakz_ch" \
            and ("downcast", "Some") in val[2]
        # the push happens on the Some edge: it is dominated by the discriminant switch of the read result
        prem["push on the Some edge"] = pushes[0][0] in body and cfg.dominated_by_edge(f, pushes[0][0], f.blocks[rb]["term"]["t"],
                                                                                      _some_target(f, f.blocks[rb]["term"]["t"]))
    # the count term
    counts = [(bb, t) for bb, t, ck, fr in f.calls() if ck == "std::iter::Iterator::count"]
    okc = False
    for bb, t in counts:
        e = cfg.expr_operand(f, t["args"][0], 10)
        s = cfg.expr_str(e)
        if "str::chars" in s and buf is not None and cfg.expr_str(buf) in s.replace("&", "").replace("*", "") or (buf is not None and cfg.expr_str(buf).lstrip("&*") in s):
            okc = True
            prem["count block"] = bb
    prem["n = BUF.chars().count() of the same buffer"] = okc
    # BUF is cleared before the function returns and written by nothing else here
    clears = [bb for bb, t, ck, fr in f.calls() if ck == "std::string::String::clear" and buf is not None and cfg.strip_reborrow(cfg.expr_operand(f, t["args"][0])) == buf]
    prem["buffer cleared before return"] = bool(clears)
    # callers hand in a buffer that only this function writes
    okcallers = True
    for cf, cbb, ct in F.callers_of(f.key):
        bl = cfg.borrowed_local(cf, ct["args"][-1])
        if bl is None:
            okcallers = False
            continue
        for bb2, t2, ck2, fr2 in cf.calls():
            if bb2 == cbb:
                continue
            for a in t2["args"]:
                if cfg.borrowed_local(cf, a) == bl and ck2 not in (f.key,):
                    okcallers = False
        ds = cfg.defs_of_local(cf, bl)
        okcallers = okcallers and len(ds) == 1 and ds[0][0] == "call" and (ds[0][2]["f"].get("fn") or {}).get("key", "").startswith("std::string::String::")
    prem["callers pass a fresh buffer written only here"] = okcallers
    ok = all(v for k, v in prem.items() if isinstance(v, bool))
    return ok, prem, (rb, prem.get("count block"))


def _some_target(f, sw_bb):
    t = f.blocks[sw_bb]["term"]
    if t["k"] != "switch":
        return None
    m = {v: tg for v, tg in zip(t["vals"], t["targets"])}
    return m.get(1, t["otherwise"])


def balance(rep, F, f):
    """disjunctive forward data-flow: state = (pending index terms, pending col terms) as sorted tuples"""
    cons = {bb: (t, n) for bb, t, n in consuming_calls(f)}
    raw_ok, prem, rawinfo = (True, {}, None)
    neutral_terms = set()
    if any(n == "raw_read_non_breakz_ch" for _, (t, n) in cons.items()):
        raw_ok, prem, rawinfo = raw_loop_premises(F, f)
        rep.check(raw_ok, "raw-read-lemma", short(f.key), "a premise of the raw-read relational lemma no longer holds (consumed characters = characters "
                  "pushed to the line buffer = the count added to the mark)", site=f.span, detail=prem)
        rep.extra.setdefault("exceptions_applied", []).append({"lemma": "raw-read loop of " + short(f.key), "premises": prem})
        if raw_ok and rawinfo[1] is not None:
            neutral_terms.add(("res", rawinfo[1], "count"))
    idx_w = {(bi, si): add_term(f, s, "index") for bi, si, s in mark_field_writes(f, "index")}
    col_w = {(bi, si): add_term(f, s, "col") for bi, si, s in mark_field_writes(f, "col")}
    start = (0, ((), ()))
    seen = {start}
    work = [start]
    problems = []
    nstates = 0
    while work:
        bb, (pi, pc) = work.pop()
        nstates += 1
        if nstates > 20000:
            problems.append(("explosion", bb, None))
            break
        pi, pc = list(pi), list(pc)
        blk = f.blocks[bb]
        for si, s in enumerate(blk["stmts"]):
            for table, pend, fld in ((idx_w, pi, "index"), (col_w, pc, "col")):
                if (bb, si) in table:
                    tm = table[(bb, si)]
                    if tm is None:
                        problems.append(("mark.%s assigned something other than mark.%s + x" % (fld, fld), bb, s["sp"]))
                    elif tm in neutral_terms:
                        pass
                    elif tm in pend:
                        pend.remove(tm)
                    else:
                        problems.append(("mark.%s advanced by %s which was not consumed before on this path" % (fld, _t(tm)), bb, s["sp"]))
        t = blk["term"]
        if bb in cons:
            ct, name = cons[bb]
            if name != "raw_read_non_breakz_ch" or not raw_ok:
                tm = consumed_term(f, bb, ct, name)
                pi.append(tm)
                pc.append(tm)
        if t["k"] == "return":
            if pi or pc:
                problems.append(("returns with consumed characters not added to the mark: index %s, col %s" % ([_t(x) for x in pi], [_t(x) for x in pc]), bb, None))
            continue
        if len(pi) > 3 or len(pc) > 3:
            problems.append(("consumption accumulates without the mark being advanced (index %s, col %s)" % ([_t(x) for x in pi], [_t(x) for x in pc]), bb, t.get("sp")))
            continue
        st = (tuple(sorted(pi, key=str)), tuple(sorted(pc, key=str)))
        for s2 in f.succs(bb):
            if f.blocks[s2]["cleanup"]:
                continue
            k = (s2, st)
            if k not in seen:
                seen.add(k)
                work.append(k)
    return problems


def _t(tm):
    if tm[0] == "k":
        return str(tm[1])
    if tm[0] == "param":
        return "arg%d" % tm[1]
    if tm[0] in ("res", "res0"):
        return "result of %s%s" % (tm[2], ".0" if tm[0] == "res0" else "")
    return str(tm)


def run(tier):
    rep = new_report(tier)
    F = facts.load()
    _F_FOR_CONSUMERS[0] = F
    rep.extra["derived_consuming_input_methods"] = derived_consumers(F)
    # (a) consumers == index writers
    consumers, writers = set(), {"index": set(), "col": set(), "line": set()}
    for k, f in F.fns.items():
        if f.crate != "saphyr_parser" or "::test" in k:
            continue
        if consuming_calls(f) and not k.startswith(INPUT + "::") and f.d.get("impl_trait") != INPUT:
            consumers.add(k)
        for fld in writers:
            if mark_field_writes(f, fld):
                writers[fld].add(k)
    rep.extra["consumers"] = sorted(short(k) for k in consumers)
    rep.floor("scanner functions that consume input", len(consumers), 10)
    for k in sorted(consumers | writers["index"]):
        rep.check(k in consumers and k in writers["index"], "consume-iff-advance", short(k),
                  "this function %s" % ("consumes input but never advances mark.index" if k in consumers else "advances mark.index without consuming input"),
                  site=F.fns[k].span)
    extra_col = writers["col"] - writers["index"]
    extra_line = writers["line"] - writers["index"]
    allowed_extra = {S + "fetch_stream_end"}
    for k in sorted(extra_col | extra_line):
        rep.check(k in allowed_extra, "mark-writers", short(k), "mark.col/line written by a function that does not consume input "
                  "(only fetch_stream_end's forced newline is a reviewed exception)", site=F.fns[k].span)
    # all consumers are Scanner methods calling through self.input
    for k in sorted(consumers):
        rep.check(F.fns[k].d.get("impl_adt") == SCANNER, "consumer-owner", short(k), "input is consumed outside the Scanner", site=F.fns[k].span)

    # (b) balance per function
    nl = S + "skip_nl"
    nprob = 0
    for k in sorted(consumers):
        f = F.fns[k]
        if k == nl:
            continue
        probs = balance(rep, F, f)
        if not probs:
            rep.ok("mark-balance", short(k), {"consuming_sites": len(consuming_calls(f))})
        seenp = set()
        for what, bb, sp in probs:
            if what in seenp:
                continue
            seenp.add(what)
            nprob += 1
            rep.bad("mark-balance", "%s: %s" % (short(k), what.split(" which ")[0].split(" (index")[0][:90]), what, site=site(f, sp) if sp else f.span)

    # (c) skip_nl
    f = F.fn(nl)
    cs = consuming_calls(f)
    idx = [add_term(f, s, "index") for _, _, s in mark_field_writes(f, "index")]
    ln = [add_term(f, s, "line") for _, _, s in mark_field_writes(f, "line")]
    colw = [cfg.expr_operand(f, s["rv"]["a"], 4) if s["rv"]["k"] == "use" else None for _, _, s in mark_field_writes(f, "col")]
    okn = len(cs) == 1 and cs[0][2] == "skip" and idx == [("k", 1)] and ln == [("k", 1)] and colw == [("const", 0)] and not f.natural_loops()
    rep.check(okn, "skip-nl-shape", "skip_nl", "skip_nl is no longer: consume one character, index += 1, line += 1, col = 0", site=f.span,
              detail={"index": str(idx), "line": str(ln), "col": str(colw)})
    callers = sorted({cf.key for cf, _, _ in F.callers_of(nl)})
    rep.check(set(callers) <= {S + "skip_linebreak", S + "skip_break"} and callers, "skip-nl-callers", "skip_nl",
              "skip_nl (the only place a line is counted) is called from outside the two break helpers", detail=[short(c) for c in callers])
    # line only advanced in skip_nl and fetch_stream_end
    rep.check(writers["line"] <= {nl, S + "fetch_stream_end"}, "line-writers", "mark.line", "mark.line is advanced outside skip_nl/fetch_stream_end",
              detail=sorted(short(x) for x in writers["line"]))

    # (c, class part) a line is counted exactly when a break is consumed: E1 pass B over the character-class window
    from . import classdom
    for B in ((16,) if tier == "quick" else (8, 16, 128)):
        EB = classdom.run(F, B)
        classdom.contract_sites(rep, F, EB, B)
        n = classdom.break_discipline(rep, F, EB, B, "break-discipline")
        rep.extra.setdefault("class_pass", {})[str(B)] = {"contexts": EB.contexts, "helper_entry_contexts": n}

    # (d) monotone index; Span::new ordering
    for k in sorted(writers["index"]):
        f = F.fns[k]
        for bi, si, s in mark_field_writes(f, "index"):
            rep.check(add_term(f, s, "index") is not None, "index-monotone", short(k), "mark.index is assigned something other than mark.index + x", site=site(f, s["sp"]))
    nspan = nboth = 0
    for k, f in sorted(F.fns.items()):
        if f.crate != "saphyr_parser" or f.file not in ("parser/src/scanner.rs", "parser/src/parser.rs") or "::test" in k:
            continue
        for bb, t, ck, fr in f.calls():
            if ck != "saphyr_parser::scanner::Span::new":
                continue
            nspan += 1
            A = _mark_read_sites(f, t["args"][0])
            Bs = _mark_read_sites(f, t["args"][1])
            if not A or not Bs:
                continue
            nboth += 1
            bad = None
            for ra in A:
                for rb_ in Bs:
                    if ra[0] == rb_[0]:
                        if ra[1] > rb_[1]:
                            bad = (ra, rb_)
                        continue
                    if ra[0] in cfg.blocks_reachable_from(f, f.succs(rb_[0])) and ra[0] not in f.dominators().get(rb_[0], ()):
                        bad = (ra, rb_)
            rep.check(bad is None, "span-order", "%s:Span::new" % short(k), "a span's start can be read from the cursor after its end was read (start > end)",
                      site=site(f, t["sp"]), detail={"start_reads": sorted(A), "end_reads": sorted(Bs), "offending": bad})
    rep.extra["span_new_sites"] = {"total": nspan, "both_from_cursor": nboth}
    rep.floor("Span::new sites", nspan, 8)

    # (f) Display prints col + 1
    disp = F.fn("<saphyr_parser::scanner::ScanError as std::fmt::Display>::fmt")
    plus1 = False
    rawcol = False
    for bi, si, s in cfg.stmts(disp):
        if s["k"] != "assign":
            continue
        rv = s["rv"]
        if rv["k"] == "bin" and rv["op"] in ("AddWithOverflow", "Add"):
            a = cfg.expr_operand(disp, rv["a"], 6)
            b = cfg.expr_operand(disp, rv["b"], 6)
            if cfg.expr_fields(a) == ["mark", "col"] and b == ("const", 1):
                plus1 = True
        if rv["k"] == "ref" and cfg.place_fields(rv["p"])[-2:] == ["mark", "col"]:
            rawcol = True
    rep.check(plus1 and not rawcol, "display-one-based-column", "ScanError::fmt", "the printed column is no longer mark.col + 1", site=disp.span)

    # (g) loader spans
    oe = F.fn("<%s as saphyr_parser::parser::SpannedEventReceiver>::on_event" % LOADER)
    nws = 0
    for bb, t, ck, fr in oe.calls():
        if ck == "saphyr::loader::LoadableYamlNode::with_span":
            nws += 1
            e = cfg.expr_operand(oe, t["args"][1], 6)
            rep.check(e == ("param", 3), "loader-span", "on_event:with_span#%d" % nws, "a loaded node does not get the span of the event that created it",
                      site=site(oe, t["sp"]), detail=cfg.expr_str(e))
    rep.floor("with_span calls in on_event", nws, 4)
    # every node handed on (to insert_new_node, or pushed on the stack of open collections) is, on every path, the direct result of
    # with_span(<node>, <span of this event>) - a node taken from the anchor table (alias) included
    nplaced = 0
    for bb, t, ck, fr in oe.calls():
        node_e = None
        if ck and ck.endswith("::insert_new_node"):
            node_e = cfg.expr_operand(oe, t["args"][1], 8)
        elif ck == "std::vec::Vec::push" and cfg.expr_fields(cfg.strip_reborrow(cfg.expr_operand(oe, t["args"][0], 4))[1] if cfg.strip_reborrow(cfg.expr_operand(oe, t["args"][0], 4))[0] == "ref" else ("x",)) == ["doc_stack"]:
            node_e = cfg.expr_operand(oe, t["args"][1], 8)
        if node_e is None:
            continue
        nplaced += 1
        first = node_e[2][0] if node_e[0] == "agg" and node_e[1] == "tuple" and node_e[2] else node_e
        okp = first[0] == "call" and first[1] == "saphyr::loader::LoadableYamlNode::with_span" and first[2][1] == ("param", 3)
        # a collection that is being closed comes off the stack of open collections, where it was put with its span when it was opened
        whole = cfg.expr_str(node_e)
        if not okp and "Vec::pop(" in whole and "doc_stack" in whole:
            okp = True
        rep.check(okp, "loader-span", "on_event:placed#%d" % nplaced, "a node is handed on without having been given the span of the event that produced it on every path "
                  "(an alias node must carry the alias's position, not the anchored node's)", site=site(oe, t["sp"]), detail=cfg.expr_str(first)[:160])
    rep.floor("nodes handed on by on_event", nplaced, 4)
    for ty in ("saphyr::annotated::marked_yaml::MarkedYaml", "saphyr::annotated::marked_yaml_owned::MarkedYamlOwned"):
        f = F.fn("<%s as saphyr::loader::LoadableYamlNode>::with_span" % ty)
        st = [cfg.expr_operand(f, s["rv"]["a"], 4) for bi, si, s in cfg.stmts(f) if s["k"] == "assign" and cfg.place_fields(s["lhs"]) == ["span"] and s["rv"]["k"] == "use"]
        rep.check(st == [("param", 2)], "with-span-stores", short(ty), "with_span does not store its argument in the node's span", site=f.span, detail=str(st))
    # (h) a reported position is a value the cursor held: Marker fields are written only through Scanner.mark, Marker values are built only
    # by Marker::new / Default, and Marker::new is given constants only (initial and placeholder positions) -- no position is computed aside
    MARKER = "saphyr_parser::scanner::Marker"
    nbuild = 0
    for k, f in sorted(F.fns.items()):
        if f.crate != "saphyr_parser" or "::test" in k:
            continue
        own = f.d.get("impl_adt") == MARKER or ("<" + MARKER + " as ") in k
        for bi, si, s in cfg.stmts(f):
            if s["k"] != "assign":
                continue
            ow = cfg.place_field_owners(s["lhs"])
            if ow and ow[-1][0] == MARKER and not own and (len(ow) < 2 or ow[-2] != (SCANNER, "mark")):
                rep.bad("position-from-cursor", "%s writes %s of a Marker that is not the cursor" % (short(k), ow[-1][1]),
                        "a position is computed on a copy of the cursor: every reported position must be a value Scanner.mark held", site=site(f, s["sp"]))
            if s["rv"]["k"] == "agg" and s["rv"].get("adt") == MARKER:
                nbuild += 1
                rep.check(own, "position-from-cursor", "%s builds a Marker" % short(k), "a Marker is assembled outside Marker::new/default", site=site(f, s["sp"]))
        for bb, t, ck, fr in f.calls():
            if ck == MARKER + "::new":
                allc = all(op_const(a) is not None for a in t["args"])
                rep.check(allc, "position-from-cursor", "%s calls Marker::new" % short(k), "Marker::new is given a computed position (only initial and placeholder constants are built this way)",
                          site=site(f, t["sp"]))
    rep.floor("Marker constructions", nbuild, 1)
    # (i) what the bulk operations of the string back-end report is a number of characters (it is added to mark.index / mark.col)
    from . import bulkops
    rep.floor("bulk operations whose returned count is classified", bulkops.count_unit(rep, F), 2)
    return rep


def _mark_read_sites(f, op, depth=8, seen=None):
    """all sites (bb, stmt index) where the operand's value may have been copied from self.mark; empty if any source is something else"""
    seen = seen if seen is not None else set()
    l = is_local(op)
    if l is None or depth <= 0:
        return set()
    if l in seen:
        return set()
    seen.add(l)
    ds = cfg.defs_of_local(f, l)
    if not ds:
        return set()
    out = set()
    for d in ds:
        if d[0] != "stmt" or d[3]["rv"]["k"] != "use":
            return set()
        p = op_place(d[3]["rv"]["a"])
        if p is not None and cfg.place_fields(p) == ["mark"] and p["l"] == 1:
            out.add((d[1], d[2]))
            continue
        sub = _mark_read_sites(f, d[3]["rv"]["a"], depth - 1, seen)
        if not sub:
            return set()
        out |= sub
    return out


def _mark_read_site(f, op):
    """if the operand is a copy of self.mark read at (bb, stmt index): that site"""
    l = is_local(op)
    hops = 0
    while l is not None and hops < 8:
        hops += 1
        ds = cfg.defs_of_local(f, l)
        if len(ds) != 1 or ds[0][0] != "stmt":
            return None
        rv = ds[0][3]["rv"]
        if rv["k"] == "use":
            p = op_place(rv["a"])
            if p is not None and cfg.place_fields(p) == ["mark"] and p["l"] == 1:
                return (ds[0][1], ds[0][2])
            l = is_local(rv["a"])
            continue
        return None
    return None


def _arm_hint(f, bb):
    return "bb%d" % bb if False else f.blocks[bb]["term"]["sp"]["at"].split(":")[-2]
